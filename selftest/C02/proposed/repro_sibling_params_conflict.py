"""Sibling .params() conflicts are not cache-transparent (unmodified tree).

Two members of a compound (or two sibling subqueries / CTEs) give the same named parameter different values
with .params().  With a cache key the later sibling wins (cache-key traversal), without one (query_cache_size=0,
compiled_cache=None, uncacheable statement) the first sibling wins (compiler collection).

    python repro_sibling_params_conflict.py [path-to-lib]
"""
import sys
sys.path.insert(0, sys.argv[1] if len(sys.argv) > 1 else "/repo/lib")
from sqlalchemy import Column, Integer, MetaData, Table, bindparam, create_engine, event, select, union_all

m = MetaData()
t = Table("t", m, Column("id", Integer, primary_key=True), Column("x", Integer))


def run(**kw):
    e = create_engine("sqlite://", **kw)
    m.create_all(e)
    sent = []
    event.listen(e, "before_cursor_execute", lambda c, cur, st, p, ctx, many: sent.append(p))
    with e.begin() as c:
        c.execute(t.insert(), [{"id": i, "x": i} for i in range(1, 5)])
        del sent[:]
        out = []
        for build in (
            lambda: union_all(select(t.c.id).where(t.c.x == bindparam("v")).params(v=1),
                              select(t.c.id).where(t.c.x == bindparam("v")).params(v=2)),
            lambda: select(select(t.c.id).where(t.c.x == bindparam("v")).params(v=1).subquery().c.id,
                           select(t.c.id).where(t.c.x == bindparam("v")).params(v=2).subquery().c.id),
        ):
            out.append(sorted(c.execute(build()).fetchall()))
    return sent, out


cached = run()
uncached = run(query_cache_size=0)
print("cache enabled :", cached)
print("cache disabled:", uncached)
print("TRANSPARENT" if cached == uncached else "NOT TRANSPARENT")
sys.exit(0 if cached == uncached else 1)
