import sys; sys.path.insert(0, sys.argv[1] if len(sys.argv) > 1 else "/repo/lib")
from sqlalchemy import Integer, String, TypeDecorator, bindparam, column, create_engine, select, table
class Tagged(TypeDecorator):
    impl = String; cache_ok = False
    def __init__(self, tag): self.tag = tag; super().__init__()
    def process_bind_param(self, value, dialect): return "%s:%s" % (self.tag, value)
e = create_engine("sqlite://")
with e.connect() as c:
    for tag in ("a", "b", "c"):
        stmt = select(bindparam(None, "v", type_=Tagged(tag)))
        print(tag, stmt._generate_cache_key() is None, c.scalar(stmt))
