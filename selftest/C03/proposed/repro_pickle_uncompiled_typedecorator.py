import sys; sys.path.insert(0, sys.argv[1] if len(sys.argv)>1 else '/repo/lib')
import sqlalchemy as sa, pickle, traceback, datetime
from sqlalchemy.dialects import sqlite, postgresql
t=sa.table('tc', sa.column('d', sa.Date), sa.column('u', sa.String))
for label, mk in [('cast DateTime', lambda: sa.select(sa.cast(t.c.u, sa.DateTime))), ('extract', lambda: sa.select(sa.extract('microseconds', t.c.d))),
                  ('where date', lambda: sa.select(t.c.u).where(t.c.d > datetime.date(2020,7,19))), ('cast Interval', lambda: sa.select(sa.cast(t.c.u, sa.Interval))),
                  ('cast Enum', lambda: sa.select(sa.cast(t.c.u, sa.Enum('a','b',name='e')))), ('cast Uuid', lambda: sa.select(sa.cast(t.c.u, sa.Uuid)))]:
    for d in (sqlite.dialect(),):
        s = mk()
        try: print(label, 'pickle(fresh)   ->', str(pickle.loads(pickle.dumps(s)).compile(dialect=d)).replace('\n',' ')[:90])
        except Exception as e: print(label, 'pickle(fresh) RAISED', type(e).__name__, str(e)[:120]); traceback.print_exc(limit=-3)
        s = mk(); s.compile(dialect=d)
        try: print(label, 'pickle(compiled)->', str(pickle.loads(pickle.dumps(s)).compile(dialect=d)).replace('\n',' ')[:90])
        except Exception as e: print(label, 'pickle(compiled) RAISED', type(e).__name__, str(e)[:120])
