import sys, traceback
sys.path.insert(0, __import__("os").environ.get("R", "/repo") + "/lib")
import sqlalchemy as sa
from sqlalchemy.dialects import registry
from sqlalchemy.dialects.sqlite import insert as sqlite_insert
registry.register("sqlite.pysqlite_numeric", "sqlalchemy.dialects.sqlite.pysqlite", "_SQLiteDialect_pysqlite_numeric")
md = sa.MetaData()
t = sa.Table("t", md, sa.Column("id", sa.Integer, primary_key=True), sa.Column("a", sa.Integer), sa.Column("b", sa.Integer))
o = sa.Table("o", md, sa.Column("id", sa.Integer, primary_key=True), sa.Column("v", sa.Integer))
def engines():
    yield "qmark", sa.create_engine("sqlite://")
    yield "named", sa.create_engine("sqlite://", paramstyle="named")
    yield "numeric", sa.create_engine("sqlite+pysqlite_numeric://")
for ps, e in engines():
    log = []
    sa.event.listen(e, "before_cursor_execute", lambda c, cur, st, p, ctx, em: log.append((" ".join(st.split()), p)))
    with e.begin() as c:
        md.create_all(c)
        c.execute(sa.insert(o), [{"id": 1, "v": 5}, {"id": 2, "v": 50}])
        # (a) VALUES contains a scalar subquery referencing a SELECT CTE that has a bind
        cte = sa.select(o.c.id).where(o.c.v > 10).cte("c1")
        sub = sa.select(sa.func.count()).select_from(cte).scalar_subquery()
        st = sa.insert(t).values(id=sa.bindparam("pid"), a=sa.bindparam("pa"), b=sub).returning(t.c.id, t.c.b)
        try:
            print(ps, "(a)", sorted(c.execute(st, [{"pid": 1, "pa": 10}, {"pid": 2, "pa": 20}, {"pid": 3, "pa": 30}]).all()), "expected b=1 for all")
        except Exception as ex:
            print(ps, "(a) ERR", type(ex).__name__, str(ex).split("\n")[0][:150]); print("    ", log[-1] if log else None)
        # (b) per-row bindparam inside on_conflict_do_update(where=...)
        c.execute(sa.delete(t)); c.execute(sa.insert(t), [{"id": 1, "a": 1, "b": 0}, {"id": 2, "a": 2, "b": 0}, {"id": 3, "a": 3, "b": 0}])
        ins = sqlite_insert(t).values(id=sa.bindparam("pid"), a=sa.bindparam("pa"), b=7)
        ins = ins.on_conflict_do_update(index_elements=[t.c.id], set_={"a": ins.excluded.a}, where=(t.c.a < sa.bindparam("lim"))).returning(t.c.id)
        rows = [{"pid": 1, "pa": 100, "lim": 0}, {"pid": 2, "pa": 200, "lim": 99}, {"pid": 3, "pa": 300, "lim": 99}]
        try:
            c.execute(ins, rows)
            print(ps, "(b) stored", c.execute(sa.select(t.c.id, t.c.a).order_by(t.c.id)).all(), "expected [(1, 1), (2, 200), (3, 300)] (row 1: lim=0 -> no update)")
            print("    ", log[-2][0][:300])
        except Exception as ex:
            print(ps, "(b) ERR", type(ex).__name__, str(ex).split("\n")[0][:150])
