"""Reproducers for two open C07 candidates (run with PYTHONPATH=<tree>/lib).

(b) empty IN / NOT IN against a type with bind_expression(): the bound expansion wraps
    the dialect's empty-set sub-select in the bind expression:
    ``s IN (lower(SELECT 1 FROM (SELECT 1) WHERE 1!=1))`` -> syntax error on SQLite.
    Expected: same rows as the constant FALSE / TRUE (what the literal_binds path renders).
(d) text("... (a, b) IN :pairs") with an UNTYPED expanding parameter + literal_binds:
    AttributeError: 'NullType' object has no attribute 'types' (an internal error; the
    bound path sniffs the tuples and works).
Exit 0 = both behave, 1 = at least one reproduces.
"""
import sys
import warnings

warnings.simplefilter("ignore")
from sqlalchemy import Column, Integer, MetaData, String, Table, TypeDecorator, bindparam, create_engine, func, select, text


class Lower(TypeDecorator):
    impl = String
    cache_ok = True

    def bind_expression(self, bindvalue):
        return func.lower(bindvalue)


e = create_engine("sqlite://")
md = MetaData()
t = Table("t", md, Column("id", Integer, primary_key=True), Column("s", Lower), Column("a", Integer), Column("b", Integer))
md.create_all(e)
bad = 0
with e.begin() as c:
    c.execute(t.insert(), [dict(id=1, s="a", a=1, b=2), dict(id=2, s="b", a=3, b=4), dict(id=3, s=None, a=None, b=None)])
    for form, want in (("in_", []), ("not_in", [1, 2, 3])):
        try:
            got = [r[0] for r in c.execute(select(t.c.id).where(getattr(t.c.s, form)([])).order_by(t.c.id))]
            ok = got == want
            print(f"(b) s.{form}([]) -> {got} want {want}: {'ok' if ok else 'WRONG'}")
        except Exception as ex:  # noqa: BLE001
            ok = False
            print(f"(b) s.{form}([]) raised {type(ex).__name__}: {str(ex).splitlines()[0][:150]}")
        bad += not ok
    st = text("SELECT id FROM t WHERE (a, b) IN :pairs ORDER BY id").bindparams(bindparam("pairs", expanding=True))
    print("(d) bound:", c.execute(st, {"pairs": [(1, 2), (3, 4)]}).all())
    try:
        sql = str(st.bindparams(pairs=[(1, 2), (3, 4)]).compile(e, compile_kwargs={"literal_binds": True}))
        got = c.exec_driver_sql(sql).all()
        print("(d) literal_binds:", sql.replace("\n", " "), "->", got)
        bad += got != [(1,), (2,)]
    except Exception as ex:  # noqa: BLE001
        print(f"(d) literal_binds raised {type(ex).__name__}: {ex}")
        bad += 1
sys.exit(1 if bad else 0)
