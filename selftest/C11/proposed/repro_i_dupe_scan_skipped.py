import sys
sys.path.insert(0, __import__("os").environ.get("R", "/repo") + "/lib")
import sqlalchemy as sa
md = sa.MetaData()
t1 = sa.Table("t1", md, sa.Column("id", sa.Integer, primary_key=True), sa.Column("name", sa.String))
t2 = sa.Table("t2", md, sa.Column("id", sa.Integer, primary_key=True), sa.Column("t1_id", sa.Integer), sa.Column("descr", sa.String))
e = sa.create_engine("sqlite://")
ok = True
with e.begin() as c:
    md.create_all(c)
    c.execute(sa.insert(t1), [{"id": 1, "name": "n1"}]); c.execute(sa.insert(t2), [{"id": 20, "t1_id": 1, "descr": "d"}])
    j = t1.join(t2, t1.c.id == t2.c.t1_id)
    for ls in (sa.LABEL_STYLE_NONE, sa.LABEL_STYLE_DISAMBIGUATE_ONLY):
        st = sa.select(t1.c.id, t2.c.id, sa.literal_column("t2.*")).select_from(j).set_label_style(ls)
        res = c.execute(st); keys = list(res.keys()); row = res.one()
        for k in (t1.c.id, "id"):
            try:
                v = row._mapping[k]
                good = (k is t1.c.id and v == 1)
                print(ls.name, keys, tuple(row), "lookup", repr(str(k)), "->", v, "" if good else "  <-- wrong / should raise")
                ok = ok and good
            except sa.exc.InvalidRequestError as err:
                print(ls.name, keys, "lookup", repr(str(k)), "-> raises", str(err)[:40])
print("PASS" if ok else "FAIL")
