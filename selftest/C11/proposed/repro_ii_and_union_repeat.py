"""(ii) a LABEL_STYLE_NONE statement used through .cte() exports two columns under one name (subquery() disambiguates
or refuses): the outer SELECT silently reads the first one twice.
(iii) a UNION whose FIRST member selects the same column object twice, used as subquery / cte: the two positions are
exported as one column, rows of the other members lose their second value.   R=<tree> selects the tree."""
import os, sys
sys.path.insert(0, os.environ.get("R", "/repo") + "/lib")
import sqlalchemy as sa
e = sa.create_engine("sqlite://")
md = sa.MetaData()
t = sa.Table("t", md, sa.Column("id", sa.Integer, primary_key=True), sa.Column("a", sa.Integer), sa.Column("b", sa.Integer))
u = t.alias("u")
ok = True
with e.begin() as c:
    md.create_all(c); c.execute(sa.insert(t), [{"id": 1, "a": 10, "b": 20}])
    st0 = sa.select(t.c.a, u.c.b).join_from(t, u, t.c.id == u.c.id).set_label_style(sa.LABEL_STYLE_NONE)
    st1 = sa.select(t.c.a, (u.c.b + 0).label("a")).join_from(t, u, t.c.id == u.c.id).set_label_style(sa.LABEL_STYLE_NONE)
    for name, inner in (("plain columns a/b", st0), ("column a + label 'a'", st1)):
        for wrap in ("subquery", "cte"):
            try:
                rows = c.execute(sa.select(getattr(inner, wrap)())).all()
                good = rows == [(10, 20)]
                print("(ii)", name, wrap, rows, "" if good else "<-- expected [(10, 20)]")
                ok = ok and good
            except sa.exc.InvalidRequestError as err:
                print("(ii)", name, wrap, "refused:", str(err)[:60])
    for wrap in ("subquery", "cte"):
        comp = sa.union_all(sa.select(t.c.a, t.c.a), sa.select(t.c.a, t.c.b))
        rows = sorted(c.execute(sa.select(getattr(comp, wrap)())).all())
        good = rows == [(10, 10), (10, 20)]
        print("(iii)", wrap, rows, "" if good else "<-- expected [(10, 10), (10, 20)]")
        ok = ok and good
print("PASS" if ok else "FAIL"); sys.exit(0 if ok else 1)
