"""Standalone repro (not a check): after a batched (executemany) ORM UPDATE flush, every
object of the batch is given the Python-side onupdate value generated for the FIRST row.

    /venv/bin/python selftest/C13/repro_orm_batched_update_onupdate.py

prints on the unchanged tree
    attrs after flush : [(1, 'tok1'), (2, 'tok1'), (3, 'tok1')]
    stored            : [(1, 'tok1'), (2, 'tok2'), (3, 'tok3')]

Cause: orm/persistence.py::_emit_update_statements, executemany branch, calls
_postfetch(..., c.context.compiled_parameters[0], ...) for every record instead of the
record's own compiled parameter set (the INSERT path zips records with
result.context.compiled_parameters).  Proposed fix:
selftest/C13/proposed_fix_orm_batched_update_postfetch.patch
"""
import sys

sys.path.insert(0, "/repo/lib")
import sqlalchemy as sa  # noqa: E402
from sqlalchemy import orm  # noqa: E402

n = [0]


def tok():
    n[0] += 1
    return f"tok{n[0]}"


md = sa.MetaData()
t = sa.Table("t", md, sa.Column("id", sa.Integer, primary_key=True), sa.Column("x", sa.String),
             sa.Column("u", sa.String, onupdate=tok))


class A:
    pass


orm.registry().map_imperatively(A, t)
e = sa.create_engine("sqlite://")
md.create_all(e)
with orm.Session(e) as s:
    a, b, c = A(), A(), A()
    a.x, b.x, c.x = "a", "b", "c"
    s.add_all([a, b, c])
    s.flush()
    a.x, b.x, c.x = "a2", "b2", "c2"
    s.flush()   # one executemany UPDATE for the three rows
    print("attrs after flush :", [(o.id, o.u) for o in (a, b, c)])
    print("stored            :", s.connection().exec_driver_sql("select id, u from t order by id").fetchall())
