"""_render_schema_translates writes an alias key "_none" into the *caller's* schema_translate_map.
A map derived from such a dict without the None key ("stop translating schema-less tables") still
carries the alias: instead of the documented InvalidRequestError ("... previously had `None` present
... use consistent keys") or un-translated SQL, schema-less tables silently keep going to the old target.
R=<tree> selects the tree (default /repo)."""
import os, sys
sys.path.insert(0, os.environ.get("R", "/repo") + "/lib")
import sqlalchemy as sa
from sqlalchemy.pool import StaticPool

e = sa.create_engine("sqlite://", poolclass=StaticPool)
sa.event.listen(e, "connect", lambda con, rec: con.execute("ATTACH DATABASE ':memory:' AS s1"))
md = sa.MetaData()
t = sa.Table("t", md, sa.Column("id", sa.Integer, primary_key=True), sa.Column("who", sa.String))
log = []
sa.event.listen(e, "before_cursor_execute", lambda c, cur, st, p, ctx, em: log.append(" ".join(st.split())))
with e.begin() as c:
    c.exec_driver_sql("CREATE TABLE main.t (id INTEGER PRIMARY KEY, who VARCHAR)")
    c.exec_driver_sql("CREATE TABLE s1.t (id INTEGER PRIMARY KEY, who VARCHAR)")
    c.exec_driver_sql("INSERT INTO main.t VALUES (1, 'main')")
    c.exec_driver_sql("INSERT INTO s1.t VALUES (1, 's1')")
    m = {None: "s1", "other": "s1"}
    print(c.execute(sa.select(t.c.who), execution_options={"schema_translate_map": m}).all(), "map after use:", m)
    m2 = {k: v for k, v in m.items() if k is not None}      # derived map: no None key any more
    try:
        rows = c.execute(sa.select(t.c.who), execution_options={"schema_translate_map": m2}).all()
        print("derived map", m2, "->", rows, "|", log[-1])
        ok = rows == [("main",)]
    except sa.exc.StatementError as err:
        print("derived map refused:", str(err.orig)[:80]); ok = True
print("PASS" if ok and "_none" not in m else "FAIL")
sys.exit(0 if ok and "_none" not in m else 1)
