"""The cached Compiled keeps a reference to the caller's schema_translate_map dict and later uses its
*truthiness* to decide whether the __[SCHEMA_x] tokens must be rendered.  If the application empties that
dict in place after the first execution, every later execution of the cached statement with any other
(non-empty) map sends the raw token to the database.   R=<tree> selects the tree (default /repo)."""
import os, sys
sys.path.insert(0, os.environ.get("R", "/repo") + "/lib")
import sqlalchemy as sa
from sqlalchemy.pool import StaticPool

e = sa.create_engine("sqlite://", poolclass=StaticPool)
sa.event.listen(e, "connect", lambda con, rec: con.execute("ATTACH DATABASE ':memory:' AS s1"))
md = sa.MetaData()
t = sa.Table("t", md, sa.Column("id", sa.Integer, primary_key=True), schema="tenant")
ok = True
with e.begin() as c:
    c.exec_driver_sql("CREATE TABLE s1.t (id INTEGER PRIMARY KEY)")
    m = {"tenant": "s1"}
    print(c.execute(sa.select(t), execution_options={"schema_translate_map": m}).all())
    m.clear()                                   # the application re-uses / resets its dict
    try:
        print(c.execute(sa.select(t), execution_options={"schema_translate_map": {"tenant": "s1"}}).all())
    except Exception as err:
        ok = False
        print("FAIL:", str(err).split("\n")[0][:100], "|", str(err).split("\n")[1][:80])
print("PASS" if ok else "FAIL")
sys.exit(0 if ok else 1)
