"""Probe for a thread race in the lambda SQL tracker: many threads build the same lambda statements (same code
objects) with different closure values at the same time, first use included; every statement must carry its
own closure values."""
import sys, threading, random
sys.path.insert(0, sys.argv[1] if len(sys.argv) > 1 else "/repo/lib")
import sqlalchemy as sa
from sqlalchemy import lambda_stmt, select
from sqlalchemy.sql import lambdas
sys.setswitchinterval(1e-6)
t = sa.table("t", sa.column("id", sa.Integer), sa.column("x", sa.Integer), sa.column("y", sa.Integer))
from sqlalchemy.dialects import sqlite
D = sqlite.dialect()
CACHE = {}

def run(stmt, cached):
    if cached:   # the path Connection.execute() takes, with a compiled cache shared by all threads
        compiled, extracted, pd, hit = stmt._compile_w_cache(D, compiled_cache=CACHE, column_keys=[], for_executemany=False, schema_translate_map=None)
        params = compiled.construct_params(extracted_parameters=extracted, escape_names=False, _collected_params=pd)
    else:
        compiled = stmt.compile(dialect=D, compile_kwargs={})
        params = compiled.construct_params(escape_names=False)
    st = compiled.construct_expanded_state(params) if compiled.post_compile_params else None
    if st is not None:
        return st.statement, tuple(st.parameters[k] for k in st.positiontup)
    return str(compiled), tuple(params[k] for k in compiled.positiontup)

def make(k, v, w, col):
    # k selects one of several code-object families so that "first analysis" happens concurrently many times
    if k == 0:
        s = lambda_stmt(lambda: select(t.c.id).where(t.c.x == v)); s += lambda s_: s_.where(col > w); d = select(t.c.id).where(t.c.x == v).where(col > w)
    elif k == 1:
        s = lambda_stmt(lambda: select(t.c.id, col)); s += lambda s_: s_.where(t.c.y != w).where(t.c.x < v); d = select(t.c.id, col).where(t.c.y != w).where(t.c.x < v)
    else:
        lst = [v, w, v + w][: 1 + (v % 3)]
        s = lambda_stmt(lambda: select(t.c.id).where(t.c.id.in_(lst))); s += lambda s_: s_.order_by(col); d = select(t.c.id).where(t.c.id.in_(lst)).order_by(col)
    return s, d

problems = []
def worker(seed, rounds):
    rng = random.Random(seed)
    if True:
        for i in range(rounds):
            k, v, w, col = rng.randrange(3), rng.randrange(7), rng.randrange(5), rng.choice([t.c.x, t.c.y, t.c.id])
            try:
                s, d = make(k, v, w, col)
                a = run(s, True); b = run(d, False)
                if a != b:
                    problems.append(("rows", k, v, w, col.name, a[:5], b[:5]))
            except Exception as ex:
                problems.append(("exc", k, v, w, col.name, type(ex).__name__, str(ex)[:200]))
for rnd in range(int(sys.argv[2]) if len(sys.argv) > 2 else 30):
    # drop all lambda analysis state so that the first analysis races again
    lambdas.AnalyzedCode._fns.clear(); lambdas._closure_per_cache_key.clear(); CACHE.clear()
    ths = [threading.Thread(target=worker, args=(rnd * 100 + i, 40)) for i in range(12)]
    [x.start() for x in ths]; [x.join() for x in ths]
print("problems:", len(problems))
for p in problems[:8]: print(p)
