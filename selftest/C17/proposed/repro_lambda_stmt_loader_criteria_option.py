import sys; sys.path.insert(0, sys.argv[1] if len(sys.argv) > 1 else "/repo/lib")
from sqlalchemy import Column, ForeignKey, Integer, create_engine, event, lambda_stmt, select
from sqlalchemy.orm import Session, declarative_base, relationship, selectinload, lazyload
Base = declarative_base()
class A(Base):
    __tablename__='a'; id=Column(Integer, primary_key=True); bs=relationship('B', order_by='B.id')
class B(Base):
    __tablename__='b'; id=Column(Integer, primary_key=True); a_id=Column(ForeignKey('a.id')); q=Column(Integer)
def go(val, w, loader):
    opt = loader(A.bs.and_(B.q >= val))
    st = lambda_stmt(lambda: select(A).options(opt))
    st += lambda s: s.where(A.id < w).order_by(A.id)
    return st
def direct(val, w, loader):
    return select(A).options(loader(A.bs.and_(B.q >= val))).where(A.id < w).order_by(A.id)
for kw in ({}, {'query_cache_size': 0}):
    e = create_engine('sqlite://', **kw); Base.metadata.create_all(e)
    with Session(e) as s:
        s.add_all([A(id=i, bs=[B(id=i*10+j, q=j*10) for j in range(5)]) for i in range(1, 10)]); s.commit()
    sent=[]
    event.listen(e, 'before_cursor_execute', lambda c,cur,st,p,ctx,m: sent.append(p))
    for loader in (selectinload, lazyload):
      for val, w in ((30, 5), (10, 3), (40, 8)):
        out = {}
        for name, mk in (('lambda', go), ('direct', direct)):
            del sent[:]
            with Session(e) as s:
                out[name] = ([(a.id, [b.q for b in a.bs]) for a in s.scalars(mk(val, w, loader))][:2], [p for p in sent][:2])
        print(kw, loader.__name__, 'val', val, 'w', w, 'OK' if out['lambda']==out['direct'] else 'DIFF\n   lambda %s\n   direct %s' % (out['lambda'], out['direct']))
