"""Side observation (single-threaded, not a race): a list *literal* built inside a lambda from scalar closure
variables hands PyWrapper objects to the DBAPI instead of the values.

    PYTHONPATH=/repo/lib python repro_list_literal_in_lambda.py
"""
import sys
sys.path.insert(0, sys.argv[1] if len(sys.argv) > 1 else "/repo/lib")
import sqlalchemy as sa
from sqlalchemy import lambda_stmt, select

t = sa.table("t", sa.column("id", sa.Integer))
e = sa.create_engine("sqlite://")
with e.connect() as c:
    c.exec_driver_sql("create table t (id integer primary key)")
    c.exec_driver_sql("insert into t values (1), (2), (3)")
    for v, w in ((1, 2), (2, 3)):
        stmt = lambda_stmt(lambda: select(t.c.id).where(t.c.id.in_([v, w])))
        direct = select(t.c.id).where(t.c.id.in_([v, w]))
        print("direct:", c.execute(direct).fetchall())
        try:
            print("lambda:", c.execute(stmt).fetchall())
        except Exception as err:
            print("lambda: raised", type(err).__name__, str(err).split("\n")[0][:160])
