import os, sys
sys.path.insert(0, os.environ.get("R", "/repo") + "/lib")
import sqlalchemy as sa
md = sa.MetaData()
t = sa.Table("t", md, sa.Column("id", sa.Integer, primary_key=True), sa.Column("x", sa.Integer))
e = sa.create_engine("sqlite://")
ok = True
with e.begin() as conn:
    md.create_all(conn); conn.execute(sa.insert(t), [{"id": 1, "x": 5}])
    for name, c in (("cast", sa.cast(t.c.x, sa.Integer)), ("type_coerce", sa.type_coerce(t.c.x, sa.BigInteger))):
        for ls in (sa.LABEL_STYLE_DISAMBIGUATE_ONLY, sa.LABEL_STYLE_TABLENAME_PLUS_COL):
            st = sa.select(c, c, c, c).set_label_style(ls)
            res = conn.execute(st); keys = list(res.keys())
            good = len(set(keys)) == len(keys)
            ok = ok and good
            print(name, ls.name, keys, "" if good else "<-- duplicate result names", "|", str(st.compile(e)).replace("\n", " ")[:160])
            if not good:
                try:
                    print("    as subquery:", conn.execute(sa.select(st.subquery())).all())
                except Exception as err:
                    print("    as subquery:", type(err).__name__, str(err).split("\n")[0][:100])
print("PASS" if ok else "FAIL"); sys.exit(0 if ok else 1)
