import sys; sys.path.insert(0, sys.argv[1] if len(sys.argv) > 1 else "/repo/lib")
import sqlalchemy as sa
from sqlalchemy.dialects import sqlite, postgresql
from sqlalchemy.schema import CreateIndex, DropIndex, CreateTable
for conv in (None, {"uq": "uq_%(table_name)s_%(column_0_name)s"}, {"ix": "ix_%(column_0_label)s"}):
    md = sa.MetaData(naming_convention=conv) if conv else sa.MetaData()
    t = sa.Table("t", md, sa.Column("id", sa.Integer, primary_key=True), sa.Column("y", sa.String(10)), sa.Index(None, "y"))
    ix = list(t.indexes)[0]
    for label, c in (("CreateIndex", CreateIndex(ix)), ("DropIndex", DropIndex(ix))):
        try: out = str(c.compile(dialect=sqlite.dialect())).strip()
        except sa.exc.SQLAlchemyError as e: out = "documented " + type(e).__name__ + ": " + str(e)[:70]
        except Exception as e: out = "INTERNAL " + type(e).__name__
        print(conv, repr(ix.name), label, "->", out)
