import sys; sys.path.insert(0, sys.argv[1] if len(sys.argv) > 1 else "/repo/lib")
import sqlalchemy as sa, traceback
from sqlalchemy import select, bindparam
from sqlalchemy.dialects import postgresql, sqlite
t=sa.table('t', sa.column('id', sa.Integer)); u=sa.table('u', sa.column('id', sa.Integer))
# the same name used twice: once as a literal_execute parameter, once as an ordinary one
s = select(t.c.id).where(t.c.id > bindparam('pv', type_=sa.Integer, literal_execute=True)).where(
        select(u.c.id).where(u.c.id < bindparam('pv', 7, type_=sa.Integer)).exists()).params(pv=5)
for d in (sqlite.dialect(), postgresql.dialect(), postgresql.dialect(paramstyle='numeric_dollar')):
    for kw in ({}, {'render_postcompile': True}):
        try: print(d.name, d.paramstyle, kw, '->', str(s.compile(dialect=d, compile_kwargs=kw)).replace('\n',' '))
        except Exception as e: print(d.name, d.paramstyle, kw, 'RAISED', type(e).__name__, e)
e = sa.create_engine('sqlite://')
with e.connect() as c:
    c.exec_driver_sql('create table t (id integer)'); c.exec_driver_sql('create table u (id integer)')
    try: print(c.execute(s).fetchall())
    except Exception as ex: print('execute RAISED', type(ex).__name__, str(ex)[:200])
