import sys; sys.path.insert(0, sys.argv[1] if len(sys.argv) > 1 else "/repo/lib")
import sqlalchemy as sa
from sqlalchemy.dialects import mysql, postgresql, sqlite, oracle, mssql
from sqlalchemy.schema import AddConstraint, CreateIndex, DropConstraint, DropIndex
md = sa.MetaData()
p = sa.Table("p", md, sa.Column("id", sa.Integer, primary_key=True))
t = sa.Table("t", md, sa.Column("id", sa.Integer, primary_key=True), sa.Column("p_id", sa.ForeignKey("p.id")), sa.Column("x", sa.Integer),
             sa.UniqueConstraint("x"), sa.CheckConstraint("x > 5"))
ix = sa.Index(None, t.c.x)
cases = [("DropConstraint(unnamed %s)" % type(c).__name__, DropConstraint(c)) for c in t.constraints] + [("CreateIndex(unnamed)", CreateIndex(ix)), ("DropIndex(unnamed)", DropIndex(ix))]
cases += [("cast mysql.BIT", sa.select(sa.cast(t.c.x, mysql.BIT(3)))), ("cast mssql.BIT", sa.select(sa.cast(t.c.x, mssql.BIT()))), ("cast oracle.INTERVAL", sa.select(sa.cast(t.c.x, oracle.INTERVAL())))]
mar = mysql.dialect(); mar.is_mariadb = True
for dn, d in (("mysql", mysql.dialect()), ("postgresql", postgresql.dialect()), ("sqlite", sqlite.dialect())):
    for label, c in cases:
        try: out = str(c.compile(dialect=d)).strip().replace("\n", " ")[:70]
        except sa.exc.SQLAlchemyError as e: out = "documented " + type(e).__name__
        except Exception as e: out = "INTERNAL " + type(e).__name__ + ": " + str(e)[:60]
        print(dn, "|", label, "->", out)
