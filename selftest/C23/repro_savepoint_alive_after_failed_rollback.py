# Standalone repro (real sqlite3) of C23 mechanism savepoint-alive-after-failed-outer-rollback:
# the outer rollback() fails (DBAPI rollback raises a non-disconnect error) while a savepoint is
# open -> the RootTransaction is gone but the NestedTransaction is still "active" and current.
import sqlite3, sys
sys.path.insert(0, "/repo/lib")
from sqlalchemy import create_engine, pool


class W:
    def __init__(self):
        self.raw = sqlite3.connect(":memory:", check_same_thread=False, autocommit=False)
        self.fail = False

    def __getattr__(self, k):
        return getattr(self.raw, k)

    def rollback(self):
        if self.fail:
            self.fail = False
            raise sqlite3.OperationalError("boom")
        self.raw.rollback()


made = []


def creator():
    made.append(W())
    return made[-1]


e = create_engine("sqlite://", creator=creator, poolclass=pool.QueuePool)
c = e.connect()
c.exec_driver_sql("create table t (id integer primary key)")
c.commit()
c.exec_driver_sql("insert into t values (1)")
sp = c.begin_nested()
made[0].fail = True
try:
    c.rollback()
except Exception as x:
    print("rollback raised", type(x).__name__)
print("get_transaction():", c.get_transaction(), " in_nested_transaction():", c.in_nested_transaction(),
      " sp.is_active:", sp.is_active, " get_nested_transaction() is sp:", c.get_nested_transaction() is sp)
bad = c.in_nested_transaction() or sp.is_active
print("FAIL: a savepoint outlives its enclosing transaction" if bad else "PASS")
sys.exit(1 if bad else 0)
