# Standalone repros (real sqlite3, no harness) of the five candidate defects the C26 check reports.
# Run: /venv/bin/python selftest/C26/repro_candidates.py
import sys, gc, logging, sqlite3; sys.path.insert(0, "/repo/lib")
from sqlalchemy import create_engine, event, pool
logging.disable(logging.CRITICAL)

class W:  # thin sqlite3 connection wrapper: counts close(), optional one-shot failures
    def __init__(self): self.raw = sqlite3.connect(":memory:", check_same_thread=False); self.closed = 0; self.fail = {}
    def __getattr__(self, k): return getattr(self.raw, k)
    def _maybe(self, k):
        e = self.fail.pop(k, None)
        if e: raise e
    def rollback(self): self._maybe("rollback"); self.raw.rollback()
    def close(self): self.closed += 1; self._maybe("close"); self.raw.close()
made = []
def creator():
    w = W(); made.append(w); return w
def eng(**kw): 
    made.clear()
    return create_engine("sqlite://", creator=creator, poolclass=pool.QueuePool, pool_size=1, max_overflow=0, pool_timeout=0, **kw)
class Intr(BaseException): pass

print("D1 invalidate() on a detached connection never closes the DBAPI connection")
e = eng(); c = e.connect(); c.detach(); c.invalidate(); c.close(); e.dispose()
print("   close() calls on the DBAPI connection:", made[0].closed)

print("D2 failing rollback while closing a detached connection -> never closed")
e = eng(); c = e.connect(); c.detach(); made[0].fail["rollback"] = sqlite3.OperationalError("boom")
c.close(); e.dispose()
print("   close() calls:", made[0].closed)

print("D3 'connect' event listener raises -> DBAPI connection never closed")
e = eng()
@event.listens_for(e, "connect")
def boom(dbapi_conn, rec): raise RuntimeError("listener bug")
try: e.connect()
except RuntimeError as x: print("   connect raised", x)
e.dispose(); print("   connections made:", len(made), "close() calls:", made[0].closed)

print("D4 BaseException from rollback() in the gc finalizer of a dropped checkout -> slot lost for ever")
e = eng(); c = e.raw_connection(); made[0].fail["rollback"] = Intr(); 
import io, contextlib
with contextlib.redirect_stderr(io.StringIO()):
    del c; gc.collect()
print("  ", e.pool.status())
try: e.raw_connection()
except Exception as x: print("   next checkout:", type(x).__name__)

print("D5 BaseException from close() during invalidate() -> same DBAPI connection handed out again")
e = eng(); c = e.raw_connection(); first = c.dbapi_connection; first.fail["close"] = Intr()
try: c.invalidate()
except Intr: print("   invalidate raised Intr")
c.close(); c2 = e.raw_connection(); print("   handed out again:", c2.dbapi_connection is first, "close() calls on it:", first.closed)

print("D6 Connection.close() on a detached Connection whose transaction rollback fails -> DBAPI connection never closed")
e = eng(); c = e.connect(); c.detach(); c.exec_driver_sql("select 1")   # autobegin
made[0].fail["rollback"] = sqlite3.OperationalError("boom")
try: c.close()
except Exception as x: print("   close() raised", type(x).__name__)
del c; gc.collect(); e.dispose()
print("   close() calls on the DBAPI connection:", made[0].closed)
