# Standalone repro of C26 mechanism closed-connection-handed-out:checkout-listener-then-close:baseexception (real sqlite3)
import sys, gc, logging
sys.path.insert(0, "/repo/lib")
import sqlite3
from sqlalchemy import create_engine, event, pool
logging.disable(logging.CRITICAL)
class Exit(SystemExit): pass
class W:
    def __init__(self): self.raw = sqlite3.connect(":memory:", check_same_thread=False); self.closed = 0; self.fail = {}
    def __getattr__(self, k): return getattr(self.raw, k)
    def close(self):
        self.closed += 1
        e = self.fail.pop("close", None)
        if e: raise e
        self.raw.close()
made = []
def creator():
    w = W(); made.append(w); return w
e = create_engine("sqlite://", creator=creator, poolclass=pool.SingletonThreadPool)
c = e.connect(); c.close()           # connection #1 now pooled
state = {"boom": True}
@event.listens_for(e, "checkout")
def co(dbapi, rec, proxy):
    if state.pop("boom", None): raise RuntimeError("listener bug")
made[0].fail["close"] = Exit(3)
try:
    e.raw_connection()
except BaseException as x:
    print("checkout raised", type(x).__name__)
pass
f = e.pool._fairy.current() if hasattr(e.pool._fairy, "current") else None
print("thread-local fairy still registered:", f is not None)
c2 = e.connect()
print("handed out #1 again:", c2.connection.dbapi_connection is made[0], "close() calls on it:", made[0].closed, "connections made:", len(made))
