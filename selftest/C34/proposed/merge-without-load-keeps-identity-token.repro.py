import sys; sys.path.insert(0,'/repo/lib')
import sqlalchemy as sa
from sqlalchemy import orm, inspect
reg = orm.registry()
@reg.mapped
class P:
    __tablename__='p'
    id = sa.Column(sa.Integer, primary_key=True); name = sa.Column(sa.String)
e = sa.create_engine('sqlite://'); reg.metadata.create_all(e)
with e.begin() as c: c.exec_driver_sql("insert into p values (3,'p3')")
s1 = orm.Session(e); p = s1.get(P, 3, identity_token='tok'); s1.close()
print('source key', inspect(p).key[1:], 'identity_token', inspect(p).identity_token)
s2 = orm.Session(e)
m = s2.merge(p, load=False)
print('merged key', inspect(m).key[1:], 'identity_token attr', inspect(m).identity_token)
other = s2.get(P, 3)       # the row under the default token
m.name = 'changed'; s2.flush()
print('after flush: merged key', inspect(m).key[1:], '| other key', inspect(other).key[1:], 'other still identity_map entry:', s2.identity_map.get(inspect(other).key) is other)
print('keys in map', [k[1:] for k in s2.identity_map.keys()])
