import sys; sys.path.insert(0,'/repo/lib')
import warnings; warnings.simplefilter("ignore")
import sqlalchemy as sa
from sqlalchemy import orm, inspect, event, select
reg = orm.registry()
@reg.mapped
class N:
    __tablename__='n'
    code = sa.Column(sa.String, primary_key=True); v = sa.Column(sa.String)
@reg.mapped
class P:
    __tablename__='p'
    id = sa.Column(sa.Integer, primary_key=True); name = sa.Column(sa.String)
    children = orm.relationship("C", back_populates="parent", cascade="all, delete-orphan")
@reg.mapped
class C:
    __tablename__='c'
    id = sa.Column(sa.Integer, primary_key=True); p_id = sa.Column(sa.ForeignKey('p.id'))
    parent = orm.relationship(P, back_populates="children")
def fresh():
    e = sa.create_engine('sqlite://'); reg.metadata.create_all(e)
    with e.begin() as c:
        c.exec_driver_sql("insert into n values ('a','na')"); c.exec_driver_sql("insert into p values (1,'p1')"); c.exec_driver_sql("insert into c values (1,1)")
    return e
def fl(o):
    i=inspect(o); return [n for n in "transient pending persistent deleted detached".split() if getattr(i,n)]
EVS="transient_to_pending pending_to_transient persistent_to_transient pending_to_persistent detached_to_persistent loaded_as_persistent persistent_to_deleted deleted_to_persistent deleted_to_detached persistent_to_detached".split()
def listen(s, log):
    for n in EVS: event.listen(s, n, (lambda n: lambda sess,o: log.append((n, type(o).__name__, tuple(fl(o)))))(n))

print("R1 C34 detached object back in identity map: pk switch + expunge + rollback")
s = orm.Session(fresh()); n = s.get(N,'a'); n.code='z'; s.flush(); s.expunge(n); s.rollback()
print("   ", fl(n), "identity_map keys:", [k[1] for k in s.identity_map.keys()], "| same object returned by query:", s.scalars(select(N)).all()[0] is n)
try: s.get(N,'a')
except Exception as ex: print("    get() ->", type(ex).__name__)

print("R2 C35 _deleted flag survives rollback of INSERT+DELETE; re-added object reports 'deleted' while persistent")
s = orm.Session(fresh()); log=[]; listen(s, log)
a = P(id=7); s.add(a); s.flush(); s.delete(a); s.flush(); s.rollback(); print("    after rollback", fl(a), log[-1])
s.add(a); s.flush(); print("    after add+flush", fl(a), "in identity_map:", inspect(a).key in s.identity_map)

print("R3 C35 deleted_to_persistent fired for an object only marked with delete() (never flushed)")
s = orm.Session(fresh()); log=[]; listen(s, log); p = s.get(P,1); log.clear(); s.delete(p); s.rollback(); print("   ", log)

print("R4 C35 expire_on_commit=False: deleted object stays 'deleted' after commit")
s = orm.Session(fresh(), expire_on_commit=False); log=[]; listen(s, log); c = s.get(C,1); s.delete(c); s.flush(); s.commit(); print("   ", fl(c), [x[0] for x in log])

print("R5 C35 expunge() cascades onto an object of ANOTHER session")
e = fresh(); s1 = orm.Session(e); s2 = orm.Session(e); log=[]; listen(s2, log)
p = P(id=5); c = C(id=5); s1.add(c); p.children.append(c)
try: s2.add(p)
except sa.exc.InvalidRequestError as ex: print("    s2.add(p) refused:", str(ex)[:60])
s2.expunge(p); print("    c:", fl(c), "session is s1:", inspect(c).session is s1, "still in s1.new:", c in s1.new, log[-1])

print("R6 C35 events for objects that already left the session")
s = orm.Session(fresh()); log=[]; listen(s, log); a = P(id=8); s.add(a); s.flush(); s.expunge(a); print("    after expunge", fl(a)); s.rollback(); print("    after rollback", fl(a), log[-1])
s = orm.Session(fresh()); log=[]; listen(s, log); a = P(id=1)   # duplicate pk
s.add(a)
try: s.flush()
except sa.exc.IntegrityError: pass
s.rollback(); print("    failed flush + rollback:", [x[0] for x in log])

print("R7 C35 delete() accepts an instance that was already deleted")
s = orm.Session(fresh()); log=[]; listen(s, log); c = s.get(C,1); s.delete(c); s.commit(); print("    after commit", fl(c)); s.delete(c); print("    after 2nd delete()", fl(c), "in identity_map:", inspect(c).key in s.identity_map, log[-1])

print("R8 C36 del of a column attribute then flush")
s = orm.Session(fresh()); p = s.get(P,1); del p.name
try: s.flush(); print("    ok")
except Exception as ex: print("    flush ->", type(ex).__name__, ex)
print("R6c pending_to_transient twice")
s = orm.Session(fresh()); log=[]; listen(s, log); s.begin_nested(); a = P(id=1); s.add(a)
try: s.commit()
except Exception as ex: print('   ', type(ex).__name__)
s.rollback(); print("   ", [x[0] for x in log])
s = orm.Session(fresh()); log=[]; listen(s, log); s.begin_nested(); a = P(id=1); s.add(a)
try: s.flush()
except Exception as ex: print('   ', type(ex).__name__)
s.rollback(); print("   ", [x[0] for x in log])
