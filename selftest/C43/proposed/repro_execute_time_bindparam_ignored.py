import sys; sys.path.insert(0, sys.argv[1] if len(sys.argv)>1 else '/repo/lib')
import sqlalchemy as sa
from sqlalchemy import orm
from sqlalchemy.orm import Session
Base = orm.declarative_base()
class A(Base):
    __tablename__='a'
    id=sa.Column(sa.Integer, primary_key=True); x=sa.Column(sa.Integer); y=sa.Column(sa.Integer)
e=sa.create_engine('sqlite://'); Base.metadata.create_all(e)
ok=True
for sync in ("evaluate","auto","fetch"):
    with Session(e) as s:
        s.execute(sa.delete(A)); s.add_all([A(id=1,x=1,y=0),A(id=2,x=2,y=0)]); s.commit()
        objs=s.scalars(sa.select(A).order_by(A.id)).all()
        s.execute(sa.update(A).where(A.x == sa.bindparam("px")).values(y=sa.bindparam("ny")), {"px":1,"ny":99}, execution_options={"synchronize_session":sync})
        mem=[o.__dict__.get('y','<expired>') for o in objs]; db=s.connection().exec_driver_sql("select y from a order by id").scalars().all()
        print(sync, "memory", mem, "db", db); ok = ok and all(m=='<expired>' or m==d for m,d in zip(mem,db))
        s.rollback()
        objs=s.scalars(sa.select(A).order_by(A.id)).all()
        s.execute(sa.delete(A).where(A.x == sa.bindparam("px")), {"px":2}, execution_options={"synchronize_session":sync})
        print(sync, "delete: persistent", [sa.inspect(o).persistent for o in objs], "db ids", s.connection().exec_driver_sql("select id from a order by id").scalars().all())
        ok = ok and [sa.inspect(o).persistent for o in objs]==[True, False]
        s.rollback()
print("PASS" if ok else "FAIL"); sys.exit(0 if ok else 1)
