"""del obj.attr of an attribute stored in a table that does NOT hold version_id_col:
the child/other table is UPDATEd (attr = NULL) but the version counter is not advanced and
no versioned UPDATE is emitted, so a stale session's flush succeeds (lost update).
usage: python repro_version_not_bumped_on_del.py [path-to-lib]   (default /repo/lib)"""
import os, sys, tempfile
sys.path.insert(0, sys.argv[1] if len(sys.argv) > 1 else "/repo/lib")
import sqlalchemy as sa
from sqlalchemy import orm
from sqlalchemy.orm import Session

Base = orm.declarative_base()

class Base_(Base):
    __tablename__ = "base"
    id = sa.Column(sa.Integer, primary_key=True)
    ver = sa.Column(sa.Integer, nullable=False)
    name = sa.Column(sa.String)
    kind = sa.Column(sa.String)
    __mapper_args__ = {"version_id_col": ver, "polymorphic_on": kind, "polymorphic_identity": "b"}

class Child(Base_):
    __tablename__ = "child"
    id = sa.Column(sa.ForeignKey("base.id"), primary_key=True)
    note = sa.Column(sa.String)
    __mapper_args__ = {"polymorphic_identity": "c"}

path = os.path.join(tempfile.mkdtemp(), "v.db")
e = sa.create_engine("sqlite:///" + path)
Base.metadata.create_all(e)
with Session(e) as s:
    s.add(Child(id=1, name="n", note="x")); s.commit()

A, B = Session(e), Session(e)
a, b = A.get(Child, 1), B.get(Child, 1)          # both load version 1
a.name = "changed by A"; A.commit()              # version 1 -> 2
del b.note                                       # child-table-only change, based on version 1
try:
    B.commit()
    print("stale flush SUCCEEDED (expected StaleDataError)")
    ok = False
except orm.exc.StaleDataError:
    B.rollback(); print("StaleDataError raised (correct)")
    ok = True
with Session(e) as s:
    c = s.get(Child, 1); v0 = c.ver
    c.note = "y"; s.commit(); v1 = c.ver
    del c.note; s.commit(); v2 = c.ver
    print("versions: set note %d -> %d ; del note %d -> %d" % (v0, v1, v1, v2))
    ok = ok and v2 == v1 + 1
print("PASS" if ok else "FAIL"); sys.exit(0 if ok else 1)
