import sys
sys.path.insert(0, __import__("os").environ.get("R", "/repo") + "/lib")  # R=<tree> selects the tree
import sqlalchemy as sa
from sqlalchemy import orm, exc

class Base(orm.DeclarativeBase): pass
class P(Base):
    __tablename__ = "p"
    id = sa.Column(sa.Integer, primary_key=True)
    name = sa.Column(sa.String)

e = sa.create_engine("sqlite://")
Base.metadata.create_all(e)
with e.begin() as c:
    c.execute(sa.insert(P), [{"id": 1, "name": "p1"}, {"id": 2, "name": "p2"}])

s = orm.Session(e, autobegin=False)          # expire_on_commit=True (default)
s.begin()
x = s.get(P, 1); y = s.get(P, 2)
s.commit()                                   # x.name is expired now
try:
    x.name = "changed outside a transaction"
except exc.InvalidRequestError as err:
    print("set raised:", str(err)[:60])
print("state:", sa.inspect(x).modified, dict(sa.inspect(x).committed_state), "name" in x.__dict__)
s.begin()
y.name = "y2"
s.flush()
s.commit()
with e.connect() as c:
    print(c.execute(sa.text("select id, name from p order by id")).all(), " expected [(1, 'p1'), (2, 'y2')]")
