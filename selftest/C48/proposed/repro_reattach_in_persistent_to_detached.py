"""s1.expunge(u) with a persistent_to_detached listener that adds the (dirty) object to another session:
Session._detach_states / _expunge_states clear state._strong_obj AFTER the listener ran, so the object - now
dirty in s2 - is only weakly referenced; once unreferenced + collected, s2.flush() raises
AssertionError("Failed to add object to the flush context!") and the change is lost.  R=<tree> selects the tree."""
import gc, os, sys
sys.path.insert(0, os.environ.get("R", "/repo") + "/lib")
import sqlalchemy as sa
from sqlalchemy import orm

class Base(orm.DeclarativeBase): pass
class U(Base):
    __tablename__ = "u"
    id = sa.Column(sa.Integer, primary_key=True)
    name = sa.Column(sa.String)

e = sa.create_engine("sqlite://", poolclass=sa.pool.StaticPool)
Base.metadata.create_all(e)
with e.begin() as c:
    c.execute(sa.insert(U), [{"id": 1, "name": "old"}])
s1, s2 = orm.Session(e), orm.Session(e)

@sa.event.listens_for(s1, "persistent_to_detached")
def move(session, instance):
    s2.add(instance)

how = sys.argv[1] if len(sys.argv) > 1 else "expunge"
u = s1.get(U, 1)
u.name = "changed"
if how == "expunge":
    s1.expunge(u)
else:
    s1.close()
print("in s2:", u in s2, "dirty:", u in s2.dirty, "_strong_obj set:", sa.inspect(u)._strong_obj is not None)
del u
gc.collect()
ok = True
try:
    s2.flush(); s2.commit()
except AssertionError as err:
    ok = False; print("flush raised AssertionError:", err)
with e.connect() as c:
    rows = c.execute(sa.text("select id, name from u")).all()
print(rows, "expected [(1, 'changed')]")
ok = ok and rows == [(1, "changed")]
print("PASS" if ok else "FAIL"); sys.exit(0 if ok else 1)
