"""ext.serializer turns a column of a non-aliased with_polymorphic() entity into the bare
table column: the statement loses the polymorphic LEFT OUTER JOIN and returns a cartesian
product.   usage: python repro_... [path-to-lib]"""
import sys
sys.path.insert(0, sys.argv[1] if len(sys.argv) > 1 else "/repo/lib")
import sqlalchemy as sa
from sqlalchemy import orm
from sqlalchemy.ext import serializer

Base = orm.declarative_base()

class Emp(Base):
    __tablename__ = "emp"
    id = sa.Column(sa.Integer, primary_key=True); kind = sa.Column(sa.String); name = sa.Column(sa.String)
    __mapper_args__ = {"polymorphic_on": kind, "polymorphic_identity": "emp"}

class Eng(Emp):
    __tablename__ = "eng"
    id = sa.Column(sa.ForeignKey("emp.id"), primary_key=True); lang = sa.Column(sa.String)
    __mapper_args__ = {"polymorphic_identity": "eng"}

e = sa.create_engine("sqlite://"); Base.metadata.create_all(e)
with orm.Session(e) as s:
    s.add_all([Emp(id=1, name="e1"), Eng(id=2, name="e2", lang="py"), Eng(id=3, name="e3", lang="c")]); s.commit()
    wp = orm.with_polymorphic(Emp, [Eng])
    stmt = sa.select(wp.id, wp.Eng.lang).order_by(wp.id)
    stmt2 = serializer.loads(serializer.dumps(stmt), Base.metadata, lambda: s)
    r1, r2 = s.execute(stmt).all(), s.execute(stmt2).all()
    print(str(stmt2)); print(r1); print(r2)
    print("PASS" if r1 == r2 else "FAIL"); sys.exit(0 if r1 == r2 else 1)
