import sys, os, tempfile
sys.path.insert(0, sys.argv[1] if len(sys.argv)>1 else '/repo/lib')
import sqlalchemy as sa
from sqlalchemy import orm
from sqlalchemy.ext.horizontal_shard import ShardedSession, set_shard_id
Base = orm.declarative_base()
class P(Base):
    __tablename__='p'; id=sa.Column(sa.Integer, primary_key=True); name=sa.Column(sa.String)
    kids=orm.relationship("K", order_by="K.id")
class K(Base):
    __tablename__='k'; id=sa.Column(sa.Integer, primary_key=True); p_id=sa.Column(sa.ForeignKey('p.id')); tag=sa.Column(sa.String)
class D(Base):
    __tablename__='d'; id=sa.Column(sa.Integer, primary_key=True); kind=sa.Column(sa.String); label=sa.Column(sa.String)
    __mapper_args__={"polymorphic_on":kind,"polymorphic_identity":"d"}
class E(D):
    __tablename__='e'; id=sa.Column(sa.ForeignKey('d.id'), primary_key=True); depth=sa.Column(sa.Integer)
    __mapper_args__={"polymorphic_identity":"e"}
class F(D):
    __tablename__='f'; id=sa.Column(sa.ForeignKey('d.id'), primary_key=True); width=sa.Column(sa.Integer)
    __mapper_args__={"polymorphic_identity":"f","polymorphic_load":"selectin"}
td=tempfile.mkdtemp(); engines={n: sa.create_engine("sqlite:///%s/%s.db"%(td,n)) for n in ("a","b")}
for n,e in engines.items():
    Base.metadata.create_all(e)
    with e.begin() as c:
        c.exec_driver_sql("insert into p values (1,'p1-%s')"%n)
        c.exec_driver_sql("insert into k values (1,1,'k1-%s'),(%d,1,'k2-%s')"%(n, 2 if n=='a' else 3, n))
        c.exec_driver_sql("insert into d values (1,'e','d1-%s'),(2,'f','d2-%s')"%(n,n))
        c.exec_driver_sql("insert into e values (1,%d)"%(10 if n=='a' else 20))
        c.exec_driver_sql("insert into f values (2,%d)"%(100 if n=='a' else 200))
def mk():
    return ShardedSession(shard_chooser=lambda m,i,clause=None: "a",
        identity_chooser=lambda m,pk,*,lazy_loaded_from,**kw: [lazy_loaded_from.identity_token] if lazy_loaded_from else ["a","b"],
        execute_chooser=lambda ctx: [ctx.lazy_loaded_from.identity_token] if ctx.is_select and ctx.lazy_loaded_from else ["a","b"],
        shards=engines)
for how in ("lazy","selectin","subquery","joined"):
    s=mk()
    opt={"lazy":orm.lazyload,"selectin":orm.selectinload,"subquery":orm.subqueryload,"joined":orm.joinedload}[how](P.kids)
    ps=s.execute(sa.select(P).options(opt)).unique().scalars().all()
    print(how, [(sa.inspect(p).identity_token, [(sa.inspect(k).identity_token,k.tag) for k in p.kids]) for p in ps]); s.close()
s=mk()
ds=s.execute(sa.select(D).order_by(D.id)).scalars().all()
print("poly:", [(sa.inspect(d).identity_token, type(d).__name__, d.label, d.__dict__.get('depth','<unl>'), d.__dict__.get('width','<unl>')) for d in ds])
print("optimized get depth:", [(sa.inspect(d).identity_token, d.depth) for d in ds if isinstance(d,E)])
