"""(a) on_conflict_do_update / do_nothing(index_where=<expression with a Python literal>) + executemany.

    /venv/bin/python selftest/C56/proposed/repro_a_index_where_literal_executemany.py

unchanged tree: the single execute works, the executemany raises
    StatementError: (InvalidRequestError) 'literal_execute' or 'expanding' parameters can't be used with executemany()
for sqlite and (compile path identical) postgresql.  The literal inside index_where is rendered as
a literal_execute parameter on purpose (the server cannot match a partial index through a bound
value), but DefaultExecutionContext._init_compiled refuses every executemany that has one, although
the value comes from the statement and is the same for all parameter sets.
Work-around for applications: index_where=text("flag = 1") or t.c.flag == literal_column("1").
C56 mechanism: index-where-literal-execute-executemany-raises
"""
import sys

sys.path.insert(0, "/repo/lib")
import sqlalchemy as sa  # noqa: E402
from sqlalchemy.dialects import sqlite  # noqa: E402

md = sa.MetaData()
t = sa.Table("u", md, sa.Column("id", sa.Integer, primary_key=True), sa.Column("e", sa.String), sa.Column("flag", sa.Integer),
             sa.Column("v", sa.String), sa.Index("ix_e", "e", unique=True, sqlite_where=sa.text("flag = 1")))
e = sa.create_engine("sqlite://")
md.create_all(e)
for action in ("do_update", "do_nothing"):
    st = sqlite.insert(t)
    if action == "do_update":
        st = st.on_conflict_do_update(index_elements=[t.c.e], index_where=t.c.flag == 1, set_={"v": st.excluded.v})
    else:
        st = st.on_conflict_do_nothing(index_elements=[t.c.e], index_where=t.c.flag == 1)
    with e.begin() as c:
        c.execute(st, {"e": "a", "flag": 1, "v": "one"})
        print(action, "single execute: ok")
        try:
            c.execute(st, [{"e": "a", "flag": 1, "v": "two"}, {"e": "b", "flag": 1, "v": "three"}])
            print(action, "executemany: ok", c.execute(sa.select(t.c.e, t.c.v)).all())
        except Exception as ex:
            print(action, "executemany:", type(ex).__name__, str(ex).splitlines()[0][:150])
