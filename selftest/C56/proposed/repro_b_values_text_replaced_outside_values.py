"""(b) insertmanyvalues replaces EVERY occurrence of the VALUES group text in the statement.

    /venv/bin/python selftest/C56/proposed/repro_b_values_text_replaced_outside_values.py

unchanged tree, positional paramstyle (qmark), two inserted columns, executemany + RETURNING:
    INSERT INTO t (id, v) VALUES (?, ?), (?, ?), (?, ?) ON CONFLICT (id) DO UPDATE SET v = coalesce(?, ?), (?, ?), (?, ?) RETURNING id, v
    -> sqlite3.OperationalError: near "?": syntax error
SQLCompiler._deliver_insertmanyvalues_batches does statement.replace("(?, ?)", TOKEN): the
"(?, ?)" of "coalesce(?, ?)" in the DO UPDATE SET clause is replaced as well and later expanded to
the multi-row VALUES list.  Any SQL function / tuple with as many plain placeholders as the INSERT
has columns, anywhere after the VALUES clause (SET, WHERE, RETURNING), triggers it.
Fix: selftest/C56/proposed/fix_b_values_text_replaced_once.diff (replace only the group that
follows the VALUES keyword, once).  With the fix: [(1, 'x'), (2, 'x'), (3, 'n3')].
C12 / C56 mechanism: insertmanyvalues-values-text-replaced-outside-values-clause
"""
import sys

sys.path.insert(0, "/repo/lib")
import sqlalchemy as sa  # noqa: E402
from sqlalchemy.dialects import sqlite  # noqa: E402

md = sa.MetaData()
t = sa.Table("t", md, sa.Column("id", sa.Integer, primary_key=True, autoincrement=False), sa.Column("v", sa.String))
e = sa.create_engine("sqlite://")
md.create_all(e)
st = sqlite.insert(t)
st = st.on_conflict_do_update(index_elements=[t.c.id], set_={"v": sa.func.coalesce("x", "y")}).returning(t.c.id, t.c.v)
with e.begin() as c:
    c.execute(sa.insert(t), [{"id": 1, "v": "a"}, {"id": 2, "v": "b"}])
    try:
        print(sorted(c.execute(st, [{"id": 1, "v": "n1"}, {"id": 2, "v": "n2"}, {"id": 3, "v": "n3"}]).all()))
    except Exception as ex:
        print(type(ex).__name__, str(ex)[:330])
