#!/bin/sh
# tools/adopt_mutant.sh <srcdir with patch.diff demo.py notes.md> <CNN> <name> [tier]
# Confirms the demo (PASS on /repo, FAIL on a patched scratch copy), runs the property's check
# against the patched copy, and stores everything under /verif/seeded/<CNN>-<name>/.
SRC="$1"; C="$2"; N="$3"; T="${4:-quick}"
HERE="$(cd "$(dirname "$0")/.." && pwd)"
DST="$HERE/seeded/$C-$N"; mkdir -p "$DST"
cp "$SRC/patch.diff" "$SRC/demo.py" "$DST/"; [ -f "$SRC/notes.md" ] && cp "$SRC/notes.md" "$DST/"
D=$(mktemp -d /dev/shm/vf-adopt-XXXXXX); mkdir -p "$D/repo"; cp -r /repo/lib "$D/repo/lib"
( cd "$D/repo" && patch -p1 -s < "$DST/patch.diff" ) || { echo "PATCH FAILED"; rm -rf "$D"; exit 3; }
/venv/bin/python -c "import compileall,sys; sys.exit(0 if compileall.compile_dir('$D/repo/lib/sqlalchemy', quiet=2, legacy=False) else 1)" >/dev/null 2>&1; COMPILES=$?
find "$D/repo/lib" -name __pycache__ -prune -exec rm -rf {} + 2>/dev/null
( cd /tmp && PYTHONPATH=/repo/lib timeout 300 /venv/bin/python "$DST/demo.py" > "$D/demo_clean.txt" 2>&1 ); RC_CLEAN=$?
( cd /tmp && PYTHONPATH="$D/repo/lib" timeout 300 /venv/bin/python "$DST/demo.py" > "$D/demo_mut.txt" 2>&1 ); RC_MUT=$?
cd "$HERE"
[ -f evidence/$C.json ] && cp evidence/$C.json "$D/ev.json"
VERIF_REPO="$D/repo" ./check "$C" --tier "$T" > "$D/check.txt" 2>&1; RC_CHECK=$?
[ -f "$D/ev.json" ] && cp "$D/ev.json" evidence/$C.json
MECHS=$(grep -E "^  mechanism=" "$D/check.txt" | sed 's/ ::.*//; s/^  mechanism=//' | tr '\n' ';')
/venv/bin/python - "$DST" "$C" "$N" "$T" "$COMPILES" "$RC_CLEAN" "$RC_MUT" "$RC_CHECK" "$MECHS" "$D" <<'PY'
import json,sys,os
dst,c,n,t,comp,rc_clean,rc_mut,rc_check,mechs,d=sys.argv[1:]
meta_p=os.path.join(dst,"meta.json")
meta=json.load(open(meta_p)) if os.path.exists(meta_p) else {}
meta.update({
 "property": c, "name": n,
 "compiles": comp=="0",
 "demo_on_unchanged_tree": {"exit": int(rc_clean), "tail": open(d+"/demo_clean.txt").read()[-400:]},
 "demo_on_changed_tree": {"exit": int(rc_mut), "tail": open(d+"/demo_mut.txt").read()[-600:]},
 "check_run": {"cmd": f"VERIF_REPO=<scratch copy of /repo/lib + patch.diff> ./check {c} --tier {t}", "exit": int(rc_check), "mechanisms": [m for m in mechs.split(';') if m]},
 "detected": rc_check=="1",
})
json.dump(meta,open(meta_p,"w"),indent=1)
print(c,n,"compiles",comp=="0","demo clean/mut",rc_clean,rc_mut,"check rc",rc_check,mechs[:150])
PY
rm -rf "$D"
