#!/bin/sh
# tools/adopt_round.sh <tag> CNN [tier]  - adopt every change delivered under /tmp/mut<tag>-CNN-out/, then
# remove the author's worktree and output directory
TAG="$1"; C="$2"; T="${3:-quick}"
HERE="$(cd "$(dirname "$0")/.." && pwd)"
for d in /tmp/mut$TAG-$C-out/*/; do
  [ -f "$d/patch.diff" ] || continue
  n=$(basename "$d"); [ -d "$HERE/seeded/$C-$n" ] && n="r$TAG-$n"
  "$HERE/tools/adopt_mutant.sh" "$d" "$C" "$n" "$T" | tail -1
done
git -C /repo worktree remove --force /tmp/mut$TAG-$C 2>/dev/null; git -C /repo worktree prune
rm -rf /tmp/mut$TAG-$C-out
