#!/venv/bin/python
"""Regenerate /verif/MANIFEST.json from the META dict of every vf/props/cNN.py."""
import importlib, json, os, sys, glob
HERE = os.path.dirname(os.path.dirname(os.path.abspath(__file__)))
sys.path.insert(0, HERE)
from vf import modes
modes.activate("cext")
props = [json.loads(l) for l in open(os.path.join(HERE, "properties.jsonl"))]
checks, na = [], []
ready = set(open(os.path.join(HERE, "tools", "ready.txt")).read().split())
for p in props:
    pid = p["id"]
    fn = os.path.join(HERE, "vf", "props", pid.lower() + ".py")
    if os.path.exists(fn) and pid not in ready:
        na.append({"property_id": pid, "reason": "check exists but has not yet passed the registration gate (5-seed sweep on the unchanged tree + caught mutations); not claimed yet"})
        continue
    if not os.path.exists(fn):
        na.append({"property_id": pid, "reason": "check not built yet in this round (planned in DESIGN.md section 4); not claimed"})
        continue
    meta = importlib.import_module(f"vf.props.{pid.lower()}").META
    if meta.get("not_applicable"):
        na.append({"property_id": pid, "reason": meta["not_applicable"]})
        continue
    checks.append({
        "property_id": pid,
        "quick_cmd": f"./check {pid} --tier quick",
        "thorough_cmd": f"./check {pid} --tier thorough",
        "evidence_file": f"/verif/evidence/{pid}.json",
        "replay_cmd_template": f"./check {pid} --replay {{path}}",
        "engine": "vf",
        "level_claimed": {"category": meta["level"], "text": meta["level_text"], "design_ref": meta.get("design_ref", "DESIGN.md section 4")},
        "level_note": meta["level_note"],
        "technique": meta["technique"],
    })
man = {
    "version": 1,
    "setup_cmd": "/venv/bin/python -m pip install --quiet --no-index --find-links /opt/veriftools/wheels --target /verif/.deps icontract deal",
    "hooks": {
        "guard": "SQLALCHEMY_VERIF",
        "enable": "no source hooks: all instrumentation is attached at run time by the harness (sys.monitoring, event API, DBAPI wrappers, module-attribute substitution); checks export SQLALCHEMY_VERIF=1 for uniformity",
        "baseline_off_cmd": "cd /repo && /venv/bin/python -m pytest -ra -q -p no:cacheprovider --timeout=900 --continue-on-collection-errors",
        "source_commits": [],
        "add_only": True,
    },
    "engines": [{
        "name": "vf", "path": "/verif/vf",
        "serves_properties": [c["property_id"] for c in checks],
        "kind_free_text": "runtime monitoring harness: generated/hostile workloads against the real code in /repo/lib under DBAPI spies, a deterministic thread scheduler, fault/cancellation injectors, contracts and reference-model oracles",
    }],
    "checks": checks,
    "not_applicable": na,
    "notes": "Technique family: runtime monitoring and sanitizers. Exit 0 held / 1 VIOLATION / 2 INCONCLUSIVE. See DESIGN.md.",
}
json.dump(man, open(os.path.join(HERE, "MANIFEST.json"), "w"), indent=1)
print(f"{len(checks)} checks, {len(na)} not claimed")
