#!/usr/bin/env python3
"""tools/gen_mutant_briefs.py <outdir> [round-tag]
Writes one brief per property for independent authors of property-breaking changes
(text of the property + worktree protocol only; nothing about /verif).  With a round tag
(e.g. "2") the brief lists the names/sites of changes already delivered so that new
authors explore other sites, and the worktree is /tmp/mut<tag>-CNN."""
import glob
import json
import os
import re
import sys

here = os.path.dirname(os.path.dirname(os.path.abspath(__file__)))
out = sys.argv[1]
tag = sys.argv[2] if len(sys.argv) > 2 else ""
tpl = open(os.path.join(here, "tools", "mutant_brief.txt")).read()
os.makedirs(out, exist_ok=True)
for line in open(os.path.join(here, "properties.jsonl")):
    d = json.loads(line)
    cid = d["id"]
    b = (tpl.replace("@ID@", cid).replace("@TITLE@", d["title"]).replace("@STATEMENT@", d["statement"])
         .replace("@QUANT@", d["quantifier"]["text"]).replace("@FILES@", ", ".join(d["anchors"]["files"])))
    if tag:
        b = b.replace("/tmp/mut-" + cid, f"/tmp/mut{tag}-{cid}")
        prev = []
        for m in sorted(glob.glob(f"{here}/seeded/{cid}-*/meta.json") + glob.glob(f"{here}/seeded_retired/{cid}-*/meta.json")):
            name = os.path.basename(os.path.dirname(m))[len(cid) + 1:]
            diff = open(os.path.join(os.path.dirname(m), "patch.diff")).read()
            files = sorted(set(re.findall(r"^\+\+\+ b/(\S+)", diff, flags=re.M)))
            hunks = [h for h in re.findall(r"^@@.*@@ ?(.*)$", diff, flags=re.M) if h]
            prev.append(f"    - {name} (in {', '.join(files)}; near: {'; '.join(hunks[:3])})")
        b += ("\n\nOther people already delivered the following changes for this property. Do NOT repeat them or minor "
              "variations of them; pick different functions, different clauses of the property, different mechanisms "
              "(the more unlike these, the better):\n" + "\n".join(prev) + "\n")
    open(os.path.join(out, cid + ".txt"), "w").write(b)
print("briefs written to", out)
