#!/bin/sh
# tools/mutcheck.sh <patch.diff> <CNN> [tier]  -- apply a patch to a scratch copy of /repo/lib,
# run the check against it (VERIF_REPO), print the exit code, remove the copy.
# Evidence of the real tree is preserved (the evidence file is saved and restored).
P="$(realpath "$1")"; C="$2"; T="${3:-quick}"
D=$(mktemp -d /dev/shm/vf-mut-XXXXXX)
mkdir -p "$D/repo"; cp -r /repo/lib "$D/repo/lib"
( cd "$D/repo" && patch -p1 -s < "$P" ) || { echo "PATCH FAILED"; rm -rf "$D"; exit 3; }
cd "$(dirname "$0")/.."
[ -f evidence/$C.json ] && cp evidence/$C.json "$D/ev.json"
VERIF_REPO="$D/repo" ./check "$C" --tier "$T" > "$D/out.txt" 2>&1; RC=$?
grep -E "VIOLATION|KNOWN-FINDING|INCONCLUSIVE|mechanism=|^\[C" "$D/out.txt" | head -12
[ -f "$D/ev.json" ] && cp "$D/ev.json" evidence/$C.json
rm -rf "$D"
echo "mutcheck rc=$RC"
exit $RC
