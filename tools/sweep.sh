#!/bin/sh
# tools/sweep.sh CNN tier seed...   -- run a check over several seeds, report exit codes
C="$1"; T="$2"; shift 2
cd "$(dirname "$0")/.."
for s in "$@"; do
  VERIF_SEED=$s ./check "$C" --tier "$T" > /dev/shm/vf-sweep-$C-$s.txt 2>&1; rc=$?
  echo "$C tier=$T seed=$s rc=$rc $(grep -E '^\[C' /dev/shm/vf-sweep-$C-$s.txt | cut -c1-160)"
  [ $rc -ne 0 ] && grep -E "VIOLATION|INCONCLUSIVE|mechanism=" /dev/shm/vf-sweep-$C-$s.txt | head -5
  rm -f /dev/shm/vf-sweep-$C-$s.txt
done
