#!/bin/sh
# tools/sweep_all.sh tier "seeds" [props...]   (default props: tools/ready.txt) -> one line per run
T="$1"; SEEDS="$2"; shift 2
cd "$(dirname "$0")/.."
PROPS="${*:-$(cat tools/ready.txt)}"
for c in $PROPS; do for s in $SEEDS; do
  VERIF_SEED=$s ./check "$c" --tier "$T" > /dev/shm/vf-sa-$$.txt 2>&1; rc=$?
  echo "$c tier=$T seed=$s rc=$rc known=$(grep -c '^KNOWN-FINDING' /dev/shm/vf-sa-$$.txt) $(grep -E '^VIOLATION|INCONCLUSIVE|^  mechanism=' /dev/shm/vf-sa-$$.txt | cut -c1-200 | tr '\n' '|')"
done; done
rm -f /dev/shm/vf-sa-$$.txt
