#!/bin/sh
# tools/sweep_par.sh tier "seeds" jobs [props...]  -> like sweep_all.sh, `jobs` checks at a time
T="$1"; SEEDS="$2"; J="$3"; shift 3
cd "$(dirname "$0")/.."
PROPS="${*:-$(cat tools/ready.txt)}"
for c in $PROPS; do for s in $SEEDS; do echo "$c $s"; done; done | xargs -P "$J" -L 1 sh -c '
  c="$1"; s="$2"; f=/dev/shm/vf-sp-$$-$c-$s.txt
  VERIF_SEED=$s ./check "$c" --tier '"$T"' > $f 2>&1; rc=$?
  echo "$c tier='"$T"' seed=$s rc=$rc known=$(grep -c "^KNOWN-FINDING" $f) $(grep -E "^VIOLATION|INCONCLUSIVE|^  mechanism=" $f | cut -c1-200 | tr "\n" "|") $(grep -o "wall=[0-9.]*s" $f | tail -1)"
  rm -f $f' _
