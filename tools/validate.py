#!/opt/veriftools/pyvenv/bin/python
import json, jsonschema, sys, glob, os
H = os.path.dirname(os.path.dirname(os.path.abspath(__file__)))
man = json.load(open(H + "/MANIFEST.json"))
jsonschema.validate(man, json.load(open("/root/.vp/MANIFEST.schema.json")))
es = json.load(open("/root/.vp/EVIDENCE.schema.json"))
bad = 0
for c in man["checks"]:
    f = c["evidence_file"]
    try:
        jsonschema.validate(json.load(open(f)), es)
    except Exception as e:
        bad += 1
        print("BAD", f, str(e)[:200])
ids = {c["property_id"] for c in man["checks"]} | {n["property_id"] for n in man.get("not_applicable", [])}
allp = {json.loads(l)["id"] for l in open(H + "/properties.jsonl")}
print("manifest ok; checks", len(man["checks"]), "bad evidence", bad, "unaccounted", sorted(allp - ids))
sys.exit(1 if bad else 0)
