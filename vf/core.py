"""Core of the runtime-monitoring harness: tiers, seeds, shard contexts, verdicts,
known-finding matching, evidence writing.

A property module ``vf/props/cNN.py`` defines

    META = {...}            # see vf/props/README.md
    def run(ctx): ...       # executed inside one shard subprocess

``run`` drives the real code from the repository and reports through ``ctx``:

    ctx.case(desc, nontrivial=True)      one executed case (desc is hashed for distinctness)
    ctx.count(name, n=1)                 monitor counters (summed over shards)
    ctx.seen(name, value)                distinct values observed (unioned over shards)
    ctx.violation(mechanism, summary, witness)
    ctx.sample(obj)                      an actual case, written to evidence
    ctx.budget_ok()                      soft deadline (stop generating, never a verdict)

Verdicts are three-valued: exit 0 held / exit 1 VIOLATION / exit 2 INCONCLUSIVE.
"""
from __future__ import annotations

import hashlib
import importlib
import json
import os
import random
import shutil
import subprocess
import sys
import time
import traceback
from collections import Counter

VERIF_DIR = os.path.dirname(os.path.dirname(os.path.abspath(__file__)))
EVIDENCE_DIR = os.path.join(VERIF_DIR, "evidence")
REPLAY_DIR = os.path.join(EVIDENCE_DIR, "replay")
KNOWN_FINDINGS = os.path.join(VERIF_DIR, "known_findings.json")
PYTHON = os.environ.get("VERIF_PYTHON", "/venv/bin/python")
DEPS = os.path.join(VERIF_DIR, ".deps")
WHEELS = "/opt/veriftools/wheels"

MAX_SAMPLES = 5
MAX_WITNESS_PER_MECH = 3


def jdefault(o):
    if isinstance(o, (set, frozenset)):
        return sorted(map(repr, o))
    if isinstance(o, bytes):
        return "bytes:" + o.hex()
    return repr(o)


def digest(obj) -> str:
    if not isinstance(obj, (str, bytes)):
        obj = json.dumps(obj, sort_keys=True, default=jdefault)
    if isinstance(obj, str):
        obj = obj.encode("utf8", "surrogatepass")
    return hashlib.blake2b(obj, digest_size=8).hexdigest()


class Ctx:
    """Per-shard reporting context handed to ``run(ctx)``."""

    def __init__(self, prop, tier, seed, shard, nshards, mode, workdir, soft_s):
        self.prop = prop
        self.tier = tier
        self.quick = tier == "quick"
        self.thorough = tier == "thorough"
        self.seed = seed
        self.shard = shard
        self.nshards = nshards
        self.mode = mode
        self.workdir = workdir
        self.rng = random.Random(seed * 100003 + shard * 101 + (7 if mode == "purepy" else 0))
        self.t0 = time.monotonic()
        self.soft_s = soft_s
        self.evaluations = 0
        self.digests = set()
        self.counters = Counter()
        self.sets = {}
        self.maxes = {}
        self.samples = []
        self.violations = {}
        self.violation_counts = Counter()
        self.stopped_early = False
        self.extra = {}
        self._tmpn = 0
        self._auto_samples = []

    # ---- workload helpers -------------------------------------------------
    def pick(self, tier_values: dict):
        """pick({'quick': a, 'thorough': b})"""
        return tier_values[self.tier]

    def mine(self, index: int) -> bool:
        """Static partition of an enumerated space over shards."""
        return index % self.nshards == self.shard

    def budget_ok(self, frac: float = 1.0) -> bool:
        """Soft deadline.  ``frac`` < 1 lets a multi-part workload reserve budget for its
        later parts (part k stops generating at frac_k of the soft budget)."""
        if time.monotonic() - self.t0 > self.soft_s * frac:
            self.stopped_early = True
            return False
        return True

    def tmppath(self, suffix=".db") -> str:
        self._tmpn += 1
        return os.path.join(self.workdir, f"t{self._tmpn}{suffix}")

    # ---- reporting --------------------------------------------------------
    def case(self, desc=None, nontrivial=True):
        self.evaluations += 1
        if nontrivial and desc is not None:
            self.digests.add(digest(desc))
            if len(self._auto_samples) < 3:
                # fallback samples (actual case descriptors) for modules that never call sample()
                try:
                    self._auto_samples.append(json.loads(json.dumps(desc, default=jdefault)))
                except Exception:
                    pass

    def count(self, name, n=1):
        self.counters[name] += n

    def seen(self, name, value):
        s = self.sets.setdefault(name, set())
        if len(s) < 20000:
            s.add(value if isinstance(value, str) else json.dumps(value, sort_keys=True, default=jdefault))

    def maxi(self, name, value):
        if value > self.maxes.get(name, float("-inf")):
            self.maxes[name] = value

    def sample(self, obj, force=False):
        if len(self.samples) < MAX_SAMPLES or force:
            self.samples.append(json.loads(json.dumps(obj, default=jdefault)))

    def violation(self, mechanism: str, summary: str, witness=None):
        """Record a violation. ``mechanism`` names *how* the property broke, computed
        from the witness (never a seed / hash / random value): it is the key the
        known-findings file is matched on."""
        self.violation_counts[mechanism] += 1
        lst = self.violations.setdefault(mechanism, [])
        if len(lst) < MAX_WITNESS_PER_MECH:
            lst.append(
                {
                    "mechanism": mechanism,
                    "summary": summary,
                    "witness": json.loads(json.dumps(witness, default=jdefault)),
                    "shard": self.shard,
                    "mode": self.mode,
                }
            )

    def result(self):
        return {
            "shard": self.shard,
            "mode": self.mode,
            "evaluations": self.evaluations,
            "digests": sorted(self.digests),
            "counters": dict(self.counters),
            "sets": {k: sorted(v) for k, v in self.sets.items()},
            "maxes": self.maxes,
            "samples": self.samples or self._auto_samples,
            "violations": self.violations,
            "violation_counts": dict(self.violation_counts),
            "stopped_early": self.stopped_early,
            "extra": self.extra,
            "wall_s": round(time.monotonic() - self.t0, 3),
        }


# --------------------------------------------------------------------------
# shard entry (child process)
# --------------------------------------------------------------------------
def shard_main(argv):
    import argparse

    ap = argparse.ArgumentParser()
    ap.add_argument("prop")
    ap.add_argument("--tier", required=True)
    ap.add_argument("--seed", type=int, required=True)
    ap.add_argument("--shard", type=int, required=True)
    ap.add_argument("--nshards", type=int, required=True)
    ap.add_argument("--mode", default="cext")
    ap.add_argument("--workdir", required=True)
    ap.add_argument("--soft", type=float, required=True)
    ap.add_argument("--out", required=True)
    a = ap.parse_args(argv)

    from . import modes

    modes.activate(a.mode)
    if os.path.isdir(DEPS) and DEPS not in sys.path:
        sys.path.append(DEPS)
    os.makedirs(a.workdir, exist_ok=True)
    ctx = Ctx(a.prop, a.tier, a.seed, a.shard, a.nshards, a.mode, a.workdir, a.soft)
    mod = importlib.import_module(f"vf.props.{a.prop.lower()}")
    info = modes.verify_active()
    if a.mode == "purepy" and info["has_cyextension"]:
        raise SystemExit("purepy mode did not take effect")
    ctx.extra["import"] = {
        "sqlalchemy_file": info["sqlalchemy_file"],
        "has_cyextension": info["has_cyextension"],
    }
    status = "ok"
    err = None
    ctx.t0 = time.monotonic()  # the soft budget starts after imports
    try:
        mod.run(ctx)
    except BaseException:  # harness failure: reported as inconclusive by the parent
        status = "crash"
        err = traceback.format_exc()
    res = ctx.result()
    res["status"] = status
    res["error"] = err
    tmp = a.out + ".tmp"
    with open(tmp, "w") as f:
        json.dump(res, f, default=jdefault)
    os.replace(tmp, a.out)
    return 0


# --------------------------------------------------------------------------
# parent
# --------------------------------------------------------------------------
def ensure_deps():
    """icontract / deal beside the repo's interpreter (offline wheelhouse)."""
    if os.path.isdir(os.path.join(DEPS, "icontract")):
        return
    os.makedirs(DEPS, exist_ok=True)
    subprocess.run(
        [PYTHON, "-m", "pip", "install", "--quiet", "--no-index", "--find-links", WHEELS,
         "--target", DEPS, "icontract", "deal"],
        check=False, stdout=subprocess.DEVNULL, stderr=subprocess.DEVNULL,
    )


def load_known():
    try:
        with open(KNOWN_FINDINGS) as f:
            return json.load(f).get("findings", [])
    except FileNotFoundError:
        return []


def load_meta(prop):
    mod = importlib.import_module(f"vf.props.{prop.lower()}")
    return mod.META


def run_check(prop: str, tier: str, seed: int, replay: str | None = None) -> int:
    t0 = time.monotonic()
    prop = prop.upper()
    meta = load_meta(prop)
    ensure_deps()
    nshards = meta.get("shards", {}).get(tier, 8 if tier == "quick" else 16)
    mode_list = meta.get("modes", ["cext"])
    soft = meta.get("soft_s", {}).get(tier, 75 if tier == "quick" else 900)
    hard = meta.get("hard_s", {}).get(tier, max(600, soft * 6))
    soft = soft * float(os.environ.get("VERIF_SOFT_SCALE", "1"))  # testing aid only
    scratch = f"/dev/shm/vf-{prop}-{os.getpid()}"
    os.makedirs(scratch, exist_ok=True)
    env = dict(os.environ)
    env["PYTHONHASHSEED"] = env.get("VERIF_HASHSEED", "0")
    env["PYTHONPATH"] = VERIF_DIR + os.pathsep + env.get("PYTHONPATH", "")
    env["PYTHONDONTWRITEBYTECODE"] = "1"
    env.setdefault("SQLALCHEMY_VERIF", "1")
    only = None
    if replay:
        with open(replay) as f:
            rp = json.load(f)
        tier, seed = rp["tier"], rp["seed"]
        only = (rp["mode"], rp["shard"])
        nshards = rp["nshards"]
    procs = []
    try:
        maxpar = int(os.environ.get("VERIF_JOBS", "16"))
        jobs = [(m, i) for m in mode_list for i in range(nshards)]
        if only:
            jobs = [j for j in jobs if j == only]
        results, failures = [], []
        pending = list(jobs)
        running = []
        attempt = 1
        while pending or running or _starved(meta, results, failures, replay, attempt):
            if not pending and not running:
                # A loaded machine made the soft budget run out before a later part of the
                # workload reached its monitors (required counter still zero, shards stopped
                # at the soft deadline, nothing else wrong): run the workload once more with
                # three times the budget instead of reporting "inconclusive".  Results of
                # both passes are merged; the seeds are the same, so nothing new can fire
                # that a less loaded machine would not have produced in one pass.
                attempt += 1
                soft, hard = soft * 3, hard * 3
                pending = list(jobs)
                sys.stderr.write(f"[{prop}] soft budget exhausted before all monitors were reached; "
                                 f"second pass with soft={soft}s\n")
            while pending and len(running) < maxpar:
                m, i = pending.pop(0)
                out = os.path.join(scratch, f"r{attempt}-{m}-{i}.json")
                wd = os.path.join(scratch, f"w{attempt}-{m}-{i}")
                cmd = [PYTHON, "-m", "vf.shard", prop, "--tier", tier, "--seed", str(seed),
                       "--shard", str(i), "--nshards", str(nshards), "--mode", m,
                       "--workdir", wd, "--soft", str(soft), "--out", out]
                log = open(os.path.join(scratch, f"log{attempt}-{m}-{i}.txt"), "w")
                p = subprocess.Popen(cmd, cwd=VERIF_DIR, env=env, stdout=log, stderr=subprocess.STDOUT)
                running.append((p, m, i, out, time.monotonic(), log))
            time.sleep(0.05)
            still = []
            for p, m, i, out, ts, log in running:
                rc = p.poll()
                if rc is None:
                    if time.monotonic() - ts > hard:
                        p.kill()
                        p.wait()
                        failures.append((m, i, "watchdog", ""))
                        log.close()
                    else:
                        still.append((p, m, i, out, ts, log))
                    continue
                log.close()
                if os.path.exists(out):
                    with open(out) as f:
                        r = json.load(f)
                    if r["status"] != "ok":
                        failures.append((m, i, "crash", r.get("error") or ""))
                    results.append(r)
                else:
                    with open(log.name) as f:
                        tail = f.read()[-3000:]
                    failures.append((m, i, f"exit{rc}", tail))
            running = still
        return _conclude(prop, meta, tier, seed, nshards, mode_list, results, failures, t0,
                         replaying=bool(replay))
    finally:
        for p, *_ in procs:
            try:
                p.kill()
            except Exception:
                pass
        shutil.rmtree(scratch, ignore_errors=True)


def _starved(meta, results, failures, replay, attempt) -> bool:
    if replay or attempt >= 2 or failures or not results:
        return False
    if not any(r.get("stopped_early") for r in results):
        return False
    if any(r.get("violations") for r in results):
        return False
    counters = Counter()
    for r in results:
        counters.update(r["counters"])
    return any(counters.get(req, 0) <= 0 for req in meta.get("require", []))


def _conclude(prop, meta, tier, seed, nshards, mode_list, results, failures, t0, replaying=False):
    ev = 0
    digs = set()
    counters = Counter()
    sets = {}
    maxes = {}
    samples = []
    vio = {}
    vio_counts = Counter()
    stopped = 0
    imports = {}
    for r in results:
        ev += r["evaluations"]
        digs.update(r["digests"])
        counters.update(r["counters"])
        for k, v in r["sets"].items():
            sets.setdefault(k, set()).update(v)
        for k, v in r["maxes"].items():
            maxes[k] = max(maxes.get(k, v), v)
        for s in r["samples"]:
            if len(samples) < MAX_SAMPLES:
                samples.append(s)
        for mech, lst in r["violations"].items():
            vio.setdefault(mech, []).extend(lst)
        vio_counts.update(r["violation_counts"])
        stopped += 1 if r["stopped_early"] else 0
        imports[r["mode"]] = r["extra"].get("import")

    known = [k for k in load_known() if k.get("property") == prop]
    open_known = {k["mechanism"]: k for k in known if k.get("status") == "open"}

    lines = []
    n_viol = 0
    known_seen = []
    os.makedirs(REPLAY_DIR, exist_ok=True)
    for mech in sorted(vio):
        if mech in open_known:
            known_seen.append(mech)
            lines.append(f"KNOWN-FINDING: property={prop} {mech}: {open_known[mech].get('what', '')} "
                         f"(observed {vio_counts[mech]}x this run)")
            continue
        w = vio[mech][0]
        path = os.path.join(REPLAY_DIR, f"{prop}-{digest(mech)}.json")
        with open(path, "w") as f:
            json.dump({"property": prop, "tier": tier, "seed": seed, "nshards": nshards,
                       "shard": w["shard"], "mode": w["mode"], "mechanism": mech,
                       "count": vio_counts[mech], "witnesses": vio[mech]}, f, indent=1, default=jdefault)
        n_viol += 1
        lines.append(f"VIOLATION property={prop} replay={path}")
        lines.append(f"  mechanism={mech} count={vio_counts[mech]} :: {w['summary'][:400]}")

    inconclusive = []
    for m, i, why, tail in failures:
        inconclusive.append(f"shard {m}/{i}: {why}")
        if tail:
            sys.stderr.write(f"--- shard {m}/{i} {why}\n{tail}\n")
    for req in meta.get("require", []):
        if counters.get(req, 0) <= 0 and not replaying:
            inconclusive.append(f"monitor counter '{req}' is zero")
    if ev == 0 and not replaying:
        inconclusive.append("no case executed")

    if not samples and ev:
        # no shard recorded a case descriptor (every case was judged trivial): keep the
        # evidence file well-formed and say so
        samples = [{"note": "no non-trivial case descriptor was recorded in this run",
                    "counters": dict(sorted(counters.items())[:8])}]
    coverage = {
        "evaluations": ev,
        "distinct_nontrivial": len(digs),
        "rule": meta.get("rule", ""),
        "samples": samples,
        "exhaustive": bool(meta.get("exhaustive", {}).get(tier, False)) and stopped == 0,
        "counters": dict(sorted(counters.items())),
        "distinct": {k: len(v) for k, v in sorted(sets.items())},
        "distinct_examples": {k: sorted(v)[:12] for k, v in sorted(sets.items())},
        "max": maxes,
        "modes": mode_list,
        "shards": nshards,
        "shards_stopped_at_soft_deadline": stopped,
        "imports": imports,
        "known_findings_observed": known_seen,
        "violating_mechanisms": {k: v for k, v in vio_counts.items()},
        "inconclusive_reasons": inconclusive,
    }
    evidence = {
        "property_id": prop,
        "tier": tier,
        "seed": seed,
        "level": meta["level"],
        "coverage": coverage,
        "assumptions": meta.get("assumptions", []),
        "wall_s": round(time.monotonic() - t0, 2),
        "violations": n_viol,
    }
    if not replaying:
        os.makedirs(EVIDENCE_DIR, exist_ok=True)
        with open(os.path.join(EVIDENCE_DIR, f"{prop}.json"), "w") as f:
            json.dump(evidence, f, indent=1, default=jdefault)
            f.write("\n")

    for ln in lines:
        print(ln)
    cs = ", ".join(f"{k}={v}" for k, v in sorted(counters.items())[:14])
    print(f"[{prop}] tier={tier} seed={seed} evaluations={ev} distinct_nontrivial={len(digs)} "
          f"violations={n_viol} known={len(known_seen)} wall={evidence['wall_s']}s :: {cs}")
    if n_viol:
        return 1
    if inconclusive:
        print(f"INCONCLUSIVE property={prop} reason={'; '.join(inconclusive)[:500]}")
        return 2
    return 0


def main(argv=None):
    import argparse

    ap = argparse.ArgumentParser(prog="check")
    ap.add_argument("prop")
    ap.add_argument("--tier", default=os.environ.get("VERIF_TIER", "quick"))
    ap.add_argument("--seed", type=int, default=int(os.environ.get("VERIF_SEED", "0")))
    ap.add_argument("--replay")
    a = ap.parse_args(argv)
    if a.tier not in ("quick", "thorough"):
        ap.error("tier")
    return run_check(a.prop, a.tier, a.seed, a.replay)
