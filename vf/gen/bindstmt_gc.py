"""G-stmt for C04 (group gc): statements in which *every bind carries a unique value*.

``Env`` owns the two tables and their (fixed, all-distinct, 7-digit) data.  A
``Builder(env, struct_seed, alloc, caps)`` builds one statement; building twice with the
same ``struct_seed`` and two different allocators gives two structurally identical
statements (same cache key) whose bind values are disjoint.

Nothing here judges anything.
"""
from __future__ import annotations

import random

T_ROWS = [
    (1_000_000 + i, 2_000_000 + 1000 * i, 3_000_000 + 1000 * ((i * 5) % 12) + i, "zs%02d" % i, 4_000_000 + i % 3)
    for i in range(1, 13)
]
U_ROWS = [
    (5_000_000 + j, 1_000_000 + (j * 7 % 12) + 1, 6_000_000 + 500 * j, "zy%02d" % j)
    for j in range(1, 19)
]
RANGES = {
    "id": (1_000_001, 1_000_012),
    "a": (2_000_500, 2_012_500),
    "b": (3_000_000, 3_012_000),
    "g": (4_000_000, 4_000_002),
    "x": (6_000_400, 6_009_100),
    "free": (7_000_000, 7_900_000),
    "newid": (8_000_000, 8_900_000),
}
TAG = 10_000_000
ESC_NAMES = ["a.b%d", "x[%d]", "p%%q%d", "my name%d", "f(%d)", "c:d%d", "t.c[%d] %%(z)s"]
STR_SUFFIX = ["", "", "'", "%", "?", ":k", "$1", "%s", " %(a)s", "''", '"', " __[POSTCOMPILE_x]"]

DDL = [
    "CREATE TABLE t (id INTEGER PRIMARY KEY, a INTEGER, b INTEGER, s VARCHAR, g INTEGER)",
    "CREATE TABLE u (id INTEGER PRIMARY KEY, tid INTEGER, x INTEGER, y VARCHAR)",
]


def load_raw(con):
    """Create + fill the tables on a raw sqlite3 connection."""
    for d in DDL:
        con.execute(d)
    con.executemany("INSERT INTO t VALUES (?,?,?,?,?)", T_ROWS)
    con.executemany("INSERT INTO u VALUES (?,?,?,?)", U_ROWS)
    con.commit()


class Env:
    def __init__(self):
        import sqlalchemy as sa
        from sqlalchemy.types import TypeDecorator

        class Tagged(TypeDecorator):
            """bind processing adds TAG: shows that the processor of *this* bind ran on *its* value"""

            impl = sa.Integer
            cache_ok = True

            def process_bind_param(self, value, dialect):
                return None if value is None else value + TAG

            def process_result_value(self, value, dialect):
                return value

        self.sa = sa
        self.Tagged = Tagged
        self.md = sa.MetaData()
        self.t = sa.Table(
            "t", self.md,
            sa.Column("id", sa.Integer, primary_key=True, autoincrement=False),
            sa.Column("a", sa.Integer), sa.Column("b", sa.Integer),
            sa.Column("s", sa.String), sa.Column("g", sa.Integer),
        )
        self.u = sa.Table(
            "u", self.md,
            sa.Column("id", sa.Integer, primary_key=True, autoincrement=False),
            sa.Column("tid", sa.Integer), sa.Column("x", sa.Integer), sa.Column("y", sa.String),
        )


class Alloc:
    """Hands out values never handed out before (per statement build)."""

    def __init__(self, rng):
        self.rng = rng
        self.used = set()
        self.delivered = set()  # canonical ("n", v) / ("s", v) of values as the DBAPI must see them
        self.n = 0
        self.smalls = list(range(2, 10))
        rng.shuffle(self.smalls)

    def note(self, v, tagged=False):
        if isinstance(v, int):
            self.delivered.add(("n", v + TAG if tagged else v))
        else:
            self.delivered.add(("s", v))

    def int(self, col="free", tagged=False):
        lo, hi = RANGES[col]
        for _ in range(200):
            v = self.rng.randint(lo, hi)
            if v not in self.used:
                break
        else:
            lo, hi = RANGES["free"]
            while True:
                v = self.rng.randint(lo, hi)
                if v not in self.used:
                    break
        self.used.add(v)
        self.note(v, tagged)
        return v

    def pick(self, values, k):
        """k distinct unused members of ``values`` (may return fewer)."""
        cand = [v for v in values if v not in self.used]
        self.rng.shuffle(cand)
        out = cand[:k]
        for v in out:
            self.used.add(v)
            self.note(v)
        return out

    def small(self):
        v = self.smalls.pop() if self.smalls else self.int("free")
        self.used.add(v)
        self.note(v)
        return v

    def str(self, hostile=True):
        self.n += 1
        v = "zq%05d" % self.rng.randint(0, 99999)
        while v in self.used:
            v = "zq%05d" % self.rng.randint(0, 99999)
        self.used.add(v)
        if hostile:
            v = v + self.rng.choice(STR_SUFFIX)
        self.note(v)
        return v

    def like(self):
        for _ in range(50):
            d = self.rng.randint(0, 9)
            v = self.rng.choice(["zs%d%%" % (d % 2), "%%%d" % d, "zs_%d" % d, "zs%%%d" % d])
            if v not in self.used:
                self.used.add(v)
                self.note(v)
                return v
        return self.str(False)


class Case:
    def __init__(self):
        self.stmt = None
        self.kind = ""
        self.features = set()
        self.exec_params = {}
        self.multi = None         # list of dicts for executemany
        self.ref_rows = None      # for executemany: callable(row) -> single-row reference statement
        self.returns_rows = True
        self.ordered = True
        self.expected_rows = None  # absolute expectation when the generator knows it
        self.nbinds = 0
        self.tables = ("t",)


class Builder:
    def __init__(self, env, struct_seed, alloc, caps=None, embed=False):
        self.env = env
        self.embed = embed  # reference twin: execution-time values are embedded in the binds
        self.sa = env.sa
        self.r = random.Random(struct_seed)
        self.al = alloc
        self.caps = caps or {}
        self.case = Case()
        self.nname = 0
        self.int_binds = []

    # ---- binds ------------------------------------------------------
    def _name(self, litexec=False):
        # (escaped name x literal_execute) raised KeyError before fix 7b1a1df; kept at a normal rate now

        self.nname += 1
        if self.r.random() < (0.3 if litexec else 0.35):
            self.case.features.add("escaped_name")
            return self.r.choice(ESC_NAMES) % self.nname
        return "p%d" % self.nname

    def bi(self, col="free", allow_reuse=True, allow_litexec=True, plain=False):
        """an integer bind element with a unique value"""
        sa, r, c = self.sa, self.r, self.case
        if allow_reuse and self.int_binds and r.random() < 0.12:
            c.features.add("repeated_bind")
            return r.choice(self.int_binds)
        c.nbinds += 1
        form = r.choice(["literal", "anon", "named_val", "named_exec", "named_val", "tagged"])
        if plain:
            form = r.choice(["literal", "named_val", "named_exec"])
        v = self.al.int(col, tagged=(form == "tagged"))
        if form == "literal":
            el = sa.literal(v)
        elif form == "anon":
            el = sa.bindparam(None, v)
        elif form == "tagged":
            c.features.add("processor")
            el = sa.bindparam(self._name(), v, type_=self.env.Tagged)
        elif form == "named_val":
            kw = {}
            if allow_litexec and not plain and r.random() < 0.15:
                kw["literal_execute"] = True
                c.features.add("literal_execute")
            el = sa.bindparam(self._name(litexec=bool(kw)), v, **kw)
        else:
            nm = self._name()
            el = sa.bindparam(nm, v, type_=sa.Integer) if self.embed else sa.bindparam(nm, type_=sa.Integer)
            c.exec_params[nm] = v
        self.int_binds.append(el)
        return el

    def bs(self, like=False):
        sa, r, c = self.sa, self.r, self.case
        c.nbinds += 1
        v = self.al.like() if like else self.al.str()
        form = r.choice(["literal", "named_val", "named_exec"])
        if form == "literal":
            return sa.literal(v)
        if form == "named_val":
            return sa.bindparam(self._name(), v)
        nm = self._name()
        c.exec_params[nm] = v
        return sa.bindparam(nm, v, type_=sa.String) if self.embed else sa.bindparam(nm, type_=sa.String)

    # ---- SELECT pieces ----------------------------------------------
    def term(self, T, depth=0, force=None):
        sa, r, c, u = self.sa, self.r, self.case, self.env.u.alias("ux")
        avals = [row[1] for row in T_ROWS]
        k = r.choice(["gt", "lt", "between", "in_anon", "in_named", "in_empty", "in_tuple", "str_ne",
                      "like", "subq_in", "exists", "gt", "in_anon", "in_named", "in_litexec"])
        if force is not None:
            k = force
        if k == "gt":
            return T.c.a > self.bi("a")
        if k == "lt":
            return T.c.b < self.bi("b")
        if k == "between":
            return T.c.a.between(self.bi("a"), self.bi("a"))
        if k in ("in_anon", "in_named", "in_litexec"):
            c.features.add("expanding")
            vals = self.al.pick(avals, r.randint(1, 5)) + [self.al.int("a") for _ in range(r.randint(0, 3))]
            r.shuffle(vals)
            c.nbinds += len(vals)
            neg = r.random() < 0.3
            if k == "in_anon":
                return T.c.a.not_in(vals) if neg else T.c.a.in_(vals)
            nm = self._name(litexec=(k == "in_litexec"))
            if k == "in_litexec":
                c.features.add("literal_execute")
                bp = sa.bindparam(nm, vals, expanding=True, literal_execute=True)
            elif r.random() < 0.5:
                bp = sa.bindparam(nm, vals, expanding=True)
            else:
                bp = sa.bindparam(nm, vals, expanding=True, type_=sa.Integer) if self.embed else sa.bindparam(nm, expanding=True, type_=sa.Integer)
                c.exec_params[nm] = vals
            return T.c.a.not_in(bp) if neg else T.c.a.in_(bp)
        if k == "in_empty":
            c.features.add("expanding")
            return T.c.a.not_in([])
        if k == "in_tuple":
            c.features.add("expanding")
            c.features.add("tuple_in")
            rows = r.sample(T_ROWS, r.randint(1, 3))
            pairs = []
            for row in rows:
                got = self.al.pick([row[1]], 1)
                if got:
                    b = row[2] if row[2] not in self.al.used else None
                    if b is not None:
                        self.al.pick([b], 1)
                        pairs.append((row[1], b))
            pairs.append((self.al.int("a"), self.al.int("b")))
            c.nbinds += 2 * len(pairs)
            return sa.tuple_(T.c.a, T.c.b).in_(pairs)
        if k == "str_ne":
            return T.c.s != self.bs()
        if k == "like":
            e = T.c.s.like(self.bs(like=True))
            return ~e if r.random() < 0.3 else e
        if k == "subq_in":
            c.features.add("subquery")
            return T.c.id.in_(sa.select(u.c.tid).where(u.c.x < self.bi("x")))
        c.features.add("subquery")
        return sa.exists().where(u.c.tid == T.c.id, u.c.x > self.bi("x"))

    def where(self, T, n=None):
        sa, r = self.sa, self.r
        n = n if n is not None else r.randint(1, 4)
        terms = [self.term(T) for _ in range(n)]
        if len(terms) >= 3 and r.random() < 0.5:
            return sa.and_(terms[0], sa.or_(*terms[1:]))
        if len(terms) >= 2 and r.random() < 0.3:
            return sa.or_(*terms)
        return sa.and_(*terms)

    def colexprs(self, T, n):
        sa, r, c, u = self.sa, self.r, self.case, self.env.u.alias("uy")
        out = []
        for i in range(n):
            k = r.choice(["add", "bind", "sbind", "case", "scalar", "coalesce", "tagged", "concat"])
            if k == "add":
                e = T.c.a + self.bi()
            elif k == "bind":
                e = self.bi(allow_litexec=False)
            elif k == "sbind":
                e = self.bs()
            elif k == "case":
                e = sa.case((T.c.a > self.bi("a"), self.bi()), else_=self.bi())
            elif k == "scalar":
                c.features.add("subquery")
                e = sa.select(sa.func.count(u.c.id) + self.bi()).where(u.c.tid == T.c.id, u.c.x > self.bi("x")).scalar_subquery()
            elif k == "coalesce":
                e = sa.func.coalesce(sa.null(), self.bi(), self.bi())
            elif k == "tagged":
                c.features.add("processor")
                c.nbinds += 1
                v = self.al.int("free", tagged=True)
                e = T.c.b - T.c.b + sa.type_coerce(sa.bindparam(None, v), self.env.Tagged)
            else:
                e = T.c.s + self.bs()
            out.append(e.label("e%d" % i))
        return out

    def limit_offset(self, stmt):
        sa, r, c = self.sa, self.r, self.case
        k = r.choice(["none", "none", "limit", "both", "both_bp", "both_litexec"])
        if k == "none":
            return stmt
        c.features.add("limit")
        if k == "limit":
            c.nbinds += 1
            return stmt.limit(self.al.small())
        c.nbinds += 2
        lim, off = self.al.small(), self.al.small() % 4
        self.al.note(off)
        if k == "both":
            return stmt.limit(lim).offset(off)
        if k == "both_bp":
            return stmt.limit(sa.bindparam(self._name(), lim)).offset(sa.bindparam(self._name(), off))
        c.features.add("literal_execute")
        return stmt.limit(sa.bindparam(self._name(True), lim, literal_execute=True)).offset(
            sa.bindparam(self._name(True), off, literal_execute=r.random() < 0.5))

    def source(self):
        """table t, or a CTE / subquery over t that itself carries binds"""
        sa, r, c, t = self.sa, self.r, self.case, self.env.t
        k = r.choice(["t", "t", "cte", "subq"])
        if k == "t":
            return t
        x = self.bi(allow_reuse=False)
        c.features.add("repeated_bind")
        inner = sa.select(t.c.id, (t.c.a + x - x).label("a"), t.c.b, t.c.s, t.c.g).where(self.where(t, r.randint(1, 2)))
        if k == "cte":
            c.features.add("cte")
            return inner.cte("c1")
        c.features.add("subquery")
        return inner.subquery("sq")

    # ---- statement kinds ----------------------------------------------
    def probe(self):
        sa, r, c, t = self.sa, self.r, self.case, self.env.t
        c.kind = "probe"
        n = r.randint(2, 12)
        vals, cols = [], []
        for i in range(n):
            if r.random() < 0.3:
                e = self.bs()
            else:
                e = self.bi(allow_reuse=False, allow_litexec=True)
            v = e.value if e.value is not None else c.exec_params[e.key]
            if isinstance(e.type, self.env.Tagged):
                v += TAG
            vals.append(v)
            cols.append(e.label("c%d" % i))
        c.expected_rows = [tuple(vals)]
        stmt = sa.select(*cols)
        if r.random() < 0.5:
            rid = self.al.pick([row[0] for row in T_ROWS], 1)[0]
            c.nbinds += 1
            stmt = stmt.where(t.c.id == rid)
        c.stmt = stmt
        return c

    def select(self):
        sa, r, c, u = self.sa, self.r, self.case, self.env.u
        T = self.source()
        shape = r.choice(["plain", "plain", "group", "join", "union"])
        c.kind = "select-" + shape
        if shape == "plain":
            cols = [T.c.id] + self.colexprs(T, r.randint(1, 4))
            stmt = sa.select(*cols).where(self.where(T))
            ob = []
            if r.random() < 0.4:
                ob.append(sa.func.abs(T.c.a - self.bi("a")))
            stmt = self.limit_offset(stmt.order_by(*ob, T.c.id))
        elif shape == "group":
            stmt = (
                sa.select(T.c.g, (sa.func.sum(T.c.a) + self.bi()).label("sm"), sa.func.count().label("n"))
                .where(self.where(T, r.randint(1, 2)))
                .group_by(T.c.g)
                .having(sa.func.sum(T.c.a) > self.bi("a"))
                .order_by(T.c.g)
            )
        elif shape == "join":
            on = sa.and_(u.c.tid == T.c.id, u.c.x > self.bi("x"))
            stmt = (
                sa.select(T.c.id, u.c.id.label("uid"), (u.c.x + self.bi()).label("e0"))
                .select_from(T.join(u, on, isouter=r.random() < 0.4))
                .where(self.where(T, r.randint(1, 2)))
                .order_by(T.c.id, u.c.id)
            )
            stmt = self.limit_offset(stmt)
        else:
            c.features.add("union")
            s1 = sa.select(T.c.id, (T.c.a + self.bi()).label("e")).where(self.where(T, r.randint(1, 2)))
            s2 = sa.select(T.c.id, (T.c.b + self.bi()).label("e")).where(self.where(T, r.randint(1, 2)))
            stmt = sa.union_all(s1, s2).order_by("id", "e")
            stmt = self.limit_offset(stmt)
        c.stmt = stmt
        return c

    def shared_subquery(self):
        """one subquery / CTE carrying expanding parameters (scalar and tuple IN), referenced by both
        branches of a UNION: every one of its binds is rendered twice"""
        sa, r, c, t = self.sa, self.r, self.case, self.env.t
        c.kind = "select-shared-subquery"
        c.features.update({"union", "repeated_bind"})
        conds = [self.term(t, force=r.choice(["in_tuple", "in_tuple", "in_anon", "in_named"])), self.term(t, force=r.choice(["in_anon", "gt", "between"]))]
        inner = sa.select(t.c.id, t.c.a, t.c.b).where(sa.or_(*conds) if r.random() < 0.5 else sa.and_(*conds))
        if r.random() < 0.5:
            c.features.add("cte")
            T = inner.cte("shared")
        else:
            c.features.add("subquery")
            T = inner.subquery("shared")
        s1 = sa.select(T.c.id, (T.c.a + self.bi()).label("e"))
        s2 = sa.select(T.c.id, (T.c.b + self.bi()).label("e")).where(T.c.a > self.bi("a"))
        c.stmt = sa.union_all(s1, s2).order_by("id", "e")
        return c

    def text(self):
        sa, r, c = self.sa, self.r, self.case
        c.kind = "text"
        c.features.add("text")
        names = ["tp%d" % i for i in range(r.randint(2, 6))]
        vals = {}
        sel = []
        for i, nm in enumerate(names[:-2] or names[:1]):
            sel.append(":%s AS c%d" % (nm, i))
        conds = ["t.a > :%s" % names[-1]]
        if len(names) >= 3:
            conds.append("t.b != :%s" % names[-2])
        if r.random() < 0.5:
            conds.append("t.a + 1 > :%s" % names[-1])
            c.features.add("repeated_bind")
        pct = r.random() < 0.5
        sql = "SELECT t.id, %s%s FROM t WHERE %s ORDER BY t.id" % (
            ", ".join(sel), ", 'p%q?' AS lit" if pct else "", " AND ".join(conds))
        bps = []
        for nm in names:
            used = (":%s " % nm) in sql + " "
            if not used:
                continue
            c.nbinds += 1
            v = self.al.int("a" if nm == names[-1] else "free")
            if r.random() < 0.5:
                bps.append(sa.bindparam(nm, v))
            else:
                c.exec_params[nm] = v
                bps.append(sa.bindparam(nm, v, type_=sa.Integer) if self.embed else sa.bindparam(nm, type_=sa.Integer))
        c.stmt = sa.text(sql).bindparams(*bps)
        return c

    def _returning(self, stmt, table, flag):
        if not flag:
            self.case.returns_rows = False
            return stmt
        self.case.features.add("returning")
        self.case.ordered = False
        # plain binds only: literal_binds does not reach RETURNING, the reference resolves these by name
        return stmt.returning(table.c.id, (table.c.a + self.bi(plain=True, allow_reuse=False)).label("r0"),
                              self.bi(plain=True, allow_reuse=False).label("r1"))

    def insert(self):
        sa, r, c, t = self.sa, self.r, self.case, self.env.t
        c.kind = "insert"
        multi = r.random() < 0.3
        rows = []
        for _ in range(r.randint(2, 3) if multi else 1):
            row = {"id": None, "a": None, "b": None, "s": None, "g": None}
            row["id"] = self.al.int("newid")
            c.nbinds += 1
            if r.random() < 0.5 and not multi:
                row["id"] = sa.bindparam(self._name(), row["id"])
            row["a"] = self.bi("a", plain=True) + self.bi(plain=True) if r.random() < 0.4 else self.bi("a", plain=True)
            row["b"] = self.bi("b", plain=True)
            row["s"] = self.bs()
            if r.random() < 0.5:
                row["g"] = self.bi("g", plain=True)
            else:
                del row["g"]
            items = list(row.items())
            r.shuffle(items)
            rows.append(dict(items))
        if multi:
            keys = set(rows[0])
            rows = [{k: v for k, v in row.items() if k in keys} for row in rows]
            for row in rows:
                for k in keys:
                    row.setdefault(k, self.bi(plain=True))
            c.features.add("multivalues")
            stmt = sa.insert(t).values(rows)
        else:
            stmt = sa.insert(t).values(rows[0])
        c.stmt = self._returning(stmt, t, self.caps.get("insert_returning", True) and r.random() < 0.6)
        return c

    def update(self):
        sa, r, c, t = self.sa, self.r, self.case, self.env.t
        c.kind = "update"
        vals = [(t.c.a, t.c.a + self.bi()), (t.c.s, self.bs()), (t.c.b, self.bi("b"))]
        r.shuffle(vals)
        vals = vals[: r.randint(1, 3)]
        stmt = sa.update(t).where(self.where(t, r.randint(1, 3)))
        if r.random() < 0.3:
            c.features.add("ordered_values")
            stmt = stmt.ordered_values(*vals)
        else:
            stmt = stmt.values({k.name: v for k, v in vals})
        c.stmt = self._returning(stmt, t, self.caps.get("update_returning", True) and r.random() < 0.6)
        return c

    def delete(self):
        sa, r, c, t = self.sa, self.r, self.case, self.env.t
        c.kind = "delete"
        stmt = sa.delete(t).where(self.where(t, r.randint(1, 3)))
        c.stmt = self._returning(stmt, t, self.caps.get("delete_returning", True) and r.random() < 0.6)
        return c

    def insert_from_select(self):
        sa, r, c, t, u = self.sa, self.r, self.case, self.env.t, self.env.u
        c.kind = "insert-from-select"
        c.tables = ("t", "u")
        c.returns_rows = False
        sel = sa.select(t.c.id + self.bi("newid", allow_reuse=False, allow_litexec=False), t.c.id, t.c.a + self.bi(), self.bs()).where(self.where(t, r.randint(1, 2)))
        c.stmt = sa.insert(u).from_select(["id", "tid", "x", "y"], sel)
        return c

    def executemany_insert(self):
        sa, r, c, t = self.sa, self.r, self.case, self.env.t
        c.kind = "executemany-insert"
        c.features.add("executemany")
        n = r.randint(2, 9)
        named = r.random() < 0.5
        two = named and r.random() < 0.6
        # "a2": the second bind's name has the first one's name as a prefix
        n2 = "a2" if r.random() < 0.5 else "z"
        if two and n2 == "a2":
            c.features.add("prefix_names")
        # ---- binds outside VALUES of an insertmanyvalues statement: ON CONFLICT .. SET / WHERE, an
        # independent CTE (add_cte), a SELECT CTE referenced from a scalar subquery inside VALUES
        dname = self.caps.get("name", "sqlite")
        if dname == "sqlite":
            from sqlalchemy.dialects.sqlite import insert as I
        elif dname == "postgresql":
            from sqlalchemy.dialects.postgresql import insert as I
        else:
            I = sa.insert
        upsert = I is not sa.insert and r.random() < 0.3
        indep_cte = r.random() < 0.25
        cte_in_values = named and r.random() < 0.15
        u = self.env.u
        fixed = {k: self.al.int("free") for k in ("ub_", "cx_", "cv_")}
        fixed["uw_"] = self.al.int("a")
        fixed["us_"] = self.al.str()
        existing = self.al.pick([row[0] for row in T_ROWS], 3) if upsert else []
        rows = []
        for _ in range(n):
            row = {"id": self.al.int("newid"), "a": self.al.int("a"), "b": self.al.int("b"), "s": self.al.str(), "g": self.al.int("g")}
            if existing and r.random() < 0.5:
                row["id"] = existing.pop()      # conflicts with a stored row: DO UPDATE
            if two:
                row[n2] = self.al.int("free")
            c.nbinds += len(row)
            rows.append(row)
        if named:
            pfx = r.choice(["p_", "q.", "r "])
            if pfx != "p_":
                c.features.add("escaped_name")
            order = ["id", "a", "b", "s", "g"]
            r.shuffle(order)

            def mk(row=None):
                def P(k, ty):
                    return sa.bindparam(pfx + k, type_=ty) if row is None else sa.bindparam(pfx + k, row[pfx + k], type_=ty)

                a_expr = P("a", sa.Integer)
                if two:
                    a_expr = a_expr + P(n2, sa.Integer)
                b_expr = P("b", sa.Integer)
                if cte_in_values:
                    vc = sa.select(u.c.id).where(u.c.x > sa.bindparam("cv_", fixed["cv_"])).cte("vc")
                    b_expr = b_expr + sa.select(sa.func.count()).select_from(vc).scalar_subquery()
                vd = {"id": P("id", sa.Integer), "a": a_expr, "b": b_expr, "s": P("s", sa.String), "g": P("g", sa.Integer)}
                return I(t).values({k: vd[k] for k in order})

            stmt = mk()
            rows = [{pfx + k: v for k, v in row.items()} for row in rows]
            c.ref_rows = mk
        else:
            stmt = I(t)
            rows = [dict(r.sample(list(row.items()), len(row))) for row in rows]
            c.ref_rows = lambda row, stmt=stmt: stmt.values(row)

        def post_values(st):
            if upsert:
                st = st.on_conflict_do_update(
                    index_elements=[t.c.id],
                    set_={"s": sa.bindparam("us_", fixed["us_"]), "b": st.excluded.b + sa.bindparam("ub_", fixed["ub_"])},
                    where=(t.c.a != sa.bindparam("uw_", fixed["uw_"])))
            if indep_cte:
                st = st.add_cte(sa.select(u.c.id).where(u.c.x > sa.bindparam("cx_", fixed["cx_"])).cte("ic"))
            return st

        if upsert:
            c.features.add("upsert")
            c.nbinds += 3
        if indep_cte:
            c.features.add("independent_cte")
            c.nbinds += 1
        if cte_in_values:
            c.features.add("cte_in_values")
            c.nbinds += 1
        if upsert or indep_cte:
            stmt = post_values(stmt)
            base0 = c.ref_rows
            c.ref_rows = lambda row, base0=base0: post_values(base0(row))
        c.multi = rows
        ret = self.caps.get("insert_returning", True) and r.random() < 0.6
        if ret:
            c.features.add("returning")
            # sort_by_parameter_order with the PK delivered through a differently named bind trips an
            # internal assertion in _deliver_insertmanyvalues_batches (sentinel bookkeeping; C12's domain)
            c.ordered = r.random() < 0.5 and not named and not upsert
            k1, k2 = self.al.int("free"), self.al.int("free")
            c.nbinds += 2
            stmt = stmt.returning(t.c.id, (t.c.a + sa.bindparam("k1_", k1)).label("r0"), sa.bindparam("k2_", k2).label("r1"),
                                  sort_by_parameter_order=c.ordered)
            base = c.ref_rows
            c.ref_rows = lambda row, base=base, k1=k1, k2=k2: base(row).returning(
                t.c.id, (t.c.a + sa.bindparam("k1_", k1)).label("r0"), sa.bindparam("k2_", k2).label("r1"))
        else:
            c.returns_rows = False
        c.stmt = stmt
        return c

    def executemany_update(self):
        sa, r, c, t = self.sa, self.r, self.case, self.env.t
        delete = r.random() < 0.3
        c.kind = "executemany-delete" if delete else "executemany-update"
        c.features.add("executemany")
        c.returns_rows = False
        ids = r.sample([row[0] for row in T_ROWS], r.randint(2, 6))
        pfx = r.choice(["p_", "q.", "r[", "w%"])
        if pfx != "p_":
            c.features.add("escaped_name")
        rows = []
        for i in ids:
            self.al.pick([i], 1)
            row = {pfx + "id": i, pfx + "lim": self.al.int("free")}
            if not delete:
                row[pfx + "a"] = self.al.int("a")
                row[pfx + "s"] = self.al.str()
            c.nbinds += len(row)
            rows.append(dict(r.sample(list(row.items()), len(row))))
        fixed = self.al.int("free")
        c.nbinds += 1
        fy = self.al.int("free")
        c.nbinds += 1

        def mk(row=None):
            def P(k, ty):
                return sa.bindparam(pfx + k, type_=ty) if row is None else sa.bindparam(pfx + k, row[pfx + k], type_=ty)

            cond = sa.and_(t.c.id == P("id", sa.Integer), t.c.a < P("lim", sa.Integer) + sa.bindparam("fx", fixed))
            if delete:
                return sa.delete(t).where(cond)
            return sa.update(t).where(cond).values(s=P("s", sa.String), a=P("a", sa.Integer) + sa.bindparam("fy", fy))

        c.stmt = mk()
        c.multi = rows
        c.ref_rows = mk
        return c

    def build(self, kind):
        c = getattr(self, kind)()
        return c


KINDS = ["probe", "select", "select", "select", "select", "shared_subquery", "text", "insert", "update", "delete",
         "insert_from_select", "executemany_insert", "executemany_insert", "executemany_update"]
