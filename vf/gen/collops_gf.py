"""Lock-step drivers for the utility collections (used by C54 and C55).

One *operation descriptor* (JSON-able, elements referenced by universe index) is applied
to the same-shaped object on every *side*; each application yields a normalised
observation (return value / exception type / identity facts) and a snapshot of the
subject afterwards.  C54 uses sides (real, model); C55 uses sides (compiled .so, .py).

Nothing here judges: callers compare the records.
"""
from __future__ import annotations

import collections
import copy
import operator
import pickle
import types

SENTINEL = "__vf_sentinel__"


class Side:
    def __init__(self, name, OrderedSet=None, IdentitySet=None, immutabledict=None, is_model=False):
        self.name = name
        self.OrderedSet = OrderedSet
        self.IdentitySet = IdentitySet
        self.immutabledict = immutabledict
        self.is_model = is_model


def model_side():
    from vf.models.collections_gf import MIdentitySet, MImmutableDict, MOrderedSet

    return Side("model", MOrderedSet, MIdentitySet, MImmutableDict, is_model=True)


def exc_obs(e):
    return ("exc", type(e).__name__)


class Canon:
    """element -> universe index (first equal element for hashables, identity otherwise)."""

    def __init__(self, U, by_identity=False):
        self.U = U
        self.by_identity = by_identity
        self.ids = {id(e): i for i, e in enumerate(U)}
        self.eq = {}
        if not by_identity:
            for i, e in enumerate(U):
                try:
                    self.eq.setdefault(e, i)
                except TypeError:
                    pass

    def __call__(self, e):
        if not self.by_identity:
            try:
                if e in self.eq:
                    return self.eq[e]
            except TypeError:
                pass
        if id(e) in self.ids:
            return self.ids[id(e)]
        if isinstance(e, str) and e == SENTINEL:
            return -1
        return ("?", repr(e)[:40])


# ======================================================================== OrderedSet
OS_KINDS_ANY = ("list", "tuple", "gen", "set", "frozenset", "dict", "dictkeys", "oset", "self")
OS_KINDS_SET = ("set", "frozenset", "dictkeys", "oset", "self")
OS_METHODS_N = ("union", "update", "intersection", "intersection_update", "difference", "difference_update")
OS_METHODS_1 = ("symmetric_difference", "symmetric_difference_update")
OS_OPS = {"|": operator.or_, "&": operator.and_, "-": operator.sub, "^": operator.xor, "+": operator.add}
OS_IOPS = {"|=": operator.ior, "&=": operator.iand, "-=": operator.isub, "^=": operator.ixor}


def os_arg(side, subject, U, desc):
    kind, idxs = desc
    elems = [U[i] for i in idxs]
    if kind == "list":
        return list(elems)
    if kind == "tuple":
        return tuple(elems)
    if kind == "gen":
        return (e for e in elems)
    if kind == "set":
        return set(elems)
    if kind == "frozenset":
        return frozenset(elems)
    if kind == "dict":
        return dict.fromkeys(elems, 1)
    if kind == "dictkeys":
        return dict.fromkeys(elems, 1).keys()
    if kind == "oset":
        return side.OrderedSet(elems)
    if kind == "self":
        return subject
    raise ValueError(kind)


def os_snap(side, s, canon):
    lst = [canon(e) for e in s]
    if side.is_model:
        view = sorted(set(map(repr, lst)))
        n = len(s)
    else:
        view = sorted({repr(canon(e)) for e in set.__iter__(s)})
        n = set.__len__(s)
    return {"list": lst, "view": view, "len": n}


def os_invariant_ok(snap):
    lst = snap["list"]
    reprs = [repr(x) for x in lst]
    return len(set(reprs)) == len(reprs) == snap["len"] and sorted(reprs) == snap["view"]


def os_apply(side, st, op, U, canon):
    """apply one op to st['s']; returns (observation, snapshot_after)."""
    s = st["s"]
    kind = op[0]
    obs = None
    try:
        if kind == "add":
            obs = ("ret", s.add(U[op[1]]))
        elif kind == "remove":
            obs = ("ret", s.remove(U[op[1]]))
        elif kind == "discard":
            obs = ("ret", s.discard(U[op[1]]))
        elif kind == "pop":
            obs = ("el", canon(s.pop()))
        elif kind == "insert":
            obs = ("ret", s.insert(op[1], U[op[2]]))
        elif kind == "clear":
            obs = ("ret", s.clear())
        elif kind == "getitem":
            obs = ("el", canon(s[op[1]]))
        elif kind == "contains":
            obs = ("bool", U[op[1]] in s)
        elif kind == "len":
            obs = ("int", len(s))
        elif kind in ("copy", "m", "op"):
            if kind == "copy":
                r = s.copy()
            elif kind == "m":
                args = [os_arg(side, s, U, d) for d in op[2]]
                r = getattr(s, op[1])(*args)
            else:
                r = OS_OPS[op[1]](s, os_arg(side, s, U, op[2]))
            if r is None:
                obs = ("ret", None)
            elif isinstance(r, side.OrderedSet):
                rs = os_snap(side, r, canon)
                fresh = r is not s
                if fresh:
                    r.add(SENTINEL)  # an aliased result would now corrupt the subject
                obs = ("coll", type(r) is side.OrderedSet, fresh, rs["list"],
                       True if side.is_model else os_invariant_ok(rs))
            else:
                obs = ("other", type(r).__name__)
        elif kind == "iop":
            r = OS_IOPS[op[1]](s, os_arg(side, s, U, op[2]))
            obs = ("inplace", r is s)
            if isinstance(r, side.OrderedSet):
                st["s"] = r
        else:
            raise AssertionError(op)
    except (KeyError, IndexError, TypeError, ValueError, AttributeError) as e:
        obs = exc_obs(e)
    return obs, os_snap(side, st["s"], canon)


def os_sequence(sides, U, init, ops):
    """yield (op, [(obs, snap) per side]); init: list of universe indices (insertion order)."""
    canon = Canon(U)
    sts = [{"s": sd.OrderedSet([U[i] for i in init])} for sd in sides]
    yield ["init", init], [(("ret", None), os_snap(sd, st["s"], canon)) for sd, st in zip(sides, sts)]
    for op in ops:
        yield op, [os_apply(sd, st, op, U, canon) for sd, st in zip(sides, sts)]


def os_alphabet(nU, arg_seqs, kinds_any=OS_KINDS_ANY, kinds_set=OS_KINDS_SET, positions=(0, 1, -1, 5),
                multi=True):
    """Every single operation over a universe of nU elements and the given argument
    element sequences (tuples of universe indices, duplicates allowed)."""
    ops = []
    for i in range(nU):
        ops += [["add", i], ["remove", i], ["discard", i], ["contains", i]]
        for p in positions:
            ops.append(["insert", p, i])
    ops += [["pop"], ["clear"], ["copy"], ["len"]]
    for p in (0, 1, 2, -1, 3, -4):
        ops.append(["getitem", p])
    for m in OS_METHODS_N:
        ops.append(["m", m, []])
    for seq in arg_seqs:
        seq = list(seq)
        for k in kinds_any:
            if k == "self" and seq:
                continue
            d = [k, seq]
            for m in OS_METHODS_N + OS_METHODS_1:
                ops.append(["m", m, [d]])
        for k in kinds_set:
            if k == "self" and seq:
                continue
            d = [k, seq]
            for sym in OS_OPS:
                ops.append(["op", sym, d])
            for sym in OS_IOPS:
                ops.append(["iop", sym, d])
    if multi:
        two = [s for s in arg_seqs if len(s) <= 2]
        for a in two:
            for b in two:
                for m in OS_METHODS_N:
                    ops.append(["m", m, [["list", list(a)], ["set", list(b)]]])
    return ops


def os_random_op(rng, nU, hashable_n=None, maxarg=5):
    """one random op over universe indices [0, nU); indices >= hashable_n (if given) are
    unhashable elements, used only by element-level ops."""
    hn = nU if hashable_n is None else hashable_n
    r = rng.random()
    if r < 0.3:
        k = rng.choice(["add", "add", "remove", "discard", "contains", "insert"])
        i = rng.randrange(nU if rng.random() < 0.1 else hn)
        if k == "insert":
            return ["insert", rng.choice([0, 1, 2, -1, -2, 9]), rng.randrange(hn)]
        return [k, i]
    if r < 0.4:
        return rng.choice([["pop"], ["copy"], ["len"], ["getitem", rng.randint(-4, 4)], ["clear"]] + [["pop"]] * 2)

    def arg(kinds):
        k = rng.choice(kinds)
        if k == "self":
            return ["self", []]
        n = rng.randint(0, maxarg)
        return [k, [rng.randrange(hn) for _ in range(n)]]

    if r < 0.75:
        m = rng.choice(OS_METHODS_N + OS_METHODS_1 * 3)
        if m in OS_METHODS_1:
            return ["m", m, [arg(OS_KINDS_ANY)]]
        return ["m", m, [arg(OS_KINDS_ANY) for _ in range(rng.choice([0, 1, 1, 1, 2, 3]))]]
    if r < 0.88:
        return ["op", rng.choice(list(OS_OPS)), arg(OS_KINDS_SET)]
    return ["iop", rng.choice(list(OS_IOPS)), arg(OS_KINDS_SET)]


# ======================================================================= IdentitySet
IS_KINDS = ("list", "tuple", "gen", "iset", "self", "dictvalues")
IS_METHODS = ("union", "update", "difference", "difference_update", "intersection", "intersection_update",
              "symmetric_difference", "symmetric_difference_update", "issubset", "issuperset")
IS_OPS = {"|": operator.or_, "&": operator.and_, "-": operator.sub, "^": operator.xor,
          "<=": operator.le, "<": operator.lt, ">=": operator.ge, ">": operator.gt,
          "==": operator.eq, "!=": operator.ne}
IS_IOPS = {"|=": operator.ior, "&=": operator.iand, "-=": operator.isub, "^=": operator.ixor}


class Hostile:
    """equal to everything, constant hash: only identity can tell instances apart."""

    __slots__ = ("n",)

    def __init__(self, n):
        self.n = n

    def __eq__(self, other):
        return True

    def __ne__(self, other):
        return False

    def __hash__(self):
        return 7

    def __repr__(self):
        return f"H{self.n}"


def is_arg(side, subject, U, desc):
    kind, idxs = desc
    elems = [U[i] for i in idxs]
    if kind == "list":
        return list(elems)
    if kind == "tuple":
        return tuple(elems)
    if kind == "gen":
        return (e for e in elems)
    if kind == "iset":
        return side.IdentitySet(elems)
    if kind == "dictvalues":
        return {n: e for n, e in enumerate(elems)}.values()
    if kind == "self":
        return subject
    raise ValueError(kind)


def is_snap(side, s, canon):
    lst = [canon(e) for e in s]
    return {"ids": sorted(map(repr, lst)), "len": len(s), "nodup": len(set(map(repr, lst))) == len(lst),
            "order": lst}


def is_apply(side, st, op, U, canon, hint=None):
    s = st["s"]
    kind = op[0]
    popped = None
    try:
        if kind == "add":
            obs = ("ret", s.add(U[op[1]]))
        elif kind == "remove":
            obs = ("ret", s.remove(U[op[1]]))
        elif kind == "discard":
            obs = ("ret", s.discard(U[op[1]]))
        elif kind == "pop":
            if side.is_model and hint is not None:
                was = hint in s
                s.remove(hint)
                obs = ("popped-member", was)
            else:
                before = [id(e) for e in s]
                popped = s.pop()
                obs = ("popped-member", id(popped) in before)
        elif kind == "clear":
            obs = ("ret", s.clear())
        elif kind == "contains":
            obs = ("bool", U[op[1]] in s)
        elif kind == "len":
            obs = ("int", len(s))
        elif kind == "hash":
            obs = ("int", hash(s))
        elif kind == "ctor":
            r = side.IdentitySet(is_arg(side, s, U, op[1]))
            st["s"] = r
            obs = ("ret", None)
        elif kind in ("copy", "copy2", "m", "op"):
            if kind == "copy":
                r = s.copy()
            elif kind == "copy2":
                r = copy.copy(s)
            elif kind == "m":
                r = getattr(s, op[1])(is_arg(side, s, U, op[2]))
            else:
                r = IS_OPS[op[1]](s, is_arg(side, s, U, op[2]))
            if r is None:
                obs = ("ret", None)
            elif isinstance(r, bool):
                obs = ("bool", r)
            elif isinstance(r, side.IdentitySet):
                rs = is_snap(side, r, canon)
                fresh = r is not s
                if fresh:
                    r.add(SENTINEL)
                obs = ("coll", type(r) is side.IdentitySet, fresh, rs["ids"], rs["nodup"], rs["len"])
            else:
                obs = ("other", type(r).__name__)
        elif kind == "iop":
            r = IS_IOPS[op[1]](s, is_arg(side, s, U, op[2]))
            obs = ("inplace", r is s)
            if isinstance(r, side.IdentitySet):
                st["s"] = r
        else:
            raise AssertionError(op)
    except (KeyError, IndexError, TypeError, AttributeError) as e:
        obs = exc_obs(e)
    snap = is_snap(side, st["s"], canon)
    snap["popped"] = None if popped is None else canon(popped)  # C55 compares it, C54 ignores it
    return obs, snap, popped


def is_sequence(sides, U, init, ops, follow_pop=False):
    canon = Canon(U, by_identity=True)
    sts = [{"s": sd.IdentitySet([U[i] for i in init])} for sd in sides]
    yield ["init", init], [(("ret", None), is_snap(sd, st["s"], canon)) for sd, st in zip(sides, sts)]
    for op in ops:
        recs = []
        hint = None
        for sd, st in zip(sides, sts):
            obs, snap, popped = is_apply(sd, st, op, U, canon, hint=hint if follow_pop else None)
            if popped is not None and hint is None:
                hint = popped
            recs.append((obs, snap))
        yield op, recs


def is_alphabet(nU, arg_seqs):
    ops = []
    for i in range(nU):
        ops += [["add", i], ["remove", i], ["discard", i], ["contains", i]]
    ops += [["pop"], ["clear"], ["copy"], ["copy2"], ["len"], ["hash"]]
    for seq in arg_seqs:
        seq = list(seq)
        for k in IS_KINDS:
            if k == "self" and seq:
                continue
            d = [k, seq]
            ops.append(["ctor", d])
            for m in IS_METHODS:
                ops.append(["m", m, d])
            if k in ("iset", "self", "list"):
                for sym in IS_OPS:
                    ops.append(["op", sym, d])
                for sym in IS_IOPS:
                    ops.append(["iop", sym, d])
    return ops


def is_random_op(rng, nU, maxarg=5):
    r = rng.random()
    if r < 0.3:
        return [rng.choice(["add", "add", "remove", "discard", "contains"]), rng.randrange(nU)]
    if r < 0.4:
        return rng.choice([["pop"], ["pop"], ["copy"], ["copy2"], ["len"], ["hash"], ["clear"]])
    k = rng.choice(IS_KINDS + ("iset", "iset"))
    d = ["self", []] if k == "self" else [k, [rng.randrange(nU) for _ in range(rng.randint(0, maxarg))]]
    if r < 0.45:
        return ["ctor", d]
    if r < 0.75:
        return ["m", rng.choice(IS_METHODS), d]
    if r < 0.88:
        return ["op", rng.choice(list(IS_OPS)), d]
    return ["iop", rng.choice(list(IS_IOPS) + ["^="]), d]


# ===================================================================== immutabledict
IM_KINDS = ("dict", "imm", "none", "odict", "mproxy", "userdict", "empty_dict", "empty_imm", "self")
IM_KEYS = ["a", "b", "c", 1, (1, 2), None, "zz"]
# left operands of ``x | immutabledict`` whose own __or__ does not win (plain dicts): for
# OrderedDict / mappingproxy the *left* type decides the result, nothing to judge
IM_ROR_KINDS = ("dict", "imm", "empty_dict", "empty_imm", "self")
IM_MUTATORS = ("set", "del", "clear", "pop", "pop2", "popitem", "setdefault", "setdefault2", "update",
               "updatekw", "ior", "setattr")


def im_arg(side, subject, desc):
    kind, pairs = desc
    pairs = [(IM_KEYS[k], v) for k, v in pairs]
    if kind == "dict":
        return dict(pairs)
    if kind == "imm":
        return side.immutabledict(dict(pairs))
    if kind == "none":
        return None
    if kind == "odict":
        return collections.OrderedDict(pairs)
    if kind == "mproxy":
        return types.MappingProxyType(dict(pairs))
    if kind == "userdict":
        return collections.UserDict(dict(pairs))
    if kind == "empty_dict":
        return {}
    if kind == "empty_imm":
        return side.immutabledict()
    if kind == "self":
        return subject
    raise ValueError(kind)


def _poke(arg):
    """mutate a mutable argument after the call: a result aliasing it would change."""
    if isinstance(arg, (dict, collections.UserDict)) and not hasattr(arg, "union"):
        try:
            arg["__poked__"] = 1
        except TypeError:
            pass


def im_items(d):
    return sorted(((repr(k), repr(v)) for k, v in (d._d.items() if hasattr(d, "_d") else dict.items(d))))


def im_apply(side, st, op):
    s = st["s"]
    kind = op[0]
    K = IM_KEYS
    try:
        if kind == "set":
            s[K[op[1]]] = op[2]
            obs = ("ret", None)
        elif kind == "del":
            del s[K[op[1]]]
            obs = ("ret", None)
        elif kind == "clear":
            obs = ("ret", s.clear())
        elif kind == "pop":
            obs = ("val", repr(s.pop(K[op[1]])))
        elif kind == "pop2":
            obs = ("val", repr(s.pop(K[op[1]], 5)))
        elif kind == "popitem":
            obs = ("val", repr(s.popitem()))
        elif kind == "setdefault":
            obs = ("val", repr(s.setdefault(K[op[1]])))
        elif kind == "setdefault2":
            obs = ("val", repr(s.setdefault(K[op[1]], op[2])))
        elif kind == "update":
            obs = ("ret", s.update(im_arg(side, s, op[1]) or {}))
        elif kind == "updatekw":
            obs = ("ret", s.update(q=1))
        elif kind == "ior":
            r = operator.ior(s, im_arg(side, s, op[1]) or {})
            obs = ("inplace", r is s)
        elif kind == "setattr":
            s.foo = 1
            obs = ("ret", None)
        elif kind == "get":
            obs = ("val", repr(s.get(K[op[1]])), repr(s.get(K[op[1]], "dflt")))
        elif kind == "getitem":
            obs = ("val", repr(s[K[op[1]]]))
        elif kind == "contains":
            obs = ("bool", K[op[1]] in s)
        elif kind == "len":
            obs = ("int", len(s))
        elif kind == "views":
            obs = ("views", sorted(map(repr, s.keys())), sorted(map(repr, s.values())),
                   sorted(map(repr, s.items())), sorted(map(repr, iter(s))))
        elif kind == "copy":
            obs = ("same", s.copy() is s)
        elif kind == "dictcopy":
            if side.is_model:
                c = dict(s._d)
            else:
                c = dict(s)
            before = sorted((repr(k), repr(v)) for k, v in c.items())
            c["__poked__"] = 1
            obs = ("dictcopy", before)
        elif kind == "ctor":
            r = side.immutabledict(s._d if side.is_model else s)
            obs = ("imm", type(r) is side.immutabledict, im_items(r))
        elif kind == "pickle":
            if side.is_model:
                obs = ("imm", True, im_items(s))
            else:
                r = pickle.loads(pickle.dumps(s, op[1]))
                obs = ("imm", type(r) is side.immutabledict, im_items(r))
        elif kind in ("union", "merge_with", "or", "ror"):
            if kind in ("union", "merge_with"):
                args = [im_arg(side, s, d) for d in op[1]]
                r = getattr(s, kind)(*args)
            elif kind == "or":
                args = [im_arg(side, s, op[1])]
                r = s | args[0]
            else:
                args = [im_arg(side, s, op[1])]
                r = args[0] | s
            for a in args:
                _poke(a)
            if isinstance(r, side.immutabledict):
                obs = ("imm", type(r) is side.immutabledict, im_items(r))
                st["s"] = r
            else:
                obs = ("other", type(r).__name__)
        else:
            raise AssertionError(op)
    except (KeyError, TypeError, AttributeError) as e:
        obs = exc_obs(e)
    return obs, im_items(st["s"])


def im_sequence(sides, init_pairs, ops):
    sts = [{"s": sd.immutabledict({IM_KEYS[k]: v for k, v in init_pairs})} for sd in sides]
    yield ["init", init_pairs], [(("ret", None), im_items(st["s"])) for st in sts]
    for op in ops:
        yield op, [im_apply(sd, st, op) for sd, st in zip(sides, sts)]


def im_pairs_space():
    """small contents: subsets of 3 keys with values 1/2"""
    out = [[]]
    for k in range(3):
        out += [o + [[k, v]] for o in out for v in (1, 2)]
    return out


def im_alphabet(pairs_space):
    ops = []
    for k in range(4):
        ops += [["set", k, 9], ["del", k], ["pop", k], ["pop2", k], ["setdefault", k], ["setdefault2", k, 9],
                ["get", k], ["getitem", k], ["contains", k]]
    ops += [["clear"], ["popitem"], ["updatekw"], ["setattr"], ["len"], ["views"], ["copy"], ["dictcopy"],
            ["ctor"], ["pickle", 2], ["pickle", pickle.HIGHEST_PROTOCOL], ["union", []], ["merge_with", []]]
    descs = []
    for kind in IM_KINDS:
        if kind in ("none", "empty_dict", "empty_imm", "self"):
            descs.append([kind, []])
        else:
            for p in pairs_space:
                descs.append([kind, p])
    for d in descs:
        ops += [["update", d], ["ior", d], ["union", [d]], ["merge_with", [d]]]
        if d[0] in ("dict", "imm", "odict", "empty_dict", "empty_imm", "self", "mproxy"):
            ops.append(["or", d])
        if d[0] in IM_ROR_KINDS:
            ops.append(["ror", d])
    return ops, descs


def im_random_op(rng, descs):
    r = rng.random()
    if r < 0.3:
        k = rng.randrange(len(IM_KEYS) - 1)
        return rng.choice([["set", k, 9], ["del", k], ["pop", k], ["pop2", k], ["setdefault", k],
                           ["setdefault2", k, 9], ["get", k], ["getitem", k], ["contains", k], ["clear"],
                           ["popitem"], ["updatekw"], ["setattr"], ["update", rng.choice(descs)],
                           ["ior", rng.choice(descs)]])
    if r < 0.45:
        return rng.choice([["len"], ["views"], ["copy"], ["dictcopy"], ["ctor"], ["pickle", 2]])
    if r < 0.85:
        return [rng.choice(["union", "merge_with"]), [rng.choice(descs) for _ in range(rng.choice([0, 1, 1, 2, 3, 4]))]]
    d = rng.choice([x for x in descs if x[0] in IM_ROR_KINDS])
    return [rng.choice(["or", "ror"]), d]
