"""G-expr (group ga): typed expression-tree descriptions, a seeded generator, and two
builders that turn one description into SQLAlchemy constructs:

* ``build(tree, env)``            -- public operators only (what a user writes)
* ``build(tree, env, grouped=True)`` -- same operators, but *every* node (leaves included)
  is wrapped in ``Grouping`` before it is used as an operand, which disables the
  precedence-driven ``self_group`` decisions, associative flattening and negation
  rewriting on that side: the reference form the statement of C01 names.

A tree is a JSON-able nested list; the first element is the node kind:

  ["col", name]                      typed column of the fixture (see COLS)
  ["lit", type, value]               typed literal; value None = typed NULL bind
  ["bin", op, L, R]                  add sub mul truediv floordiv mod concat
                                     eq ne lt le gt ge isdistinct isnotdistinct
  ["neg", X]   ["not", X]
  ["and", [X...]]  ["or", [X...]]
  ["isnull", X, negated]             X.is_(None) / X.is_not(None)
  ["is", L, R, negated]              boolean L.is_(R) / L.is_not(R)
  ["between", X, LO, HI, negated]    X.between / X.not_between? (negated => ~X.between)
  ["like", X, PAT, esc, kind]        kind in like not_like ilike not_ilike
  ["in", X, [E...], negated]         IN over a list of expressions
  ["inlit", X, [v...], negated]      IN over python values (expanding bind)
  ["case", [[COND, VAL]...], ELSE|None]
  ["cast", X, type]
  ["subq", kind]                     fixed scalar subqueries over t2
  ["func", name, [X...]]             abs coalesce length lower upper
  ["const", "true"|"false"]          sql true()/false() (only under and/or/case-when)
  ["const", "pytrue"|"pyfalse"]      the Python constants True / False handed to and_()/or_()
                                     (only under and/or; the grouped form uses (true()) / (false()))
  and/or may have a single operand (``and_(x)``); ``Gen.folding`` produces the
  constant-folding shapes: conjunctions of plain boolean operands with neutral /
  absorbing constants, usually under NOT.

Types: "i" integer, "s" string, "b" boolean, "f" float (only produced by truediv /
cast to float; kept away from flattened + and * chains, see ``gen``).
"""
from __future__ import annotations

COLS = {"a": "i", "b": "i", "c": "i", "s": "s", "u": "s", "p": "b", "q": "b"}
INT_COLS = ["a", "b", "c"]
STR_COLS = ["s", "u"]
BOOL_COLS = ["p", "q"]

INT_VALUES = [None, -3, -1, 0, 1, 2, 7]
STR_VALUES = [None, "", "a", "A", "ab", "aB", "b", "%", "_", "3", "10", "-2", " 1", "a%b", "it's", "a_", "3x"]
BOOL_VALUES = [None, 0, 1]
INT_LITS = [-2, -1, 0, 1, 2, 3, 5]
STR_LITS = ["", "a", "A", "%", "_", "a%", "%b", "1", "-1", "it's", "x"]

ARITH = ("add", "sub", "mul", "truediv", "floordiv", "mod")
CMP = ("eq", "ne", "lt", "le", "gt", "ge")

# SQLAlchemy precedence levels of the operators used here (only for the
# non-triviality rule / coverage bookkeeping, never for a verdict)
LEVEL = {
    "mul": 8, "truediv": 8, "floordiv": 8, "mod": 8, "neg": 8, "add": 7, "sub": 7,
    "concat": 5, "eq": 5, "ne": 5, "lt": 5, "le": 5, "gt": 5, "ge": 5, "isdistinct": 5,
    "isnotdistinct": 5, "isnull": 5, "is": 5, "between": 5, "like": 5, "in": 5, "inlit": 5,
    "not": 5, "and": 3, "or": 2, "case": 20, "cast": 20, "func": 20, "subq": 20,
}

OPCLASS = {
    "add": "arith", "sub": "arith", "mul": "arith", "truediv": "arith", "floordiv": "arith",
    "mod": "arith", "neg": "neg", "concat": "concat", "eq": "cmp", "ne": "cmp", "lt": "cmp",
    "le": "cmp", "gt": "cmp", "ge": "cmp", "isdistinct": "cmp", "isnotdistinct": "cmp",
    "isnull": "isnull", "is": "is", "between": "between", "like": "like", "in": "in",
    "inlit": "in", "not": "not", "and": "and", "or": "or", "case": "case", "cast": "cast",
    "func": "func", "subq": "subq",
}


def opname(node):
    k = node[0]
    if k == "bin":
        return node[1]
    if k in ("col", "lit", "const"):
        return None
    return k


def children(node):
    """(child, role) pairs in rendering order."""
    k = node[0]
    if k in ("col", "lit", "subq", "const"):
        return []
    if k == "bin":
        return [(node[2], "L"), (node[3], "R")]
    if k in ("neg", "not"):
        return [(node[1], "U")]
    if k in ("and", "or"):
        return [(c, "L" if i == 0 else "R") for i, c in enumerate(node[1])]
    if k == "isnull":
        return [(node[1], "L")]
    if k == "is":
        return [(node[1], "L"), (node[2], "R")]
    if k == "between":
        return [(node[1], "L"), (node[2], "lo"), (node[3], "hi")]
    if k == "like":
        return [(node[1], "L"), (node[2], "R")]
    if k == "in":
        return [(node[1], "L")] + [(e, "elem") for e in node[2]]
    if k == "inlit":
        return [(node[1], "L")]
    if k == "case":
        out = []
        for c, v in node[1]:
            out += [(c, "when"), (v, "then")]
        if node[2] is not None:
            out.append((node[2], "else"))
        return out
    if k == "cast":
        return [(node[1], "arg")]
    if k == "func":
        return [(a, "arg") for a in node[2]]
    raise ValueError(k)


def walk(node):
    yield node
    for c, _ in children(node):
        yield from walk(c)


def ops(node):
    return [o for o in (opname(n) for n in walk(node)) if o]


def pairs(node):
    """(parent op, child op, role) for every internal edge."""
    out = []
    for n in walk(node):
        po = opname(n)
        if not po:
            continue
        for c, role in children(n):
            co = opname(c)
            if co:
                out.append((po, co, role))
    return out


def nontrivial(node):
    o = ops(node)
    lv = {LEVEL[x] for x in o if LEVEL[x] < 20}
    return len(lv) >= 2 or "not" in o or "neg" in o


def type_of(node):
    k = node[0]
    if k == "col":
        return COLS[node[1]]
    if k == "lit":
        return node[1]
    if k == "const":
        return "b"
    if k == "bin":
        op = node[1]
        if op in ("add", "sub", "mul", "mod", "floordiv"):
            lt, rt = type_of(node[2]), type_of(node[3])
            return "f" if "f" in (lt, rt) else "i"
        if op == "truediv":
            return "f"
        if op == "concat":
            return "s"
        return "b"
    if k == "neg":
        return type_of(node[1])
    if k in ("not", "and", "or", "isnull", "is", "between", "like", "in", "inlit"):
        return "b"
    if k == "case":
        return type_of(node[1][0][1])
    if k == "cast":
        return node[2]
    if k == "subq":
        return {"max_v": "i", "corr_a": "i", "min_w": "s", "corr_s": "s", "cnt": "i"}[node[1]]
    if k == "func":
        n = node[1]
        if n == "length":
            return "i"
        if n in ("lower", "upper"):
            return "s"
        return type_of(node[2][0])
    raise ValueError(k)


def has_float(node):
    return any(
        (n[0] == "bin" and n[1] == "truediv") or (n[0] == "cast" and n[2] == "f") or (n[0] == "lit" and n[1] == "f")
        for n in walk(node)
    )


def bound(node):
    """Static bound on |value| of an integer/float-typed node (keeps SQLite int64
    arithmetic away from overflow-to-float, which would make + / * non-associative)."""
    k = node[0]
    if k == "col":
        return 7
    if k == "lit":
        return abs(node[2]) if isinstance(node[2], (int, float)) and node[2] is not None else 1
    if k == "const":
        return 1
    if k == "bin":
        op = node[1]
        if op in ("add", "sub"):
            return bound(node[2]) + bound(node[3])
        if op == "mul":
            return bound(node[2]) * bound(node[3])
        if op in ("truediv", "floordiv"):
            return bound(node[2]) * 10  # divisor may be a fraction >= 0.1 in magnitude? keep generous
        if op == "mod":
            return max(bound(node[2]), bound(node[3]))
        return 1
    if k == "neg":
        return bound(node[1])
    if k == "case":
        bs = [bound(v) for _, v in node[1]]
        if node[2] is not None:
            bs.append(bound(node[2]))
        return max(bs)
    if k == "cast":
        return 10 ** 6 if type_of(node[1]) == "s" else bound(node[1])
    if k == "subq":
        return 100
    if k == "func":
        if node[1] == "length":
            return 64
        return max(bound(a) for a in node[2])
    return 1


LIMIT = 2 ** 40


class Gen:
    """Seeded generator of typed trees."""

    def __init__(self, rng, max_depth=3, features=None):
        self.rng = rng
        self.max_depth = max_depth
        self.features = features or set()

    # ---- leaves
    def leaf(self, t):
        r = self.rng
        if t == "i":
            if r.random() < 0.6:
                return ["col", r.choice(INT_COLS)]
            return ["lit", "i", r.choice(INT_LITS + [None] if r.random() < 0.15 else INT_LITS)]
        if t == "f":
            return ["bin", "truediv", ["col", r.choice(INT_COLS)], ["lit", "i", r.choice([2, 3, 5])]]
        if t == "s":
            if r.random() < 0.6:
                return ["col", r.choice(STR_COLS)]
            return ["lit", "s", r.choice(STR_LITS + [None] if r.random() < 0.15 else STR_LITS)]
        if t == "b":
            x = r.random()
            if x < 0.75:
                return ["col", r.choice(BOOL_COLS)]
            if x < 0.9:
                return ["bin", r.choice(CMP), ["col", r.choice(INT_COLS)], ["lit", "i", r.choice(INT_LITS)]]
            return ["lit", "b", r.choice([True, False, None])]
        raise ValueError(t)

    def gen(self, t, d=None):
        d = self.max_depth if d is None else d
        if d <= 0 or self.rng.random() < 0.12:
            return self.leaf(t)
        n = getattr(self, "gen_" + t)(d)
        if t in ("i", "f") and bound(n) > LIMIT:
            return self.leaf(t)
        return n

    def num(self, d):
        """int-or-float operand (float rarely)."""
        return self.gen("f" if self.rng.random() < 0.12 else "i", d)

    def gen_i(self, d):
        r = self.rng
        x = r.random()
        if x < 0.50:
            op = r.choice(("add", "add", "sub", "sub", "mul", "mul", "floordiv", "mod"))
            L, R = self.gen("i", d - 1), self.gen("i", d - 1)
            return ["bin", op, L, R]
        if x < 0.60:
            return ["neg", self.gen("i", d - 1)]
        if x < 0.70:
            return self.case("i", d)
        if x < 0.78:
            return ["cast", self.gen(r.choice("sbfi"), d - 1), "i"]
        if x < 0.86:
            return ["subq", r.choice(("max_v", "corr_a", "cnt"))]
        if x < 0.93:
            fn = r.choice(("abs", "coalesce", "length"))
            if fn == "abs":
                return ["func", "abs", [self.gen("i", d - 1)]]
            if fn == "length":
                return ["func", "length", [self.gen("s", d - 1)]]
            return ["func", "coalesce", [self.gen("i", d - 1), self.gen("i", d - 1)]]
        return self.leaf("i")

    def gen_f(self, d):
        r = self.rng
        x = r.random()
        if x < 0.5:
            return ["bin", "truediv", self.gen("i", d - 1), self.gen("i", d - 1)]
        if x < 0.8:
            # non-associative or un-nested use of a float operand
            op = r.choice(("sub", "add", "mul"))
            L, R = self.gen("f", d - 1), self.gen("i", d - 1)
            if r.random() < 0.5:
                L, R = R, L
            n = ["bin", op, L, R]
            return self._defloat_chain(n)
        if x < 0.9:
            return ["neg", self.gen("f", d - 1)]
        return ["cast", self.gen("i", d - 1), "f"]

    def _defloat_chain(self, n):
        """a float operand must never sit in a same-operator add/mul chain (those are
        flattened/re-associated by design; float addition is not associative)."""
        op = n[1]
        if op in ("add", "mul"):
            for i in (2, 3):
                c = n[i]
                if c[0] == "bin" and c[1] == op:
                    n[i] = ["neg", c] if type_of(c) != "s" else c
        return n

    def gen_s(self, d):
        r = self.rng
        x = r.random()
        if x < 0.45:
            L = self.gen("s", d - 1)
            # the right operand of || may be any type (SQLite / PG accept it)
            rt = r.choice(("s", "s", "s", "i", "i", "b"))
            R = self.gen(rt, d - 1)
            if r.random() < 0.25:
                return ["bin", "concat", self.gen(r.choice(("i", "s")), d - 1), L]
            return ["bin", "concat", L, R]
        if x < 0.60:
            return self.case("s", d)
        if x < 0.75:
            return ["cast", self.gen(r.choice("isb"), d - 1), "s"]
        if x < 0.83:
            return ["subq", r.choice(("min_w", "corr_s"))]
        if x < 0.93:
            fn = r.choice(("lower", "upper", "coalesce"))
            if fn == "coalesce":
                return ["func", "coalesce", [self.gen("s", d - 1), self.gen("s", d - 1)]]
            return ["func", fn, [self.gen("s", d - 1)]]
        return self.leaf("s")

    def case(self, t, d):
        r = self.rng
        whens = [[self.gen("b", d - 1), self.gen(t, d - 1)] for _ in range(r.choice((1, 1, 2)))]
        for w in whens:
            if r.random() < 0.1:
                w[0] = ["const", r.choice(("true", "false"))]
        else_ = self.gen(t, d - 1) if r.random() < 0.7 else None
        return ["case", whens, else_]

    def cmp_operands(self, d):
        r = self.rng
        t = r.choice(("i", "i", "i", "s", "s", "b", "f"))
        return t, self.gen(t, d - 1), self.gen(t, d - 1)

    def plain_bool(self, d):
        """a boolean-typed operand that is NOT an operator expression: column, bind,
        boolean-typed CASE, boolean function (these get the AsBoolean wrapper under AND/OR
        on backends without a native boolean)"""
        r = self.rng
        x = r.random()
        if x < 0.45:
            return ["col", r.choice(BOOL_COLS)]
        if x < 0.65:
            whens = [[self.gen("b", max(d - 1, 0)), ["col", r.choice(BOOL_COLS)]]]
            return ["case", whens, ["col", r.choice(BOOL_COLS)] if r.random() < 0.7 else None]
        if x < 0.85:
            return ["func", "coalesce", [["col", r.choice(BOOL_COLS)], ["col", r.choice(BOOL_COLS)]]]
        return ["lit", "b", r.choice([True, False, None])]

    def folding(self, d):
        """constant-folding shapes: and_/or_ over one or two plain boolean operands (or a
        generated one) plus neutral / absorbing constants in any position, also the
        single-operand conjunction; usually negated, sometimes doubly"""
        r = self.rng
        k = r.choice(("and", "or"))
        neutral = {"and": ("true", "pytrue"), "or": ("false", "pyfalse")}[k]
        absorbing = {"and": ("false", "pyfalse"), "or": ("true", "pytrue")}[k]
        kids = [self.plain_bool(d) if r.random() < 0.8 else self.gen("b", d - 1)]
        if r.random() < 0.25:
            kids.append(self.plain_bool(d) if r.random() < 0.6 else self.gen("b", d - 1))
        for _ in range(r.choice((0, 1, 1, 1, 2))):
            c = ["const", r.choice(neutral) if r.random() < 0.85 else r.choice(absorbing)]
            kids.insert(r.randrange(len(kids) + 1), c)
        n = [k, kids]
        x = r.random()
        if x < 0.65:
            n = ["not", n]
            if r.random() < 0.15:
                n = ["not", n]
        return n

    def gen_b(self, d):
        r = self.rng
        x = r.random()
        if r.random() < 0.09:
            return self.folding(d)
        if x < 0.22:
            t, L, R = self.cmp_operands(d)
            return ["bin", r.choice(CMP), L, R]
        if x < 0.36:
            k = r.choice(("and", "or"))
            n = r.choice((2, 2, 3))
            kids = [self.gen("b", d - 1) for _ in range(n)]
            if r.random() < 0.08:
                kids[r.randrange(n)] = ["const", r.choice(("true", "false"))]
            return [k, kids]
        if x < 0.50:
            return ["not", self.gen("b", d - 1)]
        if x < 0.57:
            return ["isnull", self.gen(r.choice("isbi"), d - 1), r.random() < 0.5]
        if x < 0.61:
            return ["is", self.gen("b", d - 1), self.gen("b", d - 1), r.random() < 0.5]
        if x < 0.66:
            t, L, R = self.cmp_operands(d)
            return ["bin", r.choice(("isdistinct", "isnotdistinct")), L, R]
        if x < 0.75:
            t = r.choice(("i", "i", "s", "b") if "between_bool" in self.features else ("i", "i", "s"))
            return ["between", self.gen(t, d - 1), self.gen(t, d - 1), self.gen(t, d - 1), r.random() < 0.3]
        if x < 0.84:
            esc = r.choice((None, None, "/", "^"))
            pat = self.gen("s", d - 1)
            return ["like", self.gen("s", d - 1), pat, esc, r.choice(("like", "like", "not_like", "ilike", "not_ilike"))]
        if x < 0.90:
            t = r.choice(("i", "i", "s", "b"))
            elems = [self.gen(t, d - 1) for _ in range(r.choice((1, 2, 3)))]
            return ["in", self.gen(t, d - 1), elems, r.random() < 0.4]
        if x < 0.95:
            t = r.choice(("i", "s"))
            vals = [r.choice(INT_LITS + [None]) if t == "i" else r.choice(STR_LITS + [None]) for _ in range(r.choice((0, 1, 2, 3)))]
            return ["inlit", self.gen(t, d - 1), vals, r.random() < 0.4]
        if x < 0.98:
            return self.case("b", d)
        return self.leaf("b")


# ---------------------------------------------------------------------------
# fixture + builders
# ---------------------------------------------------------------------------
def make_rows(rng, n=40):
    rows = []
    for i in range(n):
        if i < len(INT_VALUES):
            a = INT_VALUES[i]
        else:
            a = rng.choice(INT_VALUES)
        rows.append(
            dict(
                id=i + 1,
                a=a,
                b=rng.choice(INT_VALUES),
                c=rng.choice(INT_VALUES),
                s=STR_VALUES[i % len(STR_VALUES)] if i < 2 * len(STR_VALUES) else rng.choice(STR_VALUES),
                u=rng.choice(STR_VALUES),
                p=rng.choice(BOOL_VALUES),
                q=rng.choice(BOOL_VALUES),
            )
        )
    return rows


T2_ROWS = [
    dict(id=1, v=1, w="a"), dict(id=2, v=-3, w=""), dict(id=3, v=None, w=None),
    dict(id=4, v=7, w="3"), dict(id=5, v=2, w="A"), dict(id=6, v=0, w="%"),
]


class Env:
    """SQLAlchemy objects for the fixture; created lazily inside a shard."""

    def __init__(self, metadata=None, bool_constraint=False):
        import sqlalchemy as sa

        self.sa = sa
        self.md = metadata or sa.MetaData()
        self.t = sa.Table(
            "t", self.md,
            sa.Column("id", sa.Integer, primary_key=True),
            sa.Column("a", sa.Integer), sa.Column("b", sa.Integer), sa.Column("c", sa.Integer),
            sa.Column("s", sa.String(40)), sa.Column("u", sa.String(40)),
            sa.Column("p", sa.Boolean(create_constraint=bool_constraint)),
            sa.Column("q", sa.Boolean(create_constraint=bool_constraint)),
        )
        self.t2 = sa.Table(
            "t2", self.md,
            sa.Column("id", sa.Integer, primary_key=True),
            sa.Column("v", sa.Integer), sa.Column("w", sa.String(40)),
        )
        self.types = {"i": sa.Integer(), "s": sa.String(), "b": sa.Boolean(create_constraint=False), "f": sa.Float()}

    def populate(self, conn, rows):
        conn.execute(self.t.insert(), rows)
        conn.execute(self.t2.insert(), T2_ROWS)

    def subq(self, kind):
        sa, t, t2 = self.sa, self.t, self.t2
        if kind == "max_v":
            return sa.select(sa.func.max(t2.c.v)).scalar_subquery()
        if kind == "cnt":
            return sa.select(sa.func.count(t2.c.id)).where(t2.c.v > 0).scalar_subquery()
        if kind == "corr_a":
            return sa.select(t2.c.v).where(t2.c.id == t.c.a).scalar_subquery()
        if kind == "min_w":
            return sa.select(sa.func.min(t2.c.w)).scalar_subquery()
        if kind == "corr_s":
            return sa.select(t2.c.w).where(t2.c.v == t.c.b).order_by(t2.c.id).limit(1).scalar_subquery()
        raise ValueError(kind)


_BINOPS = {
    "add": lambda l, r: l + r, "sub": lambda l, r: l - r, "mul": lambda l, r: l * r,
    "truediv": lambda l, r: l / r, "floordiv": lambda l, r: l // r, "mod": lambda l, r: l % r,
    "concat": lambda l, r: l.concat(r),
    "eq": lambda l, r: l == r, "ne": lambda l, r: l != r, "lt": lambda l, r: l < r,
    "le": lambda l, r: l <= r, "gt": lambda l, r: l > r, "ge": lambda l, r: l >= r,
    "isdistinct": lambda l, r: l.is_distinct_from(r),
    "isnotdistinct": lambda l, r: l.is_not_distinct_from(r),
}


def build(node, env, grouped=False):
    """tree description -> ColumnElement (see module docstring)."""
    sa = env.sa
    from sqlalchemy.sql.elements import Grouping

    def W(e):
        return Grouping(e) if grouped else e

    def B(n):
        k = n[0]
        if k == "col":
            return W(env.t.c[n[1]])
        if k == "lit":
            return W(sa.literal(n[2], env.types[n[1]]))
        if k == "const":
            return W(sa.true() if n[1] in ("true", "pytrue") else sa.false())
        if k == "bin":
            return W(_BINOPS[n[1]](B(n[2]), B(n[3])))
        if k == "neg":
            return W(-B(n[1]))
        if k == "not":
            return W(sa.not_(B(n[1])))
        if k in ("and", "or"):
            # a py constant is handed over as the bare Python bool (coerced by and_()/or_());
            # anywhere else, and in the grouped form, it is true() / false()
            args = [(c[1] == "pytrue") if (c[0] == "const" and c[1].startswith("py") and not grouped) else B(c) for c in n[1]]
            return W((sa.and_ if k == "and" else sa.or_)(*args))
        if k == "isnull":
            x = B(n[1])
            return W(x.is_not(None) if n[2] else x.is_(None))
        if k == "is":
            l, r = B(n[1]), B(n[2])
            return W(l.is_not(r) if n[3] else l.is_(r))
        if k == "between":
            e = B(n[1]).between(B(n[2]), B(n[3]))
            if n[4]:
                e = sa.not_(W(e))
            return W(e)
        if k == "like":
            x, p = B(n[1]), B(n[2])
            kw = {"escape": n[3]} if n[3] else {}
            return W(getattr(x, n[4])(p, **kw))
        if k == "in":
            x = B(n[1])
            el = [B(e) for e in n[2]]
            return W(x.not_in(el) if n[3] else x.in_(el))
        if k == "inlit":
            x = B(n[1])
            return W(x.not_in(list(n[2])) if n[3] else x.in_(list(n[2])))
        if k == "case":
            whens = [(B(c), B(v)) for c, v in n[1]]
            kw = {} if n[2] is None else {"else_": B(n[2])}
            return W(sa.case(*whens, **kw))
        if k == "cast":
            return W(sa.cast(B(n[1]), env.types[n[2]]))
        if k == "subq":
            return W(env.subq(n[1]))
        if k == "func":
            return W(getattr(sa.func, n[1])(*[B(a) for a in n[2]]))
        raise ValueError(k)

    return B(node)


# ---------------------------------------------------------------------------
# shrinking (used only to name the mechanism of a violation)
# ---------------------------------------------------------------------------
def simple_leaf(t):
    return {"i": ["col", "a"], "f": ["bin", "truediv", ["col", "a"], ["lit", "i", 2]], "s": ["col", "s"], "b": ["col", "p"]}[t]


def _replace(node, path, new):
    if not path:
        return new
    import copy

    node = copy.deepcopy(node)
    cur = node
    for step in path[:-1]:
        cur = _get(cur, step)
    _set(cur, path[-1], new)
    return node


def _child_slots(node):
    k = node[0]
    if k == "bin":
        return [(2,), (3,)]
    if k in ("neg", "not", "isnull", "cast"):
        return [(1,)]
    if k in ("and", "or"):
        return [(1, i) for i in range(len(node[1]))]
    if k == "is":
        return [(1,), (2,)]
    if k == "between":
        return [(1,), (2,), (3,)]
    if k == "like":
        return [(1,), (2,)]
    if k == "in":
        return [(1,)] + [(2, i) for i in range(len(node[2]))]
    if k == "inlit":
        return [(1,)]
    if k == "case":
        out = []
        for i in range(len(node[1])):
            out += [(1, i, 0), (1, i, 1)]
        if node[2] is not None:
            out.append((2,))
        return out
    if k == "func":
        return [(2, i) for i in range(len(node[2]))]
    return []


def _get(node, slot):
    for s in slot:
        node = node[s]
    return node


def _set(node, slot, new):
    for s in slot[:-1]:
        node = node[s]
    node[slot[-1]] = new


def shrink(tree, still_fails, budget=400):
    """Greedy structural shrink: returns a smaller tree for which still_fails(tree)."""
    import copy

    calls = [0]

    def ok(t):
        calls[0] += 1
        if calls[0] > budget:
            return False
        try:
            return bool(still_fails(t))
        except Exception:
            return False

    cur = copy.deepcopy(tree)
    changed = True
    while changed and calls[0] <= budget:
        changed = False
        # 1. replace the whole tree by one of its sub-trees
        for slot in _child_slots(cur):
            sub = _get(cur, slot)
            if opname(sub) and ok(sub):
                cur, changed = copy.deepcopy(sub), True
                break
        if changed:
            continue
        # 2. replace any descendant by a simple leaf of its type / by one of its children
        stack = [()]
        while stack and not changed:
            path = stack.pop()
            here = _get(cur, path) if path else cur
            for slot in _child_slots(here):
                full = tuple(path) + tuple(slot)
                sub = _get(cur, full)
                if opname(sub):
                    cands = [simple_leaf(type_of(sub))]
                    for s2 in _child_slots(sub):
                        g = _get(sub, s2)
                        try:
                            if type_of(g) == type_of(sub):
                                cands.append(g)
                        except Exception:
                            pass
                    for cand in cands:
                        if cand == sub:
                            continue
                        trial = copy.deepcopy(cur)
                        _set(trial, full, copy.deepcopy(cand))
                        if ok(trial):
                            cur, changed = trial, True
                            break
                    if changed:
                        break
                    stack.append(full)
    return cur


def shape(node, depth=2):
    """Stable, value-free description of a (shrunken) tree: operator classes of the root
    and of its operator children (two levels), nothing about leaves or values."""
    if opname(node) is None:
        return ""
    name = OPCLASS[opname(node)]
    if depth <= 1:
        return name
    inner = sorted({shape(c, depth - 1) for c, _ in children(node)} - {""})
    return name + ("(" + ",".join(inner) + ")" if inner else "")


# ---------------------------------------------------------------------------
# known-defect patterns (found by C01 on the unchanged tree; see its docstring)
# ---------------------------------------------------------------------------
_OPERAND_PARENTS = ("bin", "neg", "isnull", "is", "between", "like", "in", "inlit")


def _is_boolop_operand(c):
    """child renders through AsBoolean ("x = 0" / "x = 1") or may const-fold to it."""
    if c[0] == "not":
        return True
    if c[0] in ("and", "or"):
        return any(k[0] == "const" or (k[0] == "lit" and k[1] == "b") for k in c[1])
    return False


def known_patterns(node, literal=True):
    """names of the known-defect patterns present anywhere in the tree, by priority."""
    found = set()
    for n in walk(node):
        k = n[0]
        if k == "neg" and n[1][0] == "lit" and isinstance(n[1][2], (int, float)) and not isinstance(n[1][2], bool) and n[1][2] < 0:
            if literal:
                found.add("neg-of-negative-literal")
        if k == "not" and n[1][0] == "is":
            found.add("negation-of-is-keeps-is")
        if k == "bin" and n[1] == "concat":
            for c in (n[2], n[3]):
                if OPCLASS.get(opname(c)) == "arith":
                    found.add("concat-operand-arith-ungrouped")
        if k in _OPERAND_PARENTS:
            for c, role in children(n):
                if role != "elem" and _is_boolop_operand(c):
                    found.add("asboolean-operand-ungrouped")
        if k == "between":
            for c in (n[2], n[3]):
                if opname(c) and type_of(c) == "b" and OPCLASS[opname(c)] not in ("case", "cast", "func", "subq"):
                    found.add("between-bound-ungrouped")
    order = ["neg-of-negative-literal", "negation-of-is-keeps-is", "concat-operand-arith-ungrouped",
             "asboolean-operand-ungrouped", "between-bound-ungrouped"]
    return [o for o in order if o in found]


OPEN_PATTERNS = frozenset({"concat-operand-arith-ungrouped"})


def sanitize(node, patterns=OPEN_PATTERNS):
    """rewrite a tree so that it contains none of the given known-defect patterns (the
    bulk of the workload must stay free of the still-open ones, otherwise they would
    mask new differences).  Patterns whose defect has been repaired are no longer
    removed: they are ordinary workload now (default: only the open ones)."""
    import copy

    n = copy.deepcopy(node)

    def wrap(c):
        return ["func", "coalesce", [c, simple_leaf(type_of(c)) if type_of(c) != "f" else c]]

    def fix(n):
        k = n[0]
        for slot in _child_slots(n):
            fix(_get(n, slot))
        if "neg-of-negative-literal" in patterns and k == "neg" and n[1][0] == "lit" and isinstance(n[1][2], (int, float)) and not isinstance(n[1][2], bool) and n[1][2] < 0:
            n[1][2] = -n[1][2]
        if "negation-of-is-keeps-is" in patterns and k == "not" and n[1][0] == "is":
            inner = n[1]
            n[:] = ["is", inner[1], inner[2], not inner[3]]
            k = "is"
        if "concat-operand-arith-ungrouped" in patterns and k == "bin" and n[1] == "concat":
            for i in (2, 3):
                if OPCLASS.get(opname(n[i])) == "arith":
                    n[i] = ["cast", n[i], "s"] if type_of(n[i]) != "f" else wrap(n[i])
        if "asboolean-operand-ungrouped" in patterns and k in _OPERAND_PARENTS:
            for slot in _child_slots(n):
                c = _get(n, slot)
                if _is_boolop_operand(c) and not (k == "in" and slot[0] == 2):
                    _set(n, slot, wrap(c))
        if "between-bound-ungrouped" in patterns and k == "between":
            for i in (2, 3):
                c = n[i]
                if opname(c) and type_of(c) == "b" and OPCLASS[opname(c)] not in ("case", "cast", "func", "subq"):
                    n[i] = wrap(c)

    fix(n)
    return n
