"""Identifier-name generators and the run-time SQLite keyword probe (group ge: C06, C15).

Nothing here is a constant list of SQLite keywords: the keyword table is read from the
*live* libsqlite3 the interpreter is linked against (``sqlite3_keyword_name`` through
ctypes) and every candidate is then probed against the *live parser* in the syntactic
positions in which SQLAlchemy renders an unquoted name.
"""
from __future__ import annotations

import sqlite3

# characters weighted toward quoting / escaping / placeholder syntax
HOSTILE = list("\"\"\"'''```[[]]...%%%   ::;;()()\\\\??$$##@-,/*=<>{}|~^&+!")
PLAIN = list("abcxyzs_") + list("ABXYZ") + list("0179")
UNI = ["é", "ß", "漢", "Ω", "ё", "ñ", "İ", "ı", "ǅ", " ", "​", "ﬁ"]
CTRL = ["\t", "\n", "\r", "\x01", "\x7f"]

# strings that look like SQLAlchemy-internal or driver-level markers
TEMPLATES = [
    "%(x)s", "a%(b", "%s", "%%", "%", ":name", ":1", "?", "$1", "{x}", "__[SCHEMA_x]",
    "__[POSTCOMPILE_p]", "[POSTCOMPILE_p]", "a.b", ".", "..", "a b", " a", "a ", '"', '""', "'",
    "''", "`", "``", "[", "]", "]]", "[]", "[a]", '"a"', "`a`", "a\"b", "a]b", "a`b", "a'b", "--", "/*",
    "*/", ";", "\\", "\\\"", "1", "1a", "$a", "_", "a$", "Abc", "aBc", "ABC", "select 1", "a,b", "(a)",
]


def rand_name(rng, maxlen=8, hostile=0.45, allow_ctrl=True):
    """A non-empty name.  Never contains NUL (no backend can represent it)."""
    r = rng.random()
    if r < 0.08:
        return rng.choice(TEMPLATES)
    n = rng.randint(1, maxlen)
    out = []
    for _ in range(n):
        q = rng.random()
        if q < hostile:
            out.append(rng.choice(HOSTILE))
        elif q < hostile + 0.08:
            out.append(rng.choice(UNI))
        elif allow_ctrl and q < hostile + 0.11:
            out.append(rng.choice(CTRL))
        else:
            out.append(rng.choice(PLAIN))
    return "".join(out)


def distinct_names(rng, k, forbid=(), **kw):
    """k names, pairwise distinct under ASCII/unicode case folding (SQLite, MySQL and MSSQL
    compare identifiers case-insensitively), none starting with ``sqlite_``."""
    seen = {f.lower() for f in forbid}
    out = []
    guard = 0
    while len(out) < k:
        guard += 1
        if guard > 10000:
            raise RuntimeError("name generator exhausted")
        x = rand_name(rng, **kw)
        key = x.lower()
        if key in seen or x.casefold() in seen or x.upper().lower() in seen:
            continue
        if key.startswith("sqlite_"):
            continue
        seen.add(key)
        seen.add(x.casefold())
        seen.add(x.upper().lower())
        out.append(x)
    return out


# --------------------------------------------------------------------------
# SQLite keyword table + parser probe
# --------------------------------------------------------------------------
def sqlite_keyword_table():
    """Keywords the linked libsqlite3 reports (sqlite3_keyword_count/name, 3.24+), lower
    case; [] when the C API cannot be reached (the caller then has only the dialect
    lists as candidates and must say so)."""
    try:
        import ctypes
        import ctypes.util

        lib = None
        for cand in ("libsqlite3.so.0", ctypes.util.find_library("sqlite3")):
            if not cand:
                continue
            try:
                lib = ctypes.CDLL(cand)
                break
            except OSError:
                continue
        if lib is None:
            return []
        lib.sqlite3_libversion.restype = ctypes.c_char_p
        if lib.sqlite3_libversion().decode() != sqlite3.sqlite_version:
            return []  # not the library the sqlite3 module executes with
        n = lib.sqlite3_keyword_count()
        out = []
        for i in range(n):
            p = ctypes.c_char_p()
            ln = ctypes.c_int()
            if lib.sqlite3_keyword_name(i, ctypes.byref(p), ctypes.byref(ln)) == 0:
                out.append(ctypes.string_at(p, ln.value).decode("ascii").lower())
        return out
    except Exception:
        return []


# syntactic positions in which SQLAlchemy renders a name through IdentifierPreparer.quote:
# position -> (setup statements with the word safely quoted, statements with the word bare)
_Q = '"{w}"'
PROBES = {
    "column-def": ([], ["CREATE TABLE vf_p ({w} INT)"]),
    "table-name": ([], ["CREATE TABLE {w} (vf_c INT)"]),
    "index-name": (["CREATE TABLE vf_p (vf_c INT)"], ["CREATE INDEX {w} ON vf_p (vf_c)"]),
    "constraint-name": ([], ["CREATE TABLE vf_p (vf_c INT, CONSTRAINT {w} UNIQUE (vf_c))"]),
    "insert-column": (["CREATE TABLE vf_p (" + _Q + " INT)"], ["INSERT INTO vf_p ({w}) VALUES (41)"]),
    "qualified-column": (["CREATE TABLE vf_p (" + _Q + " INT)", "INSERT INTO vf_p VALUES (41)"],
                         ["SELECT vf_p.{w} FROM vf_p"]),
    "bare-column": (["CREATE TABLE vf_p (" + _Q + " INT)", "INSERT INTO vf_p VALUES (41)"],
                    ["SELECT {w} FROM vf_p"]),
    "update-set": (["CREATE TABLE vf_p (" + _Q + " INT)", "INSERT INTO vf_p VALUES (40)"],
                   ["UPDATE vf_p SET {w} = 41", "SELECT * FROM vf_p"]),
    "label": ([], ["SELECT 41 AS {w}"]),
    "table-alias": (["CREATE TABLE vf_p (vf_c INT)", "INSERT INTO vf_p VALUES (41)"],
                    ["SELECT {w}.vf_c FROM vf_p AS {w}"]),
    "schema-name": (["ATTACH DATABASE ':memory:' AS " + _Q], ["CREATE TABLE {w}.vf_p (vf_c INT)"]),
    "update-table": (["CREATE TABLE " + _Q + " (vf_c INT)", "INSERT INTO " + _Q + " VALUES (40)"],
                     ["UPDATE {w} SET vf_c = 41", "SELECT * FROM " + _Q]),
    "update-schema-table": (["ATTACH DATABASE ':memory:' AS " + _Q, "CREATE TABLE " + _Q + ".vf_p (vf_c INT)",
                             "INSERT INTO " + _Q + ".vf_p VALUES (40)"],
                            ["UPDATE {w}.vf_p SET vf_c = 41", "SELECT * FROM " + _Q + ".vf_p"]),
    "delete-from": (["CREATE TABLE " + _Q + " (vf_c INT)"], ["DELETE FROM {w} WHERE vf_c = 1"]),
    "delete-from-schema": (["ATTACH DATABASE ':memory:' AS " + _Q, "CREATE TABLE " + _Q + ".vf_p (vf_c INT)"],
                           ["DELETE FROM {w}.vf_p WHERE vf_c = 1"]),
    "insert-into": (["CREATE TABLE " + _Q + " (vf_c INT)"], ["INSERT INTO {w} (vf_c) VALUES (41)", "SELECT * FROM " + _Q]),
    "insert-into-schema": (["ATTACH DATABASE ':memory:' AS " + _Q, "CREATE TABLE " + _Q + ".vf_p (vf_c INT)"],
                           ["INSERT INTO {w}.vf_p (vf_c) VALUES (41)", "SELECT * FROM " + _Q + ".vf_p"]),
    "from-table": (["CREATE TABLE " + _Q + " (vf_c INT)", "INSERT INTO " + _Q + " VALUES (41)"],
                   ["SELECT {w}.vf_c FROM {w}"]),
    "from-schema-table": (["ATTACH DATABASE ':memory:' AS " + _Q, "CREATE TABLE " + _Q + ".vf_p (vf_c INT)",
                           "INSERT INTO " + _Q + ".vf_p VALUES (41)"],
                          ["SELECT {w}.vf_p.vf_c FROM {w}.vf_p"]),
    "join-table": (["CREATE TABLE " + _Q + " (vf_c INT)", "INSERT INTO " + _Q + " VALUES (41)",
                    "CREATE TABLE vf_q (vf_d INT)", "INSERT INTO vf_q VALUES (41)"],
                   ["SELECT vf_q.vf_d FROM vf_q JOIN {w} ON {w}.vf_c = vf_q.vf_d"]),
    "where-order-bare": (["CREATE TABLE vf_p (" + _Q + " INT)", "INSERT INTO vf_p VALUES (41)"],
                         ["SELECT * FROM vf_p WHERE {w} = 41 ORDER BY {w}"]),
    "order-by-label": ([], ["SELECT 41 AS " + _Q + " ORDER BY {w}"]),
    "references": (["CREATE TABLE " + _Q + " (vf_c INT PRIMARY KEY)"],
                   ["CREATE TABLE vf_q (vf_d INT, FOREIGN KEY(vf_d) REFERENCES {w} (vf_c))"]),
    "key-column-list": ([], ["CREATE TABLE vf_p (" + _Q + " INT, vf_d INT, PRIMARY KEY ({w}), UNIQUE ({w}, vf_d))"]),
    "index-column": (["CREATE TABLE vf_p (" + _Q + " INT)"], ["CREATE INDEX vf_i ON vf_p ({w})"]),
    "drop-table": (["CREATE TABLE " + _Q + " (vf_c INT)"], ["DROP TABLE {w}"]),
    "drop-index": (["CREATE TABLE vf_p (vf_c INT)", "CREATE INDEX " + _Q + " ON vf_p (vf_c)"], ["DROP INDEX {w}"]),
    "paren-first": (["CREATE TABLE vf_p (" + _Q + " INT)", "INSERT INTO vf_p VALUES (41)"],
                    ["SELECT ({w}) FROM vf_p"]),
    "paren-first-qualified": (["CREATE TABLE " + _Q + " (vf_c INT)", "INSERT INTO " + _Q + " VALUES (41)"],
                              ["SELECT ({w}.vf_c + 0) FROM " + _Q]),
    "in-list-first": (["CREATE TABLE vf_p (" + _Q + " INT)", "INSERT INTO vf_p VALUES (41)"],
                      ["SELECT 41 FROM vf_p WHERE 41 IN ({w}, 3)"]),
    "function-arg": (["CREATE TABLE vf_p (" + _Q + " INT)", "INSERT INTO vf_p VALUES (41)"],
                     ["SELECT max({w}) FROM vf_p", "SELECT coalesce(NULL, {w}) FROM vf_p"]),
    "after-operator": (["CREATE TABLE vf_p (" + _Q + " INT)", "INSERT INTO vf_p VALUES (41)"],
                       ["SELECT 0 + {w} FROM vf_p", "SELECT - {w} + 82 FROM vf_p", "SELECT {w} + 0 FROM vf_p"]),
    "case-when": (["CREATE TABLE vf_p (" + _Q + " INT)", "INSERT INTO vf_p VALUES (41)"],
                  ["SELECT CASE WHEN {w} = 41 THEN {w} ELSE {w} END FROM vf_p"]),
    "group-having": (["CREATE TABLE vf_p (" + _Q + " INT)", "INSERT INTO vf_p VALUES (41)"],
                     ["SELECT {w} FROM vf_p GROUP BY {w} HAVING {w} = 41"]),
    "table-dot-column-same": (["CREATE TABLE " + _Q + " (" + _Q + " INT)", "INSERT INTO " + _Q + " VALUES (41)"],
                              ["SELECT {w}.{w} FROM {w}"]),
}


def probe_word(word):
    """Positions in which the live SQLite parser rejects (or mis-reads) ``word`` when it is
    written bare.  A word for which this is non-empty needs quoting.  A position whose
    *setup* (word quoted) fails is skipped: that is not about quoting (e.g. ATTACH AS "main")."""
    bad = []
    for pos, (setup, stmts) in PROBES.items():
        con = sqlite3.connect(":memory:")
        try:
            try:
                for s in setup:
                    con.execute(s.format(w=word))
            except sqlite3.Error:
                continue
            rows = None
            try:
                for s in stmts:
                    cur = con.execute(s.format(w=word))
                    rows = cur.fetchall() if cur.description else None
                if rows is not None and rows != [(41,)]:
                    bad.append(pos + ":misread")
            except sqlite3.Error:
                bad.append(pos)
        finally:
            con.close()
    return bad
