"""ormrig_gi -- the ORM rig shared by C30, C31, C32, C33 (group ``gi``).

Parts
-----
* ``Zoo``       a mapping zoo built dynamically with a private ``registry()``:
                Z1 Parent/Child (o2m+m2o, back_populates, nullable FK, column default),
                Z1b Owner/Item (NOT NULL FK, ``all, delete-orphan``),
                Z2 Node (self-referential tree; knob: delete cascade),
                Z2c CycA/CycB (mutual FK cycle, ``post_update`` on one side),
                Z3 Left/Right (many-to-many with ``secondary``; knob: list/set),
                Z4 Art/Tag/ArtTag (association object, composite PK of FKs),
                Z6 Employee/Manager/Engineer (joined inheritance, FK between subclasses),
                   Vehicle/Car/Truck (single-table inheritance),
                Z7 NUser/NAddr (natural string PK, ``passive_updates=False``;
                   the FK is DEFERRABLE INITIALLY DEFERRED because SQLite has no
                   ON UPDATE CASCADE here and the ORM documents passive_updates=False
                   for backends that do not enforce the FK at the statement),
                Z8 Vertex (two composites).
* ``Rig``       SQLite *file* DB copied from a template, ``PRAGMA foreign_keys=ON``,
                the documented "emit our own BEGIN" recipe (so SAVEPOINT works with
                pysqlite), Session under test on a ``vf.mon.dbapi_spy.Spy`` engine,
                an observer connection (committed state) and raw in-transaction reads
                that bypass SQLAlchemy entirely.
* ``snapshot``  graph snapshot reading only ``state.dict`` (never triggers a load or an
                autoflush).
* ``relation``  the model-free consistency relation (a)-(e) of DESIGN C30 between a
                snapshot and rows; ``fresh_compare`` is (f).
* ``Gen`` / ``Interp``  session-operation history generator (online, uses only
                non-loading information) and interpreter (guards are part of the op
                semantics, evaluated with ordinary attribute access, so a recorded op
                list replays deterministically on a fresh rig).
* ``FKTracker`` referential-integrity tracker over the spied statement stream (C31).

Documented staleness encoded here (and nowhere else):
  S1 a loaded collection may still list an object deleted in the same flush until it is
     expired -> members in state deleted/detached are filtered before comparing;
     symmetrically a loaded many-to-one whose target is no longer persistent is skipped.
  S2 ORM ``None`` on INSERT omits the column so the default fires -> nothing to encode:
     the relation compares what is in ``__dict__`` *after* the flush with the row.
  S3 one-sided mutation without back_populates is never generated (all bidirectional
     pairs use back_populates; CycA.b / CycB.a have no reverse side at all).
  S4 FK column attributes are never written directly (relationship attributes are not
     refreshed in that case).
  S5 expunged / detached objects make no claim: rows may still reference a parent whose
     loaded collection no longer lists the (detached) child; the session prints a
     warning and does not proceed with that operation.
  S6 expire / refresh are only generated at clean points (after a flush), because
     expiring discards pending changes by design.
  S7 a backref does not emit SQL to find the old parent of a re-parented child: the
     reverse many-to-one is loaded before re-parenting.
  S8 a SAVEPOINT rollback expires only objects *modified* inside it (documented); what an
     unmodified object loaded or refreshed while the savepoint was open keeps the
     savepoint-era value.  C33 excludes exactly those (object, attribute) pairs.
"""
from __future__ import annotations

import os
import re
import shutil
import warnings

from vf.mon.dbapi_spy import Spy, observer


# ---------------------------------------------------------------------------
# composite value
# ---------------------------------------------------------------------------
class Point:
    def __init__(self, x, y):
        self.x = x
        self.y = y

    def __composite_values__(self):
        return self.x, self.y

    def __eq__(self, other):
        return isinstance(other, Point) and (other.x, other.y) == (self.x, self.y)

    def __ne__(self, other):
        return not self.__eq__(other)

    __hash__ = None

    def __repr__(self):
        return f"Point({self.x!r}, {self.y!r})"


# ---------------------------------------------------------------------------
# generation spec: what the generator may do with each class
#   scalars: attr -> kind ('s' str nullable, 'i' int nullable, 'd' int with column default)
#   m2o:     rel  -> (target class names, nullable)
#   colls:   rel  -> (member class names, mode)  mode in o2m | m2m | assoc (remove only)
#   delete:  'free' (every incoming FK is handled by an ORM rule) | 'unref'
#   pk:      None | 'int' | 'str' : primary key may be changed
# ---------------------------------------------------------------------------
SPEC = {
    "Parent": dict(fam="Z1", scalars={"name": "s", "n": "d"}, m2o={}, colls={"children": (["Child"], "o2m")}, delete="free", pk=None),
    "Child": dict(fam="Z1", scalars={"val": "i"}, m2o={"parent": (["Parent"], True)}, colls={}, delete="free", pk="int"),
    "Owner": dict(fam="Z1b", scalars={"name": "s"}, m2o={}, colls={"items": (["Item"], "o2m")}, delete="free", pk=None),
    "Item": dict(fam="Z1b", scalars={"qty": "i"}, m2o={"owner": (["Owner"], False)}, colls={}, delete="free", pk=None),
    "Node": dict(fam="Z2", scalars={"label": "s"}, m2o={"parent": (["Node"], True)}, colls={"children": (["Node"], "o2m"), "tags": (["NTag"], "m2m")}, delete="free", pk=None),
    # mappers related to the self-referential Node from outside its dependency cycle, all
    # one-directional (a reverse side would duplicate every ordering edge from inside the cycle)
    "NTag": dict(fam="Z2", scalars={"word": "s"}, m2o={}, colls={}, delete="free", pk=None),
    "NRef": dict(fam="Z2", scalars={"note": "s"}, m2o={"node": (["Node"], True)}, colls={}, delete="free", pk=None),
    "NOwner": dict(fam="Z2", scalars={"name": "s"}, m2o={}, colls={"nodes": (["Node"], "o2m_uni")}, delete="free", pk=None),
    "CycA": dict(fam="Z2c", scalars={"x": "i"}, m2o={"b": (["CycB"], True)}, colls={}, delete="unref", pk=None),
    "CycB": dict(fam="Z2c", scalars={"y": "i"}, m2o={"a": (["CycA"], True)}, colls={}, delete="unref", pk=None),
    "Left": dict(fam="Z3", scalars={"name": "s"}, m2o={}, colls={"rights": (["Right"], "m2m")}, delete="free", pk=None),
    "Right": dict(fam="Z3", scalars={"name": "s"}, m2o={}, colls={"lefts": (["Left"], "m2m")}, delete="free", pk=None),
    "Art": dict(fam="Z4", scalars={"title": "s"}, m2o={}, colls={"arttags": (["ArtTag"], "assoc")}, delete="free", pk=None),
    "Tag": dict(fam="Z4", scalars={"word": "s"}, m2o={}, colls={"arttags": (["ArtTag"], "assoc")}, delete="free", pk=None),
    "ArtTag": dict(fam="Z4", scalars={"weight": "i"}, m2o={"art": (["Art"], False), "tag": (["Tag"], False)}, colls={}, delete="free", pk=None, fixed_m2o=True),
    "Employee": dict(fam="Z6", scalars={"name": "s"}, m2o={}, colls={}, delete="free", pk=None),
    "Manager": dict(fam="Z6", scalars={"name": "s", "budget": "i"}, m2o={}, colls={"engineers": (["Engineer"], "o2m")}, delete="free", pk=None),
    "Engineer": dict(fam="Z6", scalars={"name": "s", "lang": "s"}, m2o={"manager": (["Manager"], True)}, colls={}, delete="free", pk=None),
    "Vehicle": dict(fam="Z6s", scalars={"wheels": "i"}, m2o={}, colls={}, delete="free", pk="int"),
    "Car": dict(fam="Z6s", scalars={"wheels": "i", "doors": "i"}, m2o={}, colls={}, delete="free", pk="int"),
    "Truck": dict(fam="Z6s", scalars={"wheels": "i", "cargo": "i"}, m2o={}, colls={}, delete="free", pk="int"),
    "NUser": dict(fam="Z7", scalars={"fullname": "s"}, m2o={}, colls={"addresses": (["NAddr"], "o2m")}, delete="free", pk="str", natural="username"),
    "NAddr": dict(fam="Z7", scalars={"note": "s"}, m2o={"user": (["NUser"], True)}, colls={}, delete="free", pk="str", natural="email"),
    # Z9: two delete-orphan parent classes over one child, nullable FKs, one-directional:
    # a Note may be an orphan of one of them and still be wanted in the database
    "Draft": dict(fam="Z9", scalars={"title": "s"}, m2o={}, colls={"notes": (["Note"], "o2m_uni")}, delete="free", pk=None),
    "Folder": dict(fam="Z9", scalars={"name": "s"}, m2o={}, colls={"notes": (["Note"], "o2m_uni")}, delete="free", pk=None),
    "Note": dict(fam="Z9", scalars={"text": "s"}, m2o={}, colls={"marks": (["Mark"], "o2m_uni")}, delete="free", pk=None),
    # third level under the delete-orphan children: Draft/Folder -> Note -> Mark
    "Mark": dict(fam="Z9", scalars={"score": "i"}, m2o={}, colls={}, delete="free", pk=None),
    "Vertex": dict(fam="Z8", scalars={}, m2o={}, colls={}, delete="free", pk="int", composites=["start", "end"]),
}
FAMILIES = sorted({v["fam"] for v in SPEC.values()})
DEFERRED_TABLES = frozenset(["nuser", "naddr"])  # Z7: FK checked at COMMIT (see module docstring)


class Zoo:
    """The mapping zoo.  One per (knobs) per shard; classes live in a private registry."""

    def __init__(self, tree_cascade="default", m2m_set=False):
        import sqlalchemy as sa
        from sqlalchemy import event, orm

        self.knobs = {"tree_cascade": tree_cascade, "m2m_set": m2m_set}
        self.on_hook = None  # callable(name) or None -- fault injection from mapper events
        reg = self.reg = orm.registry()
        md = self.md = reg.metadata
        Base = reg.generate_base()
        C, I, S, FK, rel = sa.Column, sa.Integer, sa.String, sa.ForeignKey, orm.relationship

        class Parent(Base):
            __tablename__ = "parent"
            id = C(I, primary_key=True)
            name = C(S(30))
            n = C(I, default=7)
            children = rel("Child", back_populates="parent")

        class Child(Base):
            __tablename__ = "child"
            id = C(I, primary_key=True)
            parent_id = C(FK("parent.id"))
            val = C(I)
            parent = rel("Parent", back_populates="children")

        class Owner(Base):
            __tablename__ = "owner"
            id = C(I, primary_key=True)
            name = C(S(30))
            items = rel("Item", back_populates="owner", cascade="all, delete-orphan")

        class Item(Base):
            __tablename__ = "item"
            id = C(I, primary_key=True)
            owner_id = C(FK("owner.id"), nullable=False)
            qty = C(I)
            owner = rel("Owner", back_populates="items")

        class Node(Base):
            __tablename__ = "node"
            id = C(I, primary_key=True)
            parent_id = C(FK("node.id"))
            label = C(S(30))
            children = rel(
                "Node", back_populates="parent",
                cascade="all" if tree_cascade == "all" else "save-update, merge",
            )
            parent = rel("Node", back_populates="children", remote_side=[id])
            nowner_id = C(FK("nowner.id"))
            tags = rel("NTag", secondary="node_ntag", **({"collection_class": set} if m2m_set else {}))

        class NTag(Base):
            __tablename__ = "ntag"
            id = C(I, primary_key=True)
            word = C(S(30))

        sa.Table(
            "node_ntag", md,
            C("node_id", FK("node.id"), primary_key=True),
            C("ntag_id", FK("ntag.id"), primary_key=True),
        )

        class NRef(Base):
            __tablename__ = "nref"
            id = C(I, primary_key=True)
            node_id = C(FK("node.id"))
            note = C(S(30))
            node = rel("Node")

        class NOwner(Base):
            __tablename__ = "nowner"
            id = C(I, primary_key=True)
            name = C(S(30))
            # one-directional one-to-many; with the tree knob "all" it cascades deletes
            # (delete cascade without delete-orphan)
            nodes = rel("Node", cascade="all" if tree_cascade == "all" else "save-update, merge")

        class CycA(Base):
            __tablename__ = "cyc_a"
            id = C(I, primary_key=True)
            b_id = C(FK("cyc_b.id"))
            x = C(I)
            b = rel("CycB", foreign_keys=[b_id], post_update=True)

        class CycB(Base):
            __tablename__ = "cyc_b"
            id = C(I, primary_key=True)
            a_id = C(FK("cyc_a.id"))
            y = C(I)
            a = rel("CycA", foreign_keys=[a_id])

        lr = sa.Table(
            "lr", md,
            C("left_id", FK("lft.id"), primary_key=True),
            C("right_id", FK("rgt.id"), primary_key=True),
        )
        ckw = {"collection_class": set} if m2m_set else {}

        class Left(Base):
            __tablename__ = "lft"
            id = C(I, primary_key=True)
            name = C(S(30))
            rights = rel("Right", secondary=lr, back_populates="lefts", **ckw)

        class Right(Base):
            __tablename__ = "rgt"
            id = C(I, primary_key=True)
            name = C(S(30))
            lefts = rel("Left", secondary=lr, back_populates="rights", **ckw)

        class Art(Base):
            __tablename__ = "art"
            id = C(I, primary_key=True)
            title = C(S(30))
            arttags = rel("ArtTag", back_populates="art", cascade="all, delete-orphan")

        class Tag(Base):
            __tablename__ = "tag"
            id = C(I, primary_key=True)
            word = C(S(30))
            arttags = rel("ArtTag", back_populates="tag", cascade="all, delete-orphan")

        class ArtTag(Base):
            __tablename__ = "arttag"
            art_id = C(FK("art.id"), primary_key=True)
            tag_id = C(FK("tag.id"), primary_key=True)
            weight = C(I)
            art = rel("Art", back_populates="arttags")
            tag = rel("Tag", back_populates="arttags")

        class Employee(Base):
            __tablename__ = "emp"
            id = C(I, primary_key=True)
            type = C(S(10))
            name = C(S(30))
            __mapper_args__ = {"polymorphic_on": type, "polymorphic_identity": "emp"}

        class Manager(Employee):
            __tablename__ = "mgr"
            id = C(FK("emp.id"), primary_key=True)
            budget = C(I)
            __mapper_args__ = {"polymorphic_identity": "mgr"}

        class Engineer(Employee):
            __tablename__ = "eng"
            id = C(FK("emp.id"), primary_key=True)
            lang = C(S(30))
            mgr_id = C(FK("mgr.id"))
            manager = rel("Manager", back_populates="engineers", foreign_keys=[mgr_id])
            __mapper_args__ = {"polymorphic_identity": "eng"}

        Manager.engineers = rel("Engineer", back_populates="manager", foreign_keys=[Engineer.__table__.c.mgr_id])

        class Vehicle(Base):
            __tablename__ = "vehicle"
            id = C(I, primary_key=True)
            kind = C(S(10))
            wheels = C(I)
            __mapper_args__ = {"polymorphic_on": kind, "polymorphic_identity": "vehicle"}

        class Car(Vehicle):
            doors = C(I)
            __mapper_args__ = {"polymorphic_identity": "car"}

        class Truck(Vehicle):
            cargo = C(I)
            __mapper_args__ = {"polymorphic_identity": "truck"}

        class NUser(Base):
            __tablename__ = "nuser"
            username = C(S(30), primary_key=True)
            fullname = C(S(30))
            addresses = rel("NAddr", back_populates="user", passive_updates=False)

        class NAddr(Base):
            __tablename__ = "naddr"
            email = C(S(30), primary_key=True)
            username = C(FK("nuser.username", deferrable=True, initially="DEFERRED"))
            note = C(S(30))
            user = rel("NUser", back_populates="addresses", passive_updates=False)

        class Draft(Base):
            __tablename__ = "draft"
            id = C(I, primary_key=True)
            title = C(S(30))
            notes = rel("Note", cascade="all, delete-orphan")

        class Folder(Base):
            __tablename__ = "folder"
            id = C(I, primary_key=True)
            name = C(S(30))
            notes = rel("Note", cascade="all, delete-orphan")

        class Note(Base):
            __tablename__ = "note"
            id = C(I, primary_key=True)
            draft_id = C(FK("draft.id"))
            folder_id = C(FK("folder.id"))
            text = C(S(30))
            # knob: marks are deleted with their note, or have their FK nulled
            marks = rel("Mark", cascade="all" if tree_cascade == "all" else "save-update, merge")

        class Mark(Base):
            __tablename__ = "mark"
            id = C(I, primary_key=True)
            note_id = C(FK("note.id"))
            score = C(I)

        class Vertex(Base):
            __tablename__ = "vertex"
            id = C(I, primary_key=True)
            x1 = C(I)
            y1 = C(I)
            x2 = C(I)
            y2 = C(I)
            start = orm.composite(Point, x1, y1)
            end = orm.composite(Point, x2, y2)

        self.cls = {
            c.__name__: c
            for c in (Parent, Child, Owner, Item, Node, NTag, NRef, NOwner, CycA, CycB, Left, Right, Art, Tag, ArtTag,
                      Employee, Manager, Engineer, Vehicle, Car, Truck, NUser, NAddr, Vertex, Draft, Folder, Note, Mark)
        }
        reg.configure()
        self.mappers = {n: sa.inspect(c) for n, c in self.cls.items()}
        self.secondary_tables = {"lr", "node_ntag"}
        self.tables = sorted(md.tables)
        # table -> ordered pk column names
        self.table_pk = {t: [c.name for c in md.tables[t].primary_key.columns] for t in self.tables}
        # mapper event hooks (fault injection for C32); one permanent listener per zoo
        for name in ("before_insert", "after_insert", "before_update", "after_update", "before_delete", "after_delete"):
            for c in (Parent, Child, Owner, Item, Node, NTag, NRef, NOwner, CycA, CycB, Left, Right, Art, Tag, ArtTag,
                      Employee, Vehicle, NUser, NAddr, Vertex, Draft, Folder, Note, Mark):
                event.listen(c, name, self._mk_hook(name), propagate=True)
        self.on_reload = None   # callable(obj): an instance was loaded / refreshed / expired
        for name in ("load", "refresh", "expire"):
            for c in (Parent, Child, Owner, Item, Node, NTag, NRef, NOwner, CycA, CycB, Left, Right, Art, Tag, ArtTag,
                      Employee, Vehicle, NUser, NAddr, Vertex, Draft, Folder, Note, Mark):
                event.listen(c, name, self._mk_reload(), propagate=True)
        self._info = {}

    def _mk_reload(self):
        def hook(target, *a):
            cb = self.on_reload
            if cb is not None:
                cb(target)
        return hook

    def _mk_hook(self, name):
        def hook(mapper, connection, target):
            cb = self.on_hook
            if cb is not None:
                cb(name)
        return hook

    def template(self, path):
        """Create the schema in a fresh SQLite file (plain engine, not the one under test)."""
        import sqlalchemy as sa

        eng = sa.create_engine("sqlite:///" + path)
        with warnings.catch_warnings():
            warnings.simplefilter("ignore")
            self.md.create_all(eng)
        eng.dispose()
        return path

    def dispose(self):
        self.reg.dispose()

    # ---- mapper facts used by snapshot / relation (configuration, not unit-of-work logic)
    def info(self, mapper):
        mi = self._info.get(mapper)
        if mi is None:
            mi = self._info[mapper] = MapperInfo(self, mapper)
        return mi


class MapperInfo:
    def __init__(self, zoo, m):
        from sqlalchemy.orm import interfaces

        self.m = m
        self.name = m.class_.__name__
        self.base = m.base_mapper.class_.__name__
        self.tables = [t for t in m.tables if t.name in zoo.md.tables]
        self.pk_keys = [m.get_property_by_column(c).key for c in m.primary_key]
        self.table_pk_keys = {}
        for t in self.tables:
            self.table_pk_keys[t.name] = [(c.name, m.get_property_by_column(c).key) for c in t.primary_key.columns]
        self.col_attrs = []  # (key, [(table, colname)])
        for p in m.column_attrs:
            cols = [(c.table.name, c.name) for c in p.columns if getattr(c, "table", None) is not None and c.table in m.tables]
            if cols:
                self.col_attrs.append((p.key, cols))
        self.composites = [(p.key, [a.key for a in p.props]) for p in m.composites]
        self.m2o = []
        self.colls = []
        for r in m.relationships:
            if r.direction is interfaces.MANYTOONE:
                pairs = [(l.table.name, l.name, r.mapper.get_property_by_column(rc).key) for l, rc in r.local_remote_pairs]
                self.m2o.append((r.key, pairs))
            elif r.direction is interfaces.ONETOMANY:
                (l, rc), = r.local_remote_pairs
                child_tab = rc.table
                self.colls.append((r.key, "o2m", dict(
                    parent_key=m.get_property_by_column(l).key,
                    table=child_tab.name, fk=rc.name,
                    pk=[c.name for c in child_tab.primary_key.columns],
                    member_base=r.mapper.base_mapper.class_.__name__,
                    save_update=bool(r.cascade.save_update),
                )))
            else:
                (l, sl), = r.synchronize_pairs
                (rr, sr), = r.secondary_synchronize_pairs
                self.colls.append((r.key, "m2m", dict(
                    parent_key=m.get_property_by_column(l).key,
                    table=r.secondary.name, fk=sl.name, pk=[sr.name],
                    member_base=r.mapper.base_mapper.class_.__name__,
                    save_update=bool(r.cascade.save_update),
                )))


# ---------------------------------------------------------------------------
# Rig
# ---------------------------------------------------------------------------
def is_dml(sql):
    s = sql.lstrip()[:7].upper()
    return s.startswith(("INSERT", "UPDATE", "DELETE"))


class Rig:
    def __init__(self, zoo, template, path, expire_on_commit=True, autoflush=True, fk=True):
        from sqlalchemy import event, orm

        self.fk = fk   # False: the database does not veto anything; dangling references show up in relation()

        warnings.simplefilter("ignore")
        self.zoo = zoo
        self.path = path
        shutil.copyfile(template, path)
        self.spy = Spy()
        self.engine = self.spy.engine(path)

        @event.listens_for(self.engine, "connect")
        def _connect(dbapi_connection, record):
            dbapi_connection.isolation_level = None  # documented recipe: SQLAlchemy emits BEGIN
            cur = dbapi_connection.cursor()
            cur.execute("PRAGMA foreign_keys=ON" if fk else "PRAGMA foreign_keys=OFF")
            cur.execute("PRAGMA synchronous=OFF")       # speed only (file lives in /dev/shm)
            cur.execute("PRAGMA journal_mode=MEMORY")
            cur.close()

        @event.listens_for(self.engine, "begin")
        def _begin(conn):
            conn.exec_driver_sql("BEGIN")

        self.session_kw = dict(expire_on_commit=expire_on_commit, autoflush=autoflush)
        self.session = orm.Session(self.engine, **self.session_kw)
        self.obs = observer(path)
        self.objs = []      # slot -> object (strong refs for the whole case)
        self._slot = {}     # id(obj) -> slot
        self.sp = []        # stack of nested SessionTransaction objects
        self.switched_out = set()   # slots deleted by a row switch (a replacement owns their key)
        self.pool = set()      # id(obj): built by the history but never put into a session yet
        self.orphaned_outside = set()   # slots removed from a collection of a parent outside any session
        self.must_live = set() # slots the history explicitly add()ed (or re-added after delete()): persistent after the flush
        self.let_go = set()    # slots the history itself expunged or removed from a collection
                               # (a pending delete-orphan member is expunged on removal, by design)
        self.created = set()   # id(obj) of objects made by the history (not loaded from rows)
        self.idents_seen = {}  # id(obj) -> identities the object has ever been seen with
        self.zombies = set()  # id(obj): still 'deleted'+attached after Session.close() (C33 finding)
        self.hook_cb = None
        self.hooks_fired = 0
        for name in ("before_flush", "after_flush", "after_flush_postexec"):
            event.listen(self.session, name, self._mk_session_hook(name))
        zoo.on_hook = self._hook
        self.reload_log = []    # id(obj) per load / refresh / expire instance event, in order
        zoo.on_reload = lambda o: self.reload_log.append(id(o))

    # -- hooks -------------------------------------------------------------
    def _hook(self, name):
        self.hooks_fired += 1
        cb = self.hook_cb
        if cb is not None:
            cb(name)

    def _mk_session_hook(self, name):
        def h(*a):
            self._hook(name)
        return h

    # -- tracking ----------------------------------------------------------
    def track(self, o):
        s = self._slot.get(id(o))
        if s is None:
            s = len(self.objs)
            self.objs.append(o)
            self._slot[id(o)] = s
        return s

    def sync(self):
        """Track every object the session knows about (loaded by lazy loads, made by merge)."""
        for o in list(self.session.identity_map.values()):
            self.track(o)
        for o in list(self.session.new):
            if id(o) not in self._slot:
                self.created.add(id(o))   # made by the library (merge) and still pending
            self.track(o)

    # -- reading the database without SQLAlchemy -----------------------------
    def raw(self):
        for k in sorted(self.spy.open, reverse=True):
            return self.spy.open[k].raw
        return None

    def read_txn(self, sql, params=()):
        """Rows as the session's own DBAPI connection sees them (in-transaction state)."""
        raw = self.raw()
        if raw is None:
            return self.read_committed(sql, params)
        cur = raw.execute(sql, params)
        names = [d[0] for d in cur.description]
        rows = cur.fetchall()
        cur.close()
        return names, rows

    def read_committed(self, sql, params=()):
        cur = self.obs.execute(sql, params)
        names = [d[0] for d in cur.description]
        rows = cur.fetchall()
        cur.close()
        return names, rows

    def dump(self, reader=None):
        reader = reader or self.read_txn
        out = {}
        for t in self.zoo.tables:
            pk = ", ".join(self.zoo.table_pk[t])
            out[t] = reader(f"SELECT * FROM {t} ORDER BY {pk}")[1]
        return out

    def dml_since(self, mark):
        return [e for e in self.spy.log[mark:] if e.kind in ("execute", "executemany") and is_dml(e.sql)]

    def close(self):
        self.zoo.on_hook = None
        self.zoo.on_reload = None
        try:
            self.session.close()
        except Exception:
            pass
        self.engine.dispose()
        self.obs.close()
        for suffix in ("", "-journal"):
            try:
                os.remove(self.path + suffix)
            except OSError:
                pass


def canon_dump(zoo, dump, depth=4):
    """A dump with surrogate integer keys abstracted away: every row becomes the tuple of
    its non-key values, each FK value replaced (recursively, to ``depth``) by the
    signature of the row it references.  Two runs of the same work may hand the
    autoincrement ids of same-class objects out in a different order (the unit of work
    sorts pending objects by ``insert_order`` = ``len(session._new)`` at add time, which
    has ties after an expunge); the canonical form is insensitive to that."""
    md = zoo.md
    colnames = {t: [c.name for c in md.tables[t].columns] for t in dump}
    rows = {}
    for t in dump:
        pkn = zoo.table_pk[t]
        idx = [colnames[t].index(c) for c in pkn]
        rows[t] = {tuple(r[i] for i in idx): r for r in dump[t]}
    fks = {}
    for t in dump:
        for c in md.tables[t].columns:
            for fk in c.foreign_keys:
                fks[(t, c.name)] = (fk.column.table.name, fk.column.name)

    def sig(t, r, d):
        out = []
        for name, v in zip(colnames[t], r):
            col = md.tables[t].c[name]
            if (t, name) in fks:
                rt, rc = fks[(t, name)]
                if v is None:
                    out.append((name, None))
                elif d <= 0:
                    out.append((name, "deep"))
                else:
                    ref = rows[rt].get((v,)) if zoo.table_pk[rt] == [rc] else None
                    out.append((name, sig(rt, ref, d - 1) if ref is not None else ("dangling", v)))
            elif col.primary_key and col.type.python_type is int:
                continue
            else:
                out.append((name, v))
        return tuple(out)

    return {t: sorted((sig(t, r, depth) for r in dump[t]), key=repr) for t in dump}


# ---------------------------------------------------------------------------
# snapshot (reads state.dict only)
# ---------------------------------------------------------------------------
def state_kind(st, session):
    if st.key is None:
        return "pending" if (st.session_id is not None and st.session is session) else "transient"
    if st.session_id is None or st.session is not session:
        return "detached"
    return "deleted" if st._deleted else "persistent"


def snapshot(rig):
    """{id(obj): entry} for every tracked object; reads ``state.dict`` only."""
    import sqlalchemy as sa

    rig.sync()
    zoo = rig.zoo
    snap = {}
    i = 0
    while i < len(rig.objs):  # may grow: untracked collection members get tracked
        o = rig.objs[i]
        st = sa.inspect(o)
        mi = zoo.info(st.mapper)
        d = st.dict
        if st.key is not None:
            rig.idents_seen.setdefault(id(o), set()).add(tuple(st.key[1]))
        e = {
            "slot": i, "cls": mi.name, "base": mi.base,
            "kind": "detached" if id(o) in rig.zombies else state_kind(st, rig.session),
            "ident": tuple(st.key[1]) if st.key else None, "was_deleted": bool(st._deleted),
            "cols": {}, "comp": {}, "m2o": {}, "coll": {}, "mi": mi,
            "idents_seen": set(rig.idents_seen.get(id(o), ())),
        }
        for key, _ in mi.col_attrs:
            if key in d:
                e["cols"][key] = d[key]
        for key, _ in mi.composites:
            if key in d:
                e["comp"][key] = d[key]
        for key, _ in mi.m2o:
            if key in d:
                v = d[key]
                if v is None:
                    e["m2o"][key] = None
                else:
                    rig.track(v)
                    e["m2o"][key] = id(v)
        for key, _, _ in mi.colls:
            if key in d:
                members = list(d[key])
                for x in members:
                    rig.track(x)
                e["coll"][key] = [id(x) for x in members]
        snap[id(o)] = e
        i += 1
    return snap


def snap_public(snap):
    """JSON-able digest of a snapshot (for witnesses / samples)."""
    out = []
    for e in snap.values():
        out.append({
            "slot": e["slot"], "cls": e["cls"], "kind": e["kind"], "ident": e["ident"],
            "cols": e["cols"], "comp": {k: repr(v) for k, v in e["comp"].items()},
            "m2o": {k: (None if v is None else snap[v]["slot"]) for k, v in e["m2o"].items()},
            "coll": {k: [snap[x]["slot"] for x in v] for k, v in e["coll"].items()},
        })
    return out


# ---------------------------------------------------------------------------
# the consistency relation (a)-(e)
# ---------------------------------------------------------------------------
class Finding:
    __slots__ = ("mechanism", "summary", "detail")

    def __init__(self, mechanism, summary, detail=None):
        self.mechanism = mechanism
        self.summary = summary
        self.detail = detail


def relation(rig, snap, reader, counters=None, exclude=None):
    """Judge a snapshot against rows.  Returns a list of Finding; ``counters`` (a dict) is
    incremented with what was actually compared.  ``exclude`` is a set of
    (id(obj), attribute key) that must not be compared (S8, see C33)."""
    zoo = rig.zoo
    if exclude:
        snap = dict(snap)
        for oid, e in list(snap.items()):
            ks = {k for (i, k) in exclude if i == oid}
            if ks:
                e = dict(e)
                for part in ("cols", "comp", "m2o", "coll"):
                    e[part] = {k: v for k, v in e[part].items() if k not in ks}
                snap[oid] = e
    cnt = counters if counters is not None else {}

    def bump(k, n=1):
        cnt[k] = cnt.get(k, 0) + n

    findings = []
    # pk tuples per table
    table_rows = {}
    for t in zoo.tables:
        names, rows = reader(f"SELECT * FROM {t}")
        pkn = zoo.table_pk[t]
        idx = [names.index(c) for c in pkn]
        table_rows[t] = {tuple(r[i] for i in idx): dict(zip(names, r)) for r in rows}

    persistent_by_ident = {}
    for e in snap.values():
        if e["kind"] == "persistent":
            persistent_by_ident.setdefault((e["base"], e["ident"]), []).append(e)
    for key, lst in persistent_by_ident.items():
        if len(lst) > 1:
            findings.append(Finding("two-persistent-objects-one-identity", f"{key}: slots {[x['slot'] for x in lst]}"))

    owners = {t: set() for t in zoo.tables}       # pk tuples owned by a live object
    for e in snap.values():
        mi = e["mi"]
        if e["ident"] is None:
            continue
        # detached objects make no claim (S5) but may be what created the row; that
        # includes objects deleted in a transaction that close() then rolled back
        # (they stay ``was_deleted`` although their row is back)
        live = e["kind"] in ("persistent", "detached")
        if not live:
            continue
        # a detached object may carry a key that a rolled-back transaction (close())
        # switched: every identity it was ever seen with counts
        idents = [e["ident"]] if e["kind"] == "persistent" else ({e["ident"]} | e["idents_seen"])
        for ident in idents:
            identd = dict(zip(mi.pk_keys, ident))
            for t in mi.tables:
                owners[t.name].add(tuple(identd[k] for _, k in mi.table_pk_keys[t.name]))

    for e in snap.values():
        mi = e["mi"]
        if e["ident"] is None:
            continue
        identd = dict(zip(mi.pk_keys, e["ident"]))
        tpk = {t.name: tuple(identd[k] for _, k in mi.table_pk_keys[t.name]) for t in mi.tables}
        if e["kind"] == "deleted":
            # (b) an object the session reports deleted whose row exists (and nobody else owns it)
            for tn, pk in tpk.items():
                bump("deleted_objects_checked")
                if pk in table_rows[tn] and pk not in owners[tn]:
                    findings.append(Finding("deleted-object-row-exists", f"{e['cls']}{e['ident']} slot {e['slot']} is {e['kind']} but {tn}{pk} exists", {"slot": e["slot"], "row": table_rows[tn][pk]}))
            continue
        if e["kind"] != "persistent":
            continue
        rows = {}
        missing = False
        for tn, pk in tpk.items():
            r = table_rows[tn].get(pk)
            if r is None:
                findings.append(Finding("persistent-object-without-row", f"{e['cls']}{e['ident']} slot {e['slot']} is persistent but {tn}{pk} does not exist", {"slot": e["slot"]}))
                missing = True
            rows[tn] = r
        bump("persistent_objects_checked")
        if missing:
            continue
        # (a) loaded column attributes
        for key, cols in mi.col_attrs:
            if key not in e["cols"]:
                continue
            v = e["cols"][key]
            for tn, cn in cols:
                bump("column_values_compared")
                if rows[tn][cn] != v:
                    findings.append(Finding("loaded-column-ne-row", f"{e['cls']}{e['ident']}.{key} = {v!r} in memory, {tn}.{cn} = {rows[tn][cn]!r} in the database", {"slot": e["slot"], "attr": key}))
        for key, keys in mi.composites:
            if key not in e["comp"]:
                continue
            v = e["comp"][key]
            vals = tuple(v.__composite_values__()) if v is not None else (None,) * len(keys)
            for k, cv in zip(keys, vals):
                for kk, cols in mi.col_attrs:
                    if kk == k:
                        tn, cn = cols[0]
                        bump("composite_values_compared")
                        if rows[tn][cn] != cv:
                            findings.append(Finding("loaded-composite-ne-row", f"{e['cls']}{e['ident']}.{key} = {v!r}, {tn}.{cn} = {rows[tn][cn]!r}", {"slot": e["slot"], "attr": key}))
        # (c) loaded many-to-one
        for key, pairs in mi.m2o:
            if key not in e["m2o"]:
                continue
            tid = e["m2o"][key]
            if tid is None:
                for tn, cn, _ in pairs:
                    bump("m2o_compared")
                    if rows[tn][cn] is not None:
                        findings.append(Finding("m2o-none-but-fk-set", f"{e['cls']}{e['ident']}.{key} is None, {tn}.{cn} = {rows[tn][cn]!r}", {"slot": e["slot"], "attr": key}))
                continue
            te = snap[tid]
            if te["kind"] != "persistent":
                bump("m2o_skipped_target_not_persistent")   # S1
                continue
            tidentd = dict(zip(te["mi"].pk_keys, te["ident"]))
            for tn, cn, rk in pairs:
                bump("m2o_compared")
                if rk not in tidentd:
                    continue
                if rows[tn][cn] != tidentd[rk]:
                    findings.append(Finding("m2o-target-ne-fk", f"{e['cls']}{e['ident']}.{key} -> {te['cls']}{te['ident']}, {tn}.{cn} = {rows[tn][cn]!r}", {"slot": e["slot"], "attr": key}))
        # (d) loaded collections
        for key, kind, ci in mi.colls:
            if key not in e["coll"]:
                continue
            pv = identd[ci["parent_key"]]
            names, rs = reader(f"SELECT {', '.join(ci['pk'])} FROM {ci['table']} WHERE {ci['fk']} = ?", (pv,))
            R = {tuple(r) for r in rs}
            Mp, Mother = set(), set()
            for xid in e["coll"][key]:
                xe = snap[xid]
                if xe["kind"] == "persistent":
                    Mp.add(xe["ident"])
                elif xe["kind"] == "transient" and ci["save_update"] and xe["slot"] not in rig.let_go:
                    # the parent is persistent, the relationship cascades save-update, the
                    # history never expunged this member -- yet it is outside the session and
                    # the flush left it out (SAWarning "not in session ... will not proceed")
                    findings.append(Finding(
                        "member-orphaned-outside-session-dropped-at-flush" if xe["slot"] in rig.orphaned_outside
                        else "collection-member-dropped-from-session-not-inserted",
                        f"{e['cls']}{e['ident']}.{key} lists a {xe['cls']} (slot {xe['slot']}) that the session silently dropped; no row was written for it",
                        {"slot": e["slot"], "attr": key, "member_slot": xe["slot"]}))
                elif xe["ident"] is not None:
                    Mother.add(xe["ident"])
                    bump("collection_members_filtered")   # S1 / S5
            bump("collections_compared")
            bump("collection_members_compared", len(Mp))
            for k in sorted(Mp - R, key=repr):
                findings.append(Finding(f"{kind}-loaded-member-has-no-referencing-row", f"{e['cls']}{e['ident']}.{key} lists {ci['member_base']}{k} but no row of {ci['table']} links them", {"slot": e["slot"], "attr": key}))
            for k in sorted(R - Mp - Mother, key=repr):
                if (ci["member_base"], k) in persistent_by_ident:
                    findings.append(Finding(f"{kind}-row-links-member-absent-from-loaded-collection", f"{ci['table']} links {ci['member_base']}{k} to {e['cls']}{e['ident']} but loaded .{key} does not list it", {"slot": e["slot"], "attr": key}))
                else:
                    bump("collection_rows_of_objects_outside_session")   # S5
    # (g) the rows themselves: every foreign key value references an existing row (always true
    # while the database enforces it; decisive when the rig runs with foreign_keys=OFF)
    names, bad = reader("PRAGMA foreign_key_check")
    bump("foreign_key_checks")
    for r in bad[:5]:
        findings.append(Finding("row-references-missing-row", f"{r[0]} rowid {r[1]} references a missing row of {r[2]}", {"row": list(r)}))
    # (e) rows nobody owns
    for t in zoo.tables:
        if t in zoo.secondary_tables:
            continue
        for pk in table_rows[t]:
            bump("rows_checked_for_owner")
            if pk not in owners[t]:
                findings.append(Finding("row-without-owner", f"{t}{pk} exists but no live object has that identity", {"row": table_rows[t][pk]}))
    return findings


def intent_findings(rig, snap, counters=None):
    """What the history explicitly asked to be persisted -- Session.add() of an object built
    outside the session, Session.add() of an object marked deleted and not flushed -- is
    persistent after the flush.  Called right after a flush; verified slots are dropped."""
    by_slot = {e["slot"]: e for e in snap.values()}
    out = []
    for slot in sorted(rig.must_live):
        e = by_slot.get(slot)
        if counters is not None:
            counters["explicit_adds_checked"] = counters.get("explicit_adds_checked", 0) + 1
        if e is None or e["kind"] == "persistent":
            continue
        mech = ("member-orphaned-outside-session-dropped-at-flush" if slot in rig.orphaned_outside
                else "explicitly-added-object-not-persistent-after-flush")
        out.append(Finding(mech, f"{e['cls']} slot {slot} was add()ed by the history and is {e['kind']} after the flush", {"slot": slot}))
    rig.must_live.clear()
    rig.orphaned_outside = {sl for sl in rig.orphaned_outside if by_slot.get(sl) is not None and by_slot[sl]["kind"] == "transient"
                            and id(rig.objs[sl]) in rig.pool}
    return out


def fresh_compare(rig, snap, counters=None):
    """(f): load every persistent object of the snapshot in a brand-new Session on a plain
    engine and compare what was loaded in the live graph with the freshly loaded graph."""
    import sqlalchemy as sa
    from sqlalchemy import orm

    cnt = counters if counters is not None else {}

    def bump(k, n=1):
        cnt[k] = cnt.get(k, 0) + n

    findings = []
    eng = sa.create_engine("sqlite:///" + rig.path)
    persistent_by_ident = {(e["base"], e["ident"]) for e in snap.values() if e["kind"] == "persistent"}
    try:
        with orm.Session(eng) as fs:
            for e in snap.values():
                if e["kind"] != "persistent":
                    continue
                cls = rig.zoo.cls[e["cls"]]
                f = fs.get(rig.zoo.cls[e["base"]], e["ident"])
                bump("fresh_objects_loaded")
                if f is None:
                    findings.append(Finding("fresh-load-missing", f"{e['cls']}{e['ident']} not found by a new Session", {"slot": e["slot"]}))
                    continue
                if type(f) is not cls:
                    findings.append(Finding("fresh-load-class-differs", f"{e['cls']}{e['ident']} loads as {type(f).__name__}", {"slot": e["slot"]}))
                    continue
                for key, v in e["cols"].items():
                    bump("fresh_values_compared")
                    if getattr(f, key) != v:
                        findings.append(Finding("fresh-load-column-differs", f"{e['cls']}{e['ident']}.{key}: live {v!r}, fresh {getattr(f, key)!r}", {"slot": e["slot"], "attr": key}))
                for key, v in e["comp"].items():
                    bump("fresh_values_compared")
                    if getattr(f, key) != v:
                        findings.append(Finding("fresh-load-composite-differs", f"{e['cls']}{e['ident']}.{key}: live {v!r}, fresh {getattr(f, key)!r}", {"slot": e["slot"], "attr": key}))
                for key, tid in e["m2o"].items():
                    fv = getattr(f, key)
                    fid = tuple(sa.inspect(fv).identity) if fv is not None else None
                    if tid is None:
                        want = None
                    else:
                        te = snap[tid]
                        if te["kind"] != "persistent":
                            continue
                        want = te["ident"]
                    bump("fresh_values_compared")
                    if fid != want:
                        findings.append(Finding("fresh-load-m2o-differs", f"{e['cls']}{e['ident']}.{key}: live {want!r}, fresh {fid!r}", {"slot": e["slot"], "attr": key}))
                mi = e["mi"]
                for key, kind, ci in mi.colls:
                    if key not in e["coll"]:
                        continue
                    R = {tuple(sa.inspect(x).identity) for x in getattr(f, key)}
                    Mp = {snap[x]["ident"] for x in e["coll"][key] if snap[x]["kind"] == "persistent"}
                    Mo = {snap[x]["ident"] for x in e["coll"][key] if snap[x]["kind"] != "persistent" and snap[x]["ident"] is not None}
                    bump("fresh_values_compared")
                    bad = (Mp - R) | {k for k in (R - Mp - Mo) if (ci["member_base"], k) in persistent_by_ident}
                    if bad:
                        findings.append(Finding("fresh-load-collection-differs", f"{e['cls']}{e['ident']}.{key}: live {sorted(Mp, key=repr)}, fresh {sorted(R, key=repr)}", {"slot": e["slot"], "attr": key}))
    finally:
        eng.dispose()
    return findings


# ---------------------------------------------------------------------------
# interpreter
# ---------------------------------------------------------------------------
class Skip(Exception):
    """The op's guard said no: nothing was done."""


class Interp:
    """Applies recorded ops to a rig.  Ops are JSON-able lists; objects are slots."""

    def __init__(self, rig):
        self.rig = rig
        self.s = rig.session
        self.zoo = rig.zoo
        self.used_pairs = set()
        self.txn_base = 0    # slots below this existed at the last commit / rollback / close
        self.txn_mark = rig.spy.mark()   # spy log position of that boundary

    # -- helpers ------------------------------------------------------------
    def obj(self, slot):
        return self.rig.objs[slot]

    def usable(self, o):
        """In this session, pending or persistent, not marked for deletion."""
        import sqlalchemy as sa

        st = sa.inspect(o)
        if st.session is not self.s:
            return False
        if st._deleted or o in self.s.deleted:
            return False
        return True

    def need(self, cond):
        if not cond:
            raise Skip()

    def pooled(self, o):
        """Built by the history, not yet in any session."""
        import sqlalchemy as sa

        st = sa.inspect(o)
        return st.key is None and st.session is None and id(o) in self.rig.pool

    def workable(self, o):
        return self.usable(o) or self.pooled(o)

    def _pool_sync(self):
        import sqlalchemy as sa

        for o in self.rig.objs:
            if id(o) in self.rig.pool and sa.inspect(o).session is not None:
                self.rig.pool.discard(id(o))

    def _released(self, parent, x):
        """``x`` leaves a collection of ``parent`` by the history's own doing."""
        slot = self.rig.track(x)
        self.rig.must_live.discard(slot)
        if self.pooled(parent) and self.pooled(x):
            self.rig.orphaned_outside.add(slot)
        else:
            # a *pending* member removed from a delete-orphan collection is expunged, at once
            # (parent in the session) or by the next flush (parent outside): by design
            self.rig.let_go.add(slot)

    @staticmethod
    def _conv(cls, scalars):
        kw = dict(scalars)
        for k in SPEC[cls].get("composites", ()):
            if k in kw and kw[k] is not None:
                kw[k] = Point(*kw[k])
        return kw

    def _set_slot(self, slot, o):
        rig = self.rig
        rig.created.add(id(o))
        if slot == len(rig.objs):
            rig.track(o)
        elif slot < len(rig.objs):
            # replay with fresh objects (C32 rerun): rebind the slot
            old = rig.objs[slot]
            rig._slot.pop(id(old), None)
            rig.objs[slot] = o
            rig._slot[id(o)] = slot
        else:
            raise AssertionError("slot gap")

    # -- dispatch -----------------------------------------------------------
    def apply(self, op):
        """Returns True if applied, False if the guard skipped it."""
        try:
            getattr(self, "op_" + op[0])(*op[1:])
            return True
        except Skip:
            return False

    # -- object construction --------------------------------------------------
    def op_new(self, cls, slot, scalars, m2o):
        if slot is None:   # "next free slot" (scripted alphabets may repeat the op)
            slot = len(self.rig.objs)
        c = self.zoo.cls[cls]
        kw = self._conv(cls, scalars)
        targets = {}
        for r, ts in m2o.items():
            if ts is None:
                continue
            t = self.obj(ts)
            self.need(self.usable(t))
            targets[r] = t
        if cls == "ArtTag":
            a, t = targets["art"], targets["tag"]
            self.need((id(a), id(t)) not in self.used_pairs)
            if a.id is not None and t.id is not None:
                self.need(self.s.get(c, (a.id, t.id)) is None)
            self.used_pairs.add((id(a), id(t)))
        o = c(**kw)
        for r, t in targets.items():
            setattr(o, r, t)
        self._set_slot(slot, o)
        self.s.add(o)

    def op_tnew(self, cls, slot, scalars):
        """Construct an object and keep it outside any session (graph building)."""
        if slot is None:
            slot = len(self.rig.objs)
        o = self.zoo.cls[cls](**self._conv(cls, scalars))
        self._set_slot(slot, o)
        self.rig.pool.add(id(o))

    def _cascade_clean(self, o):
        """Everything the save-update cascade reaches from ``o`` is either still outside any
        session since it was built (pool) or live in this session, and insertable.  An object
        that already went through a session (rolled back, closed) keeps what happened to it
        there in memory (documented); attaching it again is S5 staleness."""
        import sqlalchemy as sa

        seen, todo = set(), [o]
        while todo:
            x = todo.pop()
            if id(x) in seen:
                continue
            seen.add(id(x))
            if not self.pooled(x):
                self.need(self.usable(x))
                continue
            sp = SPEC[type(x).__name__]
            d = sa.inspect(x).dict
            for rel, (targets, nullable) in sp["m2o"].items():
                self.need(nullable or d.get(rel) is not None)
                if d.get(rel) is not None:
                    todo.append(d[rel])
            for rel in sp["colls"]:
                todo.extend(list(d.get(rel, ())))

    def op_add(self, slot):
        """Session.add() of an object built outside the session (its collections cascade)."""
        o = self.obj(slot)
        self.need(self.pooled(o))
        self._cascade_clean(o)
        self.s.add(o)
        self._pool_sync()
        self.rig.must_live.add(slot)
        if slot in self.rig.orphaned_outside:
            # an orphan of a delete-orphan relationship that is add()ed is INSERTed, and deleted
            # again by a later flush once it is modified (persistent orphan): judge it now
            self.s.flush()

    def op_undel(self, slot):
        """Session.add() of an object marked with Session.delete() and not flushed yet."""
        import sqlalchemy as sa

        o = self.obj(slot)
        st = sa.inspect(o)
        self.need(st.persistent and st.session is self.s and o in self.s.deleted)
        self.need(slot not in self.rig.switched_out)   # its primary key now belongs to the replacement
        self.need(slot not in self.rig.let_go)         # released from a delete-orphan parent: an orphan stays deleted
        with self.s.no_autoflush:
            if type(o).__name__ == "Node" and o.parent is not None:
                self._node_ok(o.parent, o)             # the walk skips nodes marked deleted: re-check with it alive
            # marked by the delete cascade of an owner that is still to be deleted: its row
            # would keep pointing at the owner's row (contradictory input)
            for y in list(self.s.deleted):
                if y is not o:
                    sy = sa.inspect(y)
                    for o_, m_, st_, d_ in sy.mapper.cascade_iterator("delete", sy):
                        self.need(o_ is not o)
            for rel, (targets, nullable) in SPEC[type(o).__name__]["m2o"].items():
                t = getattr(o, rel)
                self.need(t is None or self.usable(t))   # its row must not point at a row being deleted
            # add() cascades along loaded collections; one that still lists an object whose
            # DELETE was already flushed (S1) makes add() raise "has been deleted"
            for o_, m_, st_, d_ in st.mapper.cascade_iterator("save-update", st):
                self.need(not st_._deleted)
        self.s.add(o)
        self.rig.must_live.add(slot)

    def op_set(self, slot, attr, value):
        o = self.obj(slot)
        self.need(self.usable(o))
        if isinstance(value, list):
            value = Point(*value)
        setattr(o, attr, value)

    def op_m2o(self, slot, rel, tslot):
        o = self.obj(slot)
        self.need(self.usable(o))
        if tslot is None:
            getattr(o, rel)   # S7
            setattr(o, rel, None)
            return
        t = self.obj(tslot)
        self.need(self.usable(t) and t is not o)
        getattr(o, rel)   # S7: load the old value so the backref can maintain the old collection
        self.need(self.usable(o) and self.usable(t))   # that load may have autoflushed
        self._moving_pending(o)
        if type(o).__name__ == "Node":
            self._node_ok(t, o)
        setattr(o, rel, t)

    # -- collections ----------------------------------------------------------
    def _coll(self, slot, rel):
        o = self.obj(slot)
        self.need(self.workable(o))
        return o, getattr(o, rel)

    def _pretouch(self, parent, rel, x):
        """S7: a backref cannot remove ``x`` from its old parent's loaded collection when
        x's many-to-one is expired (it would need SQL; documented, see active_history).  Load
        the reverse many-to-one first, as an application that re-parents would."""
        import sqlalchemy as sa

        prop = sa.inspect(type(parent)).relationships[rel]
        for rp in prop._reverse_property:
            if not rp.uselist and sa.inspect(x).session is self.s:
                getattr(x, rp.key)

    def _add(self, coll, x):
        if isinstance(coll, set):
            coll.add(x)
        else:
            coll.append(x)

    def _node_ok(self, parent, child):
        """Keep the tree acyclic.  The unit of work orders a node after its new *and* its
        old (not yet flushed) parent, so the walk follows current and committed parents:
        the union of both edge sets must stay acyclic (see C31 probe
        'self-ref-parent-child-swap' for the case this guard keeps out of random histories)."""
        import sqlalchemy as sa

        if type(parent).__name__ != "Node":
            return
        self.need(child is not parent)
        seen, todo = set(), [parent]
        while todo:
            x = todo.pop()
            if x is None or id(x) in seen:
                continue
            self.need(x is not child)
            if not self.workable(x):
                seen.add(id(x))
                continue
            seen.add(id(x))
            self.need(len(seen) < 300)
            todo.append(x.parent)
            for old in sa.inspect(x).attrs.parent.history.deleted or ():
                todo.append(old)

    def _uni_ok(self, o, rel, x):
        if SPEC[type(o).__name__]["colls"][rel][1] != "o2m_uni":
            return
        # no reverse side keeps other owners' collections in step: a member may be
        # appended only while nobody of that class owns it (FK attribute loaded and None,
        # listed nowhere)
        import sqlalchemy as sa

        fkattr = [ci["fk"] for key, kind, ci in self.zoo.info(sa.inspect(type(o))).colls if key == rel][0]
        self.need(sa.inspect(x).dict.get(fkattr, 0) is None or sa.inspect(x).key is None)
        for y in self.rig.objs:
            if type(y) is type(o) and y is not o and x in sa.inspect(y).dict.get(rel, ()):
                raise Skip()
        if type(x).__name__ == "Note":
            # one delete-orphan parent (Draft or Folder) at a time: what a flush does with a child
            # removed from one such parent and held by another depends on flush boundaries
            if sa.inspect(x).key is not None:
                self.need(sa.inspect(x).dict.get("draft_id", 0) is None and sa.inspect(x).dict.get("folder_id", 0) is None)
            for y in self.rig.objs:
                if type(y).__name__ in ("Draft", "Folder") and y is not o and x in sa.inspect(y).dict.get("notes", ()):
                    raise Skip()

    def _uni_pending(self, o, rel, x):
        """Z9: a persistent child removed from one delete-orphan parent and appended to another
        in the same flush is neither deleted nor un-linked (the append cancels the orphan
        delete, nothing nulls the FK): reported as an observation, kept out of the histories."""
        import sqlalchemy as sa

        if SPEC[type(o).__name__]["colls"][rel][1] != "o2m_uni" or sa.inspect(x).key is None:
            return
        for y in self.rig.objs:
            st = sa.inspect(y)
            if st.session is not self.s:
                continue
            for key, _, _ in self.zoo.info(st.mapper).colls:
                if key in st.dict:
                    h = st.attrs[key].history
                    self.need(x not in (h.added or ()) and x not in (h.deleted or ()))

    def _moving_pending(self, x):
        """A pending object that changes parents may be dropped by the known delete-orphan
        defect (judged by relation rule (d)); the intent rule does not double-report it."""
        import sqlalchemy as sa

        st = sa.inspect(x)
        if st.key is None and st.session is self.s:
            self.rig.must_live.discard(self.rig.track(x))
            self.rig.orphaned_outside.discard(self.rig.track(x))

    def op_app(self, slot, rel, mslot):
        o, coll = self._coll(slot, rel)
        x = self.obj(mslot)
        # a graph may be built before anything is in a session: a parent outside any session
        # takes members that are outside any session; a session parent takes both kinds
        self.need((self.pooled(x) if self.pooled(o) else self.workable(x)) and x not in coll)
        self._uni_ok(o, rel, x)
        self._uni_pending(o, rel, x)
        self._node_ok(o, x)
        self._pretouch(o, rel, x)
        self._moving_pending(x)
        if self.pooled(o):
            self.rig.orphaned_outside.discard(self.rig.track(x))   # it has a parent again
        elif self.pooled(x):
            self._cascade_clean(x)
        # the loads above may have autoflushed: a persistent delete-orphan member that was
        # released earlier is in the 'deleted' state by now (attaching it raises the documented
        # "has been deleted" error), so the guards are evaluated again on the flushed state
        self.need(self.workable(o) and self.workable(x))
        self._add(coll, x)
        self._pool_sync()

    def op_rem(self, slot, rel, mslot):
        o, coll = self._coll(slot, rel)
        x = self.obj(mslot)
        self.need(x in coll and self.workable(x))
        self._uni_pending(o, rel, x)
        coll.remove(x)
        self._released(o, x)

    def op_repl(self, slot, rel, mslots):
        o, coll = self._coll(slot, rel)
        xs = []
        for ms in mslots:
            x = self.obj(ms)
            if (self.pooled(x) if self.pooled(o) else self.workable(x)) and x not in xs:
                try:
                    self._node_ok(o, x)
                    if x not in coll:
                        self._uni_ok(o, rel, x)
                except Skip:
                    continue
                self._pretouch(o, rel, x)
                self._moving_pending(x)
                if self.pooled(x) and not self.pooled(o):
                    try:
                        self._cascade_clean(x)
                    except Skip:
                        continue
                xs.append(x)
        # members that leave the collection must be usable too (no deleted objects juggling)
        xs = [x for x in xs if self.workable(x)]   # re-evaluated after the loads above (autoflush)
        self.need(self.workable(o))
        for x in list(coll):
            if x not in xs:
                self.need(self.workable(x))
        for x in set(list(coll)) ^ set(xs):
            self._uni_pending(o, rel, x)
        for x in list(coll):
            if x not in xs:
                self._released(o, x)
        if self.pooled(o):
            # members placed into the collection of a parent outside any session have a parent
            # again (as in op_app); a later MOVE of such a member to a session parent is the
            # registered two-parents defect, not an "orphaned outside the session" history
            for x in xs:
                self.rig.orphaned_outside.discard(self.rig.track(x))
        setattr(o, rel, set(xs) if isinstance(coll, set) else xs)
        self._pool_sync()

    def op_clr(self, slot, rel):
        o, coll = self._coll(slot, rel)
        for x in list(coll):
            self.need(self.workable(x))
            self._uni_pending(o, rel, x)
        for x in list(coll):
            self._released(o, x)
        if isinstance(coll, set):
            coll.clear()
        else:
            del coll[:]

    def op_pop(self, slot, rel):
        o, coll = self._coll(slot, rel)
        self.need(len(coll) > 0 and not isinstance(coll, set))
        self.need(self.workable(coll[-1]))
        self._uni_pending(o, rel, coll[-1])
        self._released(o, coll[-1])
        coll.pop()

    # -- delete / expunge / merge --------------------------------------------
    def _pending_refs(self, o):
        """True when ``o`` takes part in a relationship change that is not flushed yet: some
        in-session object newly references it (many-to-one set, collection append), or it
        newly references others.  Deleting it in the same flush is contradictory input
        (the final state would reference a deleted row): never generated."""
        import sqlalchemy as sa

        for x in self.rig.objs:
            st = sa.inspect(x)
            if st.session is not self.s or st._deleted:
                continue
            mi = self.zoo.info(st.mapper)
            keys = [k for k, _ in mi.m2o] + [k for k, _, _ in mi.colls]
            for key in keys:
                if key not in st.dict:
                    continue
                added = [a for a in (st.attrs[key].history.added or ()) if a is not None]
                if not added:
                    continue
                if x is o:
                    return True
                for a in added:
                    if a is o:
                        return True
        return False

    def _cascade_ok(self, o):
        """Session.delete() cascades along loaded collections; a collection may still list
        an object already deleted by an earlier flush (S1).  Cascading onto such a stale
        member puts a 'deleted' object back into the session: never generated."""
        import sqlalchemy as sa

        st = sa.inspect(o)
        # first walk: loads whatever the cascade needs (a lazy load may autoflush and turn
        # objects marked for deletion into 'deleted' ones); second walk: judge the states
        list(st.mapper.cascade_iterator("delete", st))
        for o_, m_, st_, d_ in st.mapper.cascade_iterator("delete", st):
            if st_._deleted or st_.session is not self.s:
                return False
            # an object reached by the delete cascade must not take part in an unflushed
            # relationship change either (e.g. a pending child hanging under it)
            if st_.key is not None and self._pending_refs(o_):
                return False
        # S5: a loaded collection listing an expunged object: the session will not
        # null / unlink that row ("not in session ... will not proceed"), so the DELETE of
        # the parent row would be refused by the database: invalid by construction.
        for key, _, _ in self.zoo.info(st.mapper).colls:
            if key in st.dict:
                for x in list(st.dict[key]):
                    if sa.inspect(x).session is not self.s:
                        return False
        return True

    def _forget_deleted(self):
        for x in self.s.deleted:
            self.rig.must_live.discard(self.rig.track(x))

    def _inbound(self, o):
        """Rows that reference ``o`` through a one-directional relationship (NRef.node,
        Node.tags) are not handled by any ORM rule when ``o`` is deleted: the application
        un-links or deletes them in the same flush.  Returns the actions, raises Skip."""
        import sqlalchemy as sa

        Z = self.zoo.cls
        acts = []
        with self.s.no_autoflush:   # the look-up is the harness's, it must not split the flush
            return self._inbound_impl(o, Z, acts)

    def _inbound_impl(self, o, Z, acts):
        import sqlalchemy as sa

        if type(o).__name__ == "NTag" and o.id is not None:
            t = self.zoo.md.tables["node_ntag"]
            nodes = self.s.scalars(sa.select(Z["Node"]).join(t, t.c.node_id == Z["Node"].id).where(t.c.ntag_id == o.id)).all()
            for n in nodes:
                self.need(self.usable(n))
            for n in nodes:
                def act(n=n):
                    if o in n.tags:
                        n.tags.remove(o)
                acts.append(act)
        st = sa.inspect(o)
        nodes = ([o] if type(o).__name__ == "Node" else []) + [
            o_ for o_, m_, st_, d_ in st.mapper.cascade_iterator("delete", st) if type(o_).__name__ == "Node"]
        if nodes:
            for n in nodes:
                if n.id is None:
                    continue
                for r in self.s.scalars(sa.select(Z["NRef"]).where(Z["NRef"].node_id == n.id)).all():
                    self.need(self.usable(r))
                    if self.rig.track(r) % 2:
                        acts.append(lambda r=r: setattr(r, "node", None))
                    else:
                        self.need(not self._pending_refs(r))
                        acts.append(lambda r=r: self.s.delete(r))
        return acts

    def op_del(self, slot):
        import sqlalchemy as sa

        o = self.obj(slot)
        st = sa.inspect(o)
        self.need(st.persistent and st.session is self.s and o not in self.s.deleted)
        self.need(SPEC[type(o).__name__]["delete"] == "free")
        self.need(not self._pending_refs(o))
        self.need(self._cascade_ok(o))
        acts = self._inbound(o)
        self.need(not self._pending_refs(o))
        for act in acts:
            act()
        self.s.delete(o)
        self._forget_deleted()

    def op_cycdel(self, slot):
        """Delete a CycA/CycB after un-linking every object that references it."""
        import sqlalchemy as sa

        o = self.obj(slot)
        st = sa.inspect(o)
        self.need(st.persistent and st.session is self.s and o not in self.s.deleted)
        self.need(not self._pending_refs(o))
        A, B = self.zoo.cls["CycA"], self.zoo.cls["CycB"]
        if isinstance(o, A):
            refs = self.s.scalars(sa.select(B).where(B.a_id == o.id)).all()
            for b in refs:
                self.need(self.usable(b))
            for b in refs:
                b.a = None
        else:
            refs = self.s.scalars(sa.select(A).where(A.b_id == o.id)).all()
            for a in refs:
                self.need(self.usable(a))
            for a in refs:
                a.b = None
        self.s.delete(o)
        self._forget_deleted()

    def op_exp(self, slot):
        o = self.obj(slot)
        self.need(self.usable(o))
        self.need(not self._pending_refs(o))   # S5: others must not depend on it in this flush
        # S5: the session forgets an expunged object entirely, including that it INSERTed
        # its row in the current transaction; a copy loaded later would stay persistent
        # across a rollback.  Only objects that predate the transaction are expunged.
        self.need(slot < self.txn_base)
        # ... and only while the transaction has not written anything yet (a flushed
        # key switch / update of an expunged object is forgotten the same way)
        self.need(not self.rig.dml_since(self.txn_mark) and not self.s.dirty)
        self.s.expunge(o)
        self.rig.let_go.add(slot)
        self.rig.must_live.discard(slot)

    def op_readd(self, slot):
        import sqlalchemy as sa

        o = self.obj(slot)
        st = sa.inspect(o)
        self.need(st.detached and not st._deleted)
        self.need(st.key not in self.s.identity_map)
        mi = self.zoo.info(st.mapper)
        identd = dict(zip(mi.pk_keys, st.key[1]))
        rowvals = {}
        for t in mi.tables:
            w = " AND ".join(f"{cn} = ?" for cn, _ in mi.table_pk_keys[t.name])
            names, rows = self.rig.read_txn(f"SELECT * FROM {t.name} WHERE {w}", tuple(identd[k] for _, k in mi.table_pk_keys[t.name]))
            self.need(bool(rows))
            for n, v in zip(names, rows[0]):
                rowvals[(t.name, n)] = v
        # S5: a detached object keeps whatever it held when it left the session (close()
        # in mid-transaction does not expire it); only objects whose loaded column values
        # are still current are re-attached, as an application would have to ensure
        for key, cols in mi.col_attrs:
            if key in st.dict:
                for tn, cn in cols:
                    self.need(rowvals[(tn, cn)] == st.dict[key])
        for key, _ in mi.m2o:
            self.need(key not in st.dict)
        for key, _, _ in mi.colls:
            self.need(key not in st.dict)
        self.s.add(o)

    def op_merge(self, slot, scalars, coll):
        """Merge a transient copy carrying the primary key, some scalars and optionally one
        collection given as [(member slot | None, scalars)]."""
        import sqlalchemy as sa

        o = self.obj(slot)
        st = sa.inspect(o)
        self.need(st.key is not None and not st._deleted)
        self.s.flush()   # merge() autoflushes; evaluate the guards on the flushed state
        self.need(st.key is not None and not st._deleted)
        mi = self.zoo.info(st.mapper)
        cur = self.s.get(self.zoo.cls[mi.base], st.key[1])
        self.need(cur is not None and self.usable(cur))
        self.need(type(cur) is type(o))   # a reused rowid may now belong to another subclass
        kw = dict(zip(mi.pk_keys, st.key[1]))
        kw.update(self._conv(type(o).__name__, scalars))
        copy = type(o)(**kw)
        if coll:
            rel, members = coll
            xs = []
            for ms, sc in members:
                if ms is None:
                    mcls = self.zoo.cls[SPEC[type(o).__name__]["colls"][rel][0][0]]
                    xs.append(mcls(**self._conv(mcls.__name__, sc)))
                else:
                    m = self.obj(ms)
                    mst = sa.inspect(m)
                    if mst.key is None or mst._deleted or (mst.session is self.s and not self.usable(m)):
                        continue
                    ex = self.s.identity_map.get(mst.key)
                    if ex is not None and not self.usable(ex):
                        continue
                    if ex is not None:
                        self._pretouch(o, rel, ex)
                    mmi = self.zoo.info(mst.mapper)
                    mkw = dict(zip(mmi.pk_keys, mst.key[1]))
                    mkw.update(self._conv(type(m).__name__, sc))
                    xs.append(type(m)(**mkw))
            # members that would leave the collection must be usable
            for x in list(getattr(cur, rel)):
                self.need(self.usable(x) or sa.inspect(x).session is not self.s)
            for x in list(getattr(cur, rel)):
                self._released(cur, x)
            setattr(copy, rel, set(xs) if self.zoo.knobs["m2m_set"] and rel in ("rights", "lefts") else xs)
        merged = self.s.merge(copy)
        self.rig.track(merged)
        self.rig.sync()

    def op_rowswitch(self, slot, newslot, scalars):
        """Delete a persistent object and add a new one with the same primary key."""
        import sqlalchemy as sa

        o = self.obj(slot)
        st = sa.inspect(o)
        self.need(st.persistent and st.session is self.s and o not in self.s.deleted)
        self.need(not SPEC[type(o).__name__]["colls"])   # leaf classes only
        self.need(not self._pending_refs(o))
        self.need(self._cascade_ok(o))
        mi = self.zoo.info(st.mapper)
        kw = dict(zip(mi.pk_keys, st.key[1]))
        kw.update(self._conv(type(o).__name__, scalars))
        for k in SPEC[type(o).__name__]["scalars"]:
            kw.setdefault(k, None)
        self.s.delete(o)
        self.rig.switched_out.add(slot)
        self._forget_deleted()
        n = type(o)(**kw)
        for rel in SPEC[type(o).__name__]["m2o"]:
            setattr(n, rel, None)   # a row switch UPDATEs only what the new object sets
        self._set_slot(newslot, n)
        self.s.add(n)

    def op_pk(self, slot, value):
        import sqlalchemy as sa

        o = self.obj(slot)
        st = sa.inspect(o)
        self.need(st.persistent and self.usable(o))
        mi = self.zoo.info(st.mapper)
        key = mi.pk_keys[0]
        # the new value must be free (rows and identity map)
        t = mi.tables[0].name
        _, rows = self.rig.read_txn(f"SELECT 1 FROM {t} WHERE {mi.table_pk_keys[t][0][0]} = ?", (value,))
        self.need(not rows)
        for ckey, _, _ in mi.colls:   # S5: dependents outside the session would not follow the key
            for x in list(st.dict.get(ckey, ())):
                self.need(sa.inspect(x).session is self.s)
        self.rig.idents_seen.setdefault(id(o), set()).add(tuple(st.key[1]))
        setattr(o, key, value)
        # flushed at once together with whatever is pending: an unloaded attribute that is
        # accessed while a primary-key change is pending autoflushes *after* the loader
        # has picked the old key (ObjectDeletedError; reported separately, not C30-C33)
        self.s.flush()

    # -- session level ----------------------------------------------------------
    def op_flush(self):
        self.s.flush()

    def op_commit(self):
        self.s.commit()
        self.rig.sp = []
        self.rig.sync()
        self.txn_base = len(self.rig.objs)
        self.txn_mark = self.rig.spy.mark()

    def op_rollback(self):
        self.rig.must_live.clear()
        self.rig.orphaned_outside.clear()
        self.s.rollback()
        self.rig.sp = []
        self.rig.sync()
        self.txn_base = len(self.rig.objs)
        self.txn_mark = self.rig.spy.mark()

    def op_nest(self):
        self.need(len(self.rig.sp) < 3)
        self.rig.sp.append(self.s.begin_nested())

    def op_spc(self):
        self.need(self.rig.sp)
        self.rig.sp.pop().commit()

    def op_spr(self):
        self.need(self.rig.sp)
        self.rig.sp.pop().rollback()

    def op_close(self):
        self.rig.must_live.clear()
        self.rig.orphaned_outside.clear()
        import sqlalchemy as sa

        self.s.close()
        self.rig.sp = []
        # Session.close() leaves objects whose DELETE was flushed in the closed (rolled
        # back) transaction in the 'deleted' state, attached to the session, although
        # their rows are back.  C33 reports that (close-leaves-deleted-object-attached);
        # everywhere else such objects are treated as detached (no claim).
        for o in self.rig.objs:
            st = sa.inspect(o)
            if st._deleted and st.session is self.s:
                self.rig.zombies.add(id(o))
        self.rig.sync()
        self.txn_base = len(self.rig.objs)
        self.txn_mark = self.rig.spy.mark()

    def op_expire(self, slot):
        import sqlalchemy as sa

        o = self.obj(slot)
        self.need(sa.inspect(o).persistent and self.usable(o))
        self.s.flush()      # S6: clean point
        self.need(sa.inspect(o).persistent)   # a delete-orphan may have been deleted by that flush
        self.s.expire(o)

    def op_expall(self):
        self.s.flush()
        self.s.expire_all()

    def op_refresh(self, slot):
        import sqlalchemy as sa

        o = self.obj(slot)
        self.need(sa.inspect(o).persistent and self.usable(o))
        self.s.flush()
        self.need(sa.inspect(o).persistent)
        self.s.refresh(o)

    def op_get(self, slot):
        import sqlalchemy as sa

        o = self.obj(slot)
        st = sa.inspect(o)
        self.need(st.key is not None and not st._deleted)
        r = self.s.get(self.zoo.cls[self.zoo.info(st.mapper).base], st.key[1])
        if r is not None:
            self.rig.track(r)

    def op_touch(self, slot, attr):
        o = self.obj(slot)
        self.need(self.usable(o))
        v = getattr(o, attr)
        if v is not None and not isinstance(v, (int, str, Point)):
            try:
                for x in list(v):
                    self.rig.track(x)
            except TypeError:
                self.rig.track(v)


# ---------------------------------------------------------------------------
# generator (online; reads only state flags and state.dict)
# ---------------------------------------------------------------------------
DEFAULT_WEIGHTS = {
    "new": 30, "set": 12, "m2o": 10, "app": 8, "rem": 6, "repl": 3, "clr": 2, "pop": 2, "del": 8,
    "cycdel": 2, "exp": 1, "readd": 1, "merge": 3, "rowswitch": 1, "pk": 3,
    "flush": 6, "commit": 3, "rollback": 0, "nest": 0, "spc": 0, "spr": 0, "close": 0,
    "expire": 1, "expall": 1, "refresh": 1, "get": 1, "touch": 3,
    # graph building outside the session / re-adding a deleted object: off unless a check asks
    "tnew": 0, "add": 0, "undel": 0,
}


class Gen:
    def __init__(self, rig, rng, families=None, weights=None):
        self.rig = rig
        self.rng = rng
        self.s = rig.session
        self.zoo = rig.zoo
        fams = set(families or FAMILIES)
        self.classes = [c for c in SPEC if SPEC[c]["fam"] in fams]
        self.w = dict(DEFAULT_WEIGHTS)
        if weights:
            self.w.update(weights)
        self.seq = 0

    def uniq(self):
        self.seq += 1
        return self.seq

    # -- candidates (no loads) ------------------------------------------------
    def live(self, classes=None, persistent_only=False):
        import sqlalchemy as sa

        deleted = {id(o) for o in self.s.deleted}
        out = []
        for i, o in enumerate(self.rig.objs):
            n = type(o).__name__
            if classes is not None and n not in classes:
                continue
            if classes is None and n not in self.classes:
                continue
            st = sa.inspect(o)
            if st.session is not self.s or st._deleted or id(o) in deleted:
                continue
            if persistent_only and st.key is None:
                continue
            out.append(i)
        return out

    def scalar(self, kind):
        r = self.rng
        if kind == "s":
            return None if r.random() < 0.1 else "s%d" % r.randrange(50)
        if kind == "i":
            return None if r.random() < 0.1 else r.randrange(100)
        if kind == "d":
            return None if r.random() < 0.5 else r.randrange(100)
        raise AssertionError(kind)

    def scalars_for(self, cls, some=False):
        r = self.rng
        sp = SPEC[cls]
        out = {}
        for k, kind in sp["scalars"].items():
            if some and r.random() < 0.5:
                continue
            out[k] = self.scalar(kind)
        for k in sp.get("composites", ()):
            if some and r.random() < 0.5:
                continue
            out[k] = [r.randrange(20), r.randrange(20)]
        return out

    # -- one step -----------------------------------------------------------------
    def step(self):
        """Propose one op (not yet applied) or None."""
        r = self.rng
        names = [k for k, v in self.w.items() if v > 0]
        weights = [self.w[k] for k in names]
        for _ in range(8):
            kind = r.choices(names, weights)[0]
            op = getattr(self, "g_" + kind)()
            if op is not None:
                return op
        return None

    def g_new(self):
        r = self.rng
        cls = r.choice(self.classes)
        sp = SPEC[cls]
        sc = self.scalars_for(cls)
        if sp.get("natural"):
            sc[sp["natural"]] = "%s%d" % (sp["natural"][0], self.uniq())
        m2o = {}
        for rel, (targets, nullable) in sp["m2o"].items():
            cands = self.live(targets)
            if not cands:
                if not nullable:
                    return None
                m2o[rel] = None
            elif nullable and r.random() < 0.3:
                m2o[rel] = None
            else:
                m2o[rel] = r.choice(cands)
        return ["new", cls, len(self.rig.objs), sc, m2o]

    def g_set(self):
        r = self.rng
        c = self.live()
        if not c:
            return None
        slot = r.choice(c)
        cls = type(self.rig.objs[slot]).__name__
        sp = SPEC[cls]
        attrs = list(sp["scalars"]) + list(sp.get("composites", ()))
        if not attrs:
            return None
        a = r.choice(attrs)
        if a in sp["scalars"]:
            v = self.scalar(sp["scalars"][a])
        else:
            v = [r.randrange(20), r.randrange(20)]
        return ["set", slot, a, v]

    def g_m2o(self):
        r = self.rng
        c = [s for s in self.live() if SPEC[type(self.rig.objs[s]).__name__]["m2o"] and not SPEC[type(self.rig.objs[s]).__name__].get("fixed_m2o")]
        if not c:
            return None
        slot = r.choice(c)
        sp = SPEC[type(self.rig.objs[slot]).__name__]
        rel = r.choice(sorted(sp["m2o"]))
        targets, nullable = sp["m2o"][rel]
        cands = [t for t in self.live(targets) if t != slot]
        if nullable and (not cands or r.random() < 0.2):
            return ["m2o", slot, rel, None]
        if not cands:
            return None
        return ["m2o", slot, rel, r.choice(cands)]

    use_pool = True   # False: objects still outside the session are left alone

    def pool(self, classes=None):
        import sqlalchemy as sa

        out = []
        if not self.use_pool:
            return out
        for i, o in enumerate(self.rig.objs):
            if id(o) in self.rig.pool and sa.inspect(o).session is None and sa.inspect(o).key is None:
                n = type(o).__name__
                if (classes is None and n in self.classes) or (classes is not None and n in classes):
                    out.append(i)
        return out

    def g_tnew(self):
        cls = self.rng.choice([c for c in self.classes if not SPEC[c].get("fixed_m2o")])
        sc = self.scalars_for(cls)
        if SPEC[cls].get("natural"):
            sc[SPEC[cls]["natural"]] = "%s%d" % (SPEC[cls]["natural"][0], self.uniq())
        return ["tnew", cls, len(self.rig.objs), sc]

    def g_add(self):
        c = self.pool()
        return ["add", self.rng.choice(c)] if c else None

    def g_undel(self):
        c = [self.rig._slot[id(o)] for o in self.s.deleted if id(o) in self.rig._slot and type(o).__name__ in self.classes]
        return ["undel", self.rng.choice(sorted(c))] if c else None

    def _coll_pick(self, modes):
        r = self.rng
        c = []
        for s in self.live() + self.pool():
            sp = SPEC[type(self.rig.objs[s]).__name__]
            for rel, (members, mode) in sp["colls"].items():
                if mode in modes:
                    c.append((s, rel, members))
        if not c:
            return None
        return r.choice(c)

    def g_app(self):
        p = self._coll_pick(("o2m", "m2m", "o2m_uni"))
        if not p:
            return None
        s, rel, members = p
        if id(self.rig.objs[s]) in self.rig.pool:
            cands = [m for m in self.pool(members) if m != s]
        else:
            cands = [m for m in self.live(members) + self.pool(members) if m != s]
        if not cands:
            return None
        return ["app", s, rel, self.rng.choice(cands)]

    def _loaded_members(self, s, rel):
        d = self.rig.objs[s].__dict__
        if rel not in d:
            return None
        return [self.rig._slot[id(x)] for x in list(d[rel]) if id(x) in self.rig._slot]

    def g_rem(self):
        p = self._coll_pick(("o2m", "m2m", "assoc", "o2m_uni"))
        if not p:
            return None
        s, rel, members = p
        lm = self._loaded_members(s, rel)
        if lm is None:
            # unloaded: propose a touch so that it gets loaded by an ordinary access
            return ["touch", s, rel]
        if not lm:
            return None
        return ["rem", s, rel, self.rng.choice(lm)]

    def g_repl(self):
        p = self._coll_pick(("o2m", "m2m", "o2m_uni"))
        if not p:
            return None
        s, rel, members = p
        if id(self.rig.objs[s]) in self.rig.pool:
            cands = [m for m in self.pool(members) if m != s]
        else:
            cands = [m for m in self.live(members) + self.pool(members) if m != s]
        self.rng.shuffle(cands)
        return ["repl", s, rel, cands[: self.rng.randrange(0, 4)]]

    def g_clr(self):
        p = self._coll_pick(("o2m", "m2m", "assoc", "o2m_uni"))
        if not p:
            return None
        return ["clr", p[0], p[1]]

    def g_pop(self):
        p = self._coll_pick(("o2m", "m2m", "assoc", "o2m_uni"))
        if not p:
            return None
        return ["pop", p[0], p[1]]

    def g_del(self):
        c = [s for s in self.live(persistent_only=True) if SPEC[type(self.rig.objs[s]).__name__]["delete"] == "free"]
        if not c:
            return None
        return ["del", self.rng.choice(c)]

    def g_cycdel(self):
        c = self.live(["CycA", "CycB"], persistent_only=True)
        if not c or "CycA" not in self.classes:
            return None
        return ["cycdel", self.rng.choice(c)]

    def g_exp(self):
        c = self.live()
        if not c:
            return None
        return ["exp", self.rng.choice(c)]

    def g_readd(self):
        import sqlalchemy as sa

        c = [i for i, o in enumerate(self.rig.objs) if sa.inspect(o).detached and not sa.inspect(o)._deleted and type(o).__name__ in self.classes]
        if not c:
            return None
        return ["readd", self.rng.choice(c)]

    def g_merge(self):
        import sqlalchemy as sa

        r = self.rng
        c = [i for i, o in enumerate(self.rig.objs)
             if sa.inspect(o).key is not None and not sa.inspect(o)._deleted and type(o).__name__ in self.classes
             and type(o).__name__ != "ArtTag"]
        if not c:
            return None
        slot = r.choice(c)
        cls = type(self.rig.objs[slot]).__name__
        sc = self.scalars_for(cls, some=True)
        coll = None
        rels = [(rel, members) for rel, (members, mode) in SPEC[cls]["colls"].items() if mode in ("o2m", "m2m") and cls != "Node"]
        if rels and r.random() < 0.5:
            rel, members = r.choice(rels)
            cands = [m for m in self.live(members, persistent_only=True)]
            r.shuffle(cands)
            ms = [[m, self.scalars_for(type(self.rig.objs[m]).__name__, some=True)] for m in cands[: r.randrange(0, 3)]]
            if r.random() < 0.5 and not SPEC[members[0]].get("natural"):
                ms.append([None, self.scalars_for(members[0])])
            coll = [rel, ms]
        return ["merge", slot, sc, coll]

    def g_rowswitch(self):
        # leaf classes only: what happens to the rows that reference a row-switched parent
        # (nulled or silently adopted by the replacement) is not something the zoo can judge
        c = self.live(["NAddr", "Vertex", "Child", "Vehicle", "Car", "Truck"], persistent_only=True)
        c = [s for s in c if type(self.rig.objs[s]).__name__ in self.classes]
        if not c:
            return None
        slot = self.rng.choice(c)
        return ["rowswitch", slot, len(self.rig.objs), self.scalars_for(type(self.rig.objs[slot]).__name__)]

    def g_pk(self):
        c = [s for s in self.live(persistent_only=True) if SPEC[type(self.rig.objs[s]).__name__]["pk"]]
        if not c:
            return None
        slot = self.rng.choice(c)
        sp = SPEC[type(self.rig.objs[slot]).__name__]
        if sp["pk"] == "int":
            return ["pk", slot, 100000 + 1000 * self.uniq()]
        return ["pk", slot, "%s%d" % (sp["natural"][0], self.uniq())]

    def g_flush(self):
        return ["flush"]

    def g_commit(self):
        return ["commit"]

    def g_rollback(self):
        return ["rollback"]

    def g_nest(self):
        return ["nest"] if len(self.rig.sp) < 3 else None

    def g_spc(self):
        return ["spc"] if self.rig.sp else None

    def g_spr(self):
        return ["spr"] if self.rig.sp else None

    def g_close(self):
        return ["close"]

    def g_expire(self):
        c = self.live(persistent_only=True)
        return ["expire", self.rng.choice(c)] if c else None

    def g_expall(self):
        return ["expall"]

    def g_refresh(self):
        c = self.live(persistent_only=True)
        return ["refresh", self.rng.choice(c)] if c else None

    def g_get(self):
        import sqlalchemy as sa

        c = [i for i, o in enumerate(self.rig.objs) if sa.inspect(o).key is not None and not sa.inspect(o)._deleted and type(o).__name__ in self.classes]
        return ["get", self.rng.choice(c)] if c else None

    def g_touch(self):
        r = self.rng
        c = self.live()
        if not c:
            return None
        slot = r.choice(c)
        sp = SPEC[type(self.rig.objs[slot]).__name__]
        attrs = list(sp["scalars"]) + list(sp["m2o"]) + list(sp["colls"])
        if not attrs:
            return None
        return ["touch", slot, r.choice(attrs)]


# ---------------------------------------------------------------------------
# C31: referential-integrity tracker over the spied statement stream
# ---------------------------------------------------------------------------
_INS = re.compile(r'^INSERT INTO "?(\w+)"? \(([^)]*)\) VALUES', re.I)
_UPD = re.compile(r'^UPDATE "?(\w+)"? SET (.*?) WHERE (.*?)(?: RETURNING .*)?$', re.I | re.S)
_DEL = re.compile(r'^DELETE FROM "?(\w+)"? WHERE (.*?)(?: RETURNING .*)?$', re.I | re.S)
_WCOL = re.compile(r'"?\w+"?\."?(\w+)"? = \?')
_SCOL = re.compile(r'"?(\w+)"?=\?')


class FKTracker:
    """Before every INSERT/UPDATE/DELETE the ORM sends, evaluate the statement's foreign-key
    values against the rows that exist *right now* on the same connection.  Immediate FK
    enforcement means SQLite will refuse exactly the statements this flags; the tracker is
    what names the statement and the missing / still-referencing row.  Tables with a
    DEFERRED FK (Z7) are not judged statement-wise."""

    def __init__(self, rig, skip=DEFERRED_TABLES):
        md = rig.zoo.md
        self.rig = rig
        self.skip = skip
        self.out = {}   # table -> [(col, reftable, refcol)]
        self.inc = {}   # reftable -> [(table, col, refcol)]
        for t in md.tables.values():
            for fk in t.foreign_keys:
                self.out.setdefault(t.name, []).append((fk.parent.name, fk.column.table.name, fk.column.name))
                self.inc.setdefault(fk.column.table.name, []).append((t.name, fk.parent.name, fk.column.name))
        self.findings = []
        self.parsed = 0
        self.unparsed = 0
        self.fk_values_checked = 0
        self.last = None

    def _exists(self, table, col, val):
        return bool(self.rig.read_txn(f"SELECT 1 FROM {table} WHERE {col} = ? LIMIT 1", (val,))[1])

    def pre(self, ev):
        if ev.kind not in ("execute", "executemany") or not is_dml(ev.sql):
            return None
        sql = ev.sql.strip()
        self.last = sql
        plist = ev.params if ev.kind == "executemany" else [ev.params]
        try:
            self._judge(sql, [tuple(p) for p in plist])
        except _Unparsed:
            self.unparsed += 1
        return None

    def _judge(self, sql, plist):
        m = _INS.match(sql)
        if m:
            t = m.group(1)
            cols = [c.strip().strip('"') for c in m.group(2).split(",")]
            if t in self.skip:
                return
            self.parsed += 1
            for p in plist:
                if len(p) % len(cols):
                    raise _Unparsed()
                groups = [p[i:i + len(cols)] for i in range(0, len(p), len(cols))]
                batch = len(groups) > 1 or len(plist) > 1
                for g in groups:
                    row = dict(zip(cols, g))
                    for col, rt, rc in self.out.get(t, ()):
                        v = row.get(col)
                        if v is None:
                            continue
                        self.fk_values_checked += 1
                        if not self._exists(rt, rc, v):
                            if batch and rt == t:
                                continue   # may be satisfied by an earlier row of the same batch
                            self.findings.append(("insert-references-missing-row", sql, f"{t}.{col}={v!r} -> {rt}.{rc} absent"))
            return
        m = _UPD.match(sql)
        if m:
            t = m.group(1)
            if t in self.skip:
                return
            scols = _SCOL.findall(m.group(2))
            if len(scols) != m.group(2).count("?"):
                raise _Unparsed()
            self.parsed += 1
            for p in plist:
                row = dict(zip(scols, p[: len(scols)]))
                for col, rt, rc in self.out.get(t, ()):
                    if col in row and row[col] is not None:
                        self.fk_values_checked += 1
                        if not self._exists(rt, rc, row[col]):
                            self.findings.append(("update-references-missing-row", sql, f"{t}.{col}={row[col]!r} -> {rt}.{rc} absent"))
            return
        m = _DEL.match(sql)
        if m:
            t = m.group(1)
            if t in self.skip:
                return
            wcols = _WCOL.findall(m.group(2))
            if len(wcols) != m.group(2).count("?") or not wcols:
                raise _Unparsed()
            self.parsed += 1
            gone = set()
            pkn = self.rig.zoo.table_pk[t]
            for p in plist:
                w = dict(zip(wcols, p))
                for st, sc, rc in self.inc.get(t, ()):
                    if rc not in w:
                        continue
                    self.fk_values_checked += 1
                    spk = self.rig.zoo.table_pk[st]
                    _, rows = self.rig.read_txn(f"SELECT {', '.join(spk)} FROM {st} WHERE {sc} = ?", (w[rc],))
                    rows = [r for r in rows if not (st == t and tuple(r) in gone)]
                    if st == t:
                        rows = [r for r in rows if tuple(r) != tuple(w.get(c) for c in pkn)]
                    if rows:
                        self.findings.append(("delete-of-still-referenced-row", sql, f"{t}.{rc}={w[rc]!r} still referenced by {st}.{sc} of {rows[:3]}"))
                if all(c in w for c in pkn):
                    gone.add(tuple(w[c] for c in pkn))
            return
        raise _Unparsed()


class _Unparsed(Exception):
    pass
