"""Shared ORM rig of group ``gj`` (C34, C35, C36, C46, C48).

* ``Rig`` - one dynamically built mapping (private ``registry()``), one SQLite *file*
  database under ``ctx.workdir`` reached through an M-spy engine
  (``vf.mon.dbapi_spy.Spy``), an independent raw ``sqlite3`` observer/writer, table
  wiping between cases, disposal.
* mapping builders (``zoo_*``): each returns a dict of mapped classes.
* ``LifeRecorder`` - M-life: the ten session lifecycle events as one ordered trace.
* small helpers that read instance state *without* triggering loads or autoflush.

``import sqlalchemy`` happens inside functions only (import mode is chosen before
``run``).
"""
from __future__ import annotations

import sqlite3

LIFECYCLE_EVENTS = (
    "transient_to_pending",
    "pending_to_transient",
    "persistent_to_transient",
    "pending_to_persistent",
    "detached_to_persistent",
    "loaded_as_persistent",
    "persistent_to_deleted",
    "deleted_to_persistent",
    "deleted_to_detached",
    "persistent_to_detached",
)

STATE_FLAGS = ("transient", "pending", "persistent", "deleted", "detached")


# --------------------------------------------------------------------------
# mappings
# --------------------------------------------------------------------------
def zoo_pc(sa, orm, reg, *, collection="list", cascade="save-update, merge",
           child_lazy="select", parent_lazy="select", active_history=False,
           passive_deletes=False):
    """Z1: P --< C  (o2m + m2o with back_populates), integer autoincrement keys.

    P(id, name, n)   C(id, p_id -> p.id nullable, v, k)
    ``collection``: list | set | dict (attribute keyed on ``k``).
    """
    from sqlalchemy.orm.collections import attribute_keyed_dict

    coll = {"list": list, "set": set, "dict": attribute_keyed_dict("k")}[collection]

    P = type("P", (object,), {
        "__tablename__": "p",
        "id": sa.Column(sa.Integer, primary_key=True),
        "name": orm.column_property(sa.Column("name", sa.String), active_history=active_history),
        "n": sa.Column(sa.Integer),
        "__repr__": lambda self: "<P@%x>" % id(self),
    })
    C = type("C", (object,), {
        "__tablename__": "c",
        "id": sa.Column(sa.Integer, primary_key=True),
        "p_id": sa.Column(sa.ForeignKey("p.id"), nullable=True),
        "v": sa.Column(sa.String),
        "k": sa.Column(sa.String),
        "__repr__": lambda self: "<C@%x>" % id(self),
    })
    reg.mapped(P)
    reg.mapped(C)
    P.__mapper__.add_property(
        "children",
        orm.relationship(C, back_populates="parent", collection_class=coll, cascade=cascade,
                         lazy=child_lazy, passive_deletes=passive_deletes),
    )
    C.__mapper__.add_property(
        "parent",
        orm.relationship(P, back_populates="children", lazy=parent_lazy,
                         active_history=active_history),
    )
    return {"P": P, "C": C}


def zoo_pc_nobackref(sa, orm, reg, *, collection="list", cascade="save-update, merge"):
    """P --< C as a one-way one-to-many: ``P.children`` only, no back-reference on C (C keeps the
    plain ``p_id`` column).  Members can then sit in two parents' collections at once."""
    from sqlalchemy.orm.collections import attribute_keyed_dict

    coll = {"list": list, "set": set, "dict": attribute_keyed_dict("k")}[collection]
    P = type("P", (object,), {
        "__tablename__": "p",
        "id": sa.Column(sa.Integer, primary_key=True),
        "name": sa.Column(sa.String),
        "n": sa.Column(sa.Integer),
        "__repr__": lambda self: "<P@%x>" % id(self),
    })
    C = type("C", (object,), {
        "__tablename__": "c",
        "id": sa.Column(sa.Integer, primary_key=True),
        "p_id": sa.Column(sa.ForeignKey("p.id"), nullable=True),
        "v": sa.Column(sa.String),
        "k": sa.Column(sa.String),
        "__repr__": lambda self: "<C@%x>" % id(self),
    })
    reg.mapped(P)
    reg.mapped(C)
    P.__mapper__.add_property("children", orm.relationship(C, collection_class=coll, cascade=cascade))
    return {"P": P, "C": C}


def zoo_natural(sa, orm, reg):
    """Z7-lite: N(code natural string PK, v)  and  K(k1, k2 composite PK, v)."""
    N = type("N", (object,), {
        "__tablename__": "n",
        "code": sa.Column(sa.String, primary_key=True),
        "v": sa.Column(sa.String),
        "__repr__": lambda self: "<N@%x>" % id(self),
    })
    K = type("K", (object,), {
        "__tablename__": "k",
        "k1": sa.Column(sa.Integer, primary_key=True, autoincrement=False),
        "k2": sa.Column(sa.Integer, primary_key=True, autoincrement=False),
        "v": sa.Column(sa.String),
        "__repr__": lambda self: "<K@%x>" % id(self),
    })
    reg.mapped(N)
    reg.mapped(K)
    return {"N": N, "K": K}


def zoo_flat(sa, orm, reg, *, deferred_z=False):
    """A(id, x, y, z) plus B(id, a_id, w): plain column attributes for C46."""
    cols = {
        "__tablename__": "a",
        "id": sa.Column(sa.Integer, primary_key=True),
        "x": sa.Column(sa.String),
        "y": sa.Column(sa.String),
        "__repr__": lambda self: "<A@%x>" % id(self),
    }
    if deferred_z:
        cols["z"] = orm.deferred(sa.Column("z", sa.String))
    else:
        cols["z"] = sa.Column(sa.String)
    A = type("A", (object,), cols)
    B = type("B", (object,), {
        "__tablename__": "b",
        "id": sa.Column(sa.Integer, primary_key=True),
        "a_id": sa.Column(sa.ForeignKey("a.id"), nullable=True),
        "w": sa.Column(sa.String),
        "__repr__": lambda self: "<B@%x>" % id(self),
    })
    reg.mapped(A)
    reg.mapped(B)
    A.__mapper__.add_property("bs", orm.relationship(B, back_populates="a", order_by=B.__table__.c.id))
    B.__mapper__.add_property("a", orm.relationship(A, back_populates="bs"))
    return {"A": A, "B": B}


def zoo_flat_inh(sa, orm, reg):
    """Joined-table inheritance for C46: base A(id, kind, x) in table ``a``, subclass AS with
    y, z in table ``a_sub``.  A SELECT against the base class returns AS instances whose row
    lacks the sub-table columns."""
    A = type("A", (object,), {
        "__tablename__": "a",
        "id": sa.Column(sa.Integer, primary_key=True),
        "kind": sa.Column(sa.String, nullable=False),
        "x": sa.Column(sa.String),
        "__mapper_args__": {"polymorphic_on": "kind", "polymorphic_identity": "base"},
        "__repr__": lambda self: "<A@%x>" % id(self),
    })
    reg.mapped(A)
    AS = type("AS", (A,), {
        "__tablename__": "a_sub",
        "id": sa.Column(sa.ForeignKey("a.id"), primary_key=True),
        "y": sa.Column(sa.String),
        "z": sa.Column(sa.String),
        "__mapper_args__": {"polymorphic_identity": "sub"},
    })
    reg.mapped(AS)
    return {"A": A, "AS": AS}


# --------------------------------------------------------------------------
# rig
# --------------------------------------------------------------------------
class Rig:
    """One mapping + one SQLite file DB + spy engine + observer."""

    def __init__(self, ctx, builders, fk=True, **engine_kw):
        import sqlalchemy as sa
        from sqlalchemy import orm

        from vf.mon.dbapi_spy import Spy

        self.ctx = ctx
        self.sa = sa
        self.orm = orm
        self.reg = orm.registry()
        self.md = self.reg.metadata
        self.cls = {}
        for b in builders:
            self.cls.update(b(sa, orm, self.reg))
        orm.configure_mappers()
        self.path = ctx.tmppath(".db")
        self.spy = Spy()
        # a file database: use the pool SQLAlchemy picks for file URLs (the spy engine
        # is created from "sqlite://" + creator, which would select SingletonThreadPool)
        engine_kw.setdefault("poolclass", sa.pool.QueuePool)
        self.engine = self.spy.engine(self.path, **engine_kw)
        self.fk = fk
        if fk:
            @sa.event.listens_for(self.engine, "connect")
            def _fk(dbapi_con, rec):  # noqa: ANN001
                cur = dbapi_con.raw.cursor()
                cur.execute("PRAGMA foreign_keys=ON")
                cur.close()

        self.md.create_all(self.engine)
        self._obs = None
        self.sessions = []

    # -- sessions ---------------------------------------------------------
    def session(self, **kw):
        s = self.orm.Session(self.engine, **kw)
        self.sessions.append(s)
        return s

    # -- independent access ------------------------------------------------
    @property
    def obs(self):
        """Independent raw connection in autocommit mode (reads committed state,
        and is the *external writer*)."""
        if self._obs is None:
            self._obs = sqlite3.connect(self.path, timeout=0.05, isolation_level=None)
        return self._obs

    def committed(self, sql, params=()):
        return self.obs.execute(sql, params).fetchall()

    def session_raw(self):
        """The raw sqlite3 connection holding the session's open transaction, if any
        (found through the spy ledger - no SQLAlchemy code involved)."""
        for c in list(self.spy.open.values()):
            try:
                if c.raw.in_transaction:
                    return c.raw
            except sqlite3.ProgrammingError:
                pass
        return None

    def write_txn_open(self):
        return self.session_raw() is not None

    def truth(self, sql, params=()):
        """What the session's transaction sees: through the raw handle that holds the
        open transaction when there is one, else committed state."""
        raw = self.session_raw()
        if raw is not None:
            cur = raw.cursor()
            try:
                return cur.execute(sql, params).fetchall()
            finally:
                cur.close()
        return self.committed(sql, params)

    def wipe(self):
        """Empty all tables (children first) through the independent connection."""
        con = self.obs
        con.execute("PRAGMA foreign_keys=OFF")
        for t in reversed(self.md.sorted_tables):
            con.execute(f'DELETE FROM "{t.name}"')
        try:
            con.execute("DELETE FROM sqlite_sequence")
        except sqlite3.OperationalError:
            pass

    def close(self):
        for s in self.sessions:
            try:
                s.close()
            except Exception:
                pass
        self.sessions = []
        if self._obs is not None:
            self._obs.close()
            self._obs = None
        self.engine.dispose()
        self.reg.dispose()

    # -- statement counting -------------------------------------------------
    def nstatements(self, mark):
        return [e for e in self.spy.log[mark:] if e.kind in ("execute", "executemany")]


# --------------------------------------------------------------------------
# M-life
# --------------------------------------------------------------------------
class LifeRecorder:
    """Listens to the ten session lifecycle events of the sessions handed to
    ``attach``; ``trace`` is a list of (event name, instance, session)."""

    def __init__(self, on_event=None):
        self.trace = []
        self.on_event = on_event
        self._listened = []
        self.only = None        # None: all ten events; else the subset of names to listen to

    def attach(self, session):
        from sqlalchemy import event

        for name in LIFECYCLE_EVENTS:
            if self.only is not None and name not in self.only:
                continue
            fn = self._mk(name)
            event.listen(session, name, fn)
            self._listened.append((session, name, fn))

    def _mk(self, name):
        def listener(session, instance):
            self.trace.append((name, instance, session))
            if self.on_event is not None:
                self.on_event(name, instance, session)

        return listener

    def detach_all(self):
        from sqlalchemy import event

        for session, name, fn in self._listened:
            try:
                event.remove(session, name, fn)
            except Exception:
                pass
        self._listened = []

    def mark(self):
        return len(self.trace)

    def since(self, mark):
        return self.trace[mark:]


# --------------------------------------------------------------------------
# passive helpers
# --------------------------------------------------------------------------
def state_flags(obj):
    """Names of the InstanceState lifecycle flags that are True."""
    from sqlalchemy import inspect

    st = inspect(obj)
    return tuple(n for n in STATE_FLAGS if getattr(st, n))


def loaded(obj, key, default=None):
    """Value in ``__dict__`` without triggering a load."""
    return obj.__dict__.get(key, default)


def is_loaded(obj, key):
    return key in obj.__dict__
