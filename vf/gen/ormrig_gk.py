"""Shared ORM fixtures for the gk group (C37, C38, C39, C49, C50).

Everything imports sqlalchemy lazily (the import mode is chosen by the shard before
``run``).  Mappings are built once per shard on a private ``registry()``; *objects* are
always created fresh per case (a reused child would drag backref events from its
previous parent into the event log).
"""
from __future__ import annotations

import itertools


# --------------------------------------------------------------------------
# small generic helpers
# --------------------------------------------------------------------------
class Rec:
    """Event recorder for one collection attribute: a flat list of
    (kind, id(value)) with kind in A(ppend) R(emove) W(append_wo_mutation)
    B(ulk_replace)."""

    def __init__(self):
        self.log = []

    def clear(self):
        del self.log[:]

    def listen(self, attr):
        from sqlalchemy import event

        log = self.log
        event.listen(attr, "append", lambda t, v, i: log.append(("A", id(v))))
        event.listen(attr, "remove", lambda t, v, i: log.append(("R", id(v))))
        event.listen(attr, "append_wo_mutation", lambda t, v, i: log.append(("W", id(v))))
        event.listen(attr, "bulk_replace", lambda t, vs, i: log.append(("B", len(vs))))

    def appended(self):
        return [v for k, v in self.log if k == "A"]

    def removed(self):
        return [v for k, v in self.log if k == "R"]


def multiset(ids):
    d = {}
    for i in ids:
        d[i] = d.get(i, 0) + 1
    return d


def conserved(initial_ids, appended, removed, final_ids):
    """initial + appends - removes == final (multisets of object ids)."""
    m = multiset(initial_ids)
    for i in appended:
        m[i] = m.get(i, 0) + 1
    for i in removed:
        m[i] = m.get(i, 0) - 1
    m = {k: v for k, v in m.items() if v}
    return m == multiset(final_ids)


def all_slices(lo=-6, hi=6):
    vals = [None] + list(range(lo, hi + 1))
    for a, b, c in itertools.product(vals, vals, vals):
        yield slice(a, b, c)


def slice_desc(s):
    return [s.start, s.stop, s.step]


def slice_in_simple_domain(s, n):
    """True for slices a hand-written bounds computation commonly gets right:
    positive (or default) step and explicit bounds within [-n, n]."""
    if s.step is not None and s.step <= 0:
        return False
    for b in (s.start, s.stop):
        if b is not None and not (-n <= b <= n):
            return False
    return True


# --------------------------------------------------------------------------
# C38: one parent class, one relationship per collection flavour, no backref
# --------------------------------------------------------------------------
def c38_mapping():
    import sqlalchemy as sa
    from sqlalchemy import orm
    from sqlalchemy.orm import attribute_keyed_dict, keyfunc_mapping

    reg = orm.registry()

    class MyList(list):
        """user-defined trivial list subclass (instrumented on the fly)"""

    class MySet(set):
        pass

    kinds = {
        "list": list,
        "mylist": MyList,
        "set": set,
        "myset": MySet,
        "akd": attribute_keyed_dict("name"),
        "kfd": keyfunc_mapping(lambda c: c.name),
    }
    out = {}
    for kind, cc in kinds.items():
        P = type(
            "P_" + kind,
            (object,),
            {
                "__tablename__": "p_" + kind,
                "id": sa.Column(sa.Integer, primary_key=True),
            },
        )
        C = type(
            "C_" + kind,
            (object,),
            {
                "__tablename__": "c_" + kind,
                "id": sa.Column(sa.Integer, primary_key=True),
                "pid": sa.Column(sa.ForeignKey("p_" + kind + ".id")),
                "name": sa.Column(sa.String),
                "__repr__": lambda self: "C(%s)" % self.name,
            },
        )
        reg.mapped(P)
        reg.mapped(C)
        P.__mapper__.add_property("items", orm.relationship(C, collection_class=cc))
        out[kind] = (P, C)
    reg.configure()
    recs = {}
    for kind, (P, C) in out.items():
        r = Rec()
        r.listen(P.items)
        recs[kind] = r
    return reg, out, recs


# --------------------------------------------------------------------------
# engines / raw observation
# --------------------------------------------------------------------------
def sqlite_engine(path=None, fk=True):
    """SQLite engine (file if path given, else private in-memory), FK enforcement on."""
    import sqlalchemy as sa
    from sqlalchemy import event
    from sqlalchemy.pool import StaticPool

    if path:
        eng = sa.create_engine("sqlite:///" + path)
    else:
        eng = sa.create_engine("sqlite://", poolclass=StaticPool)
    if fk:

        @event.listens_for(eng, "connect")
        def _fk(dbapi_con, rec):
            cur = dbapi_con.cursor()
            cur.execute("PRAGMA foreign_keys=ON")
            cur.close()

    return eng


def raw_rows(session, sql, params=()):
    """Rows as seen inside the session's transaction, bypassing the ORM."""
    return [tuple(r) for r in session.connection().exec_driver_sql(sql, params).fetchall()]


# --------------------------------------------------------------------------
# C50: ordering_list variants and association proxies
# --------------------------------------------------------------------------
OL_VARIANTS = {
    # name: (kwargs for ordering_list, expected position of index i, cascade)
    "ol0": ({}, lambda i: i, "save-update, merge"),
    "ol1": ({"count_from": 1}, lambda i: i + 1, "all, delete-orphan"),
    "olr": ({"reorder_on_append": True}, lambda i: i, "all, delete-orphan"),
    "olf": ({"ordering_func": "stepped"}, lambda i: i * 10 + 5, "save-update, merge"),
}


def c50_ordering_mapping():
    import sqlalchemy as sa
    from sqlalchemy import orm
    from sqlalchemy.ext.orderinglist import ordering_list

    reg = orm.registry()
    out = {}
    for name, (kw, f, cascade) in OL_VARIANTS.items():
        kw = dict(kw)
        if kw.get("ordering_func") == "stepped":
            kw["ordering_func"] = lambda index, coll: index * 10 + 5
        S = type("Slide_" + name, (object,), {
            "__tablename__": "slide_" + name,
            "id": sa.Column(sa.Integer, primary_key=True),
        })
        B = type("Bullet_" + name, (object,), {
            "__tablename__": "bullet_" + name,
            "id": sa.Column(sa.Integer, primary_key=True),
            "slide_id": sa.Column(sa.ForeignKey("slide_" + name + ".id")),
            "position": sa.Column(sa.Integer),
            "name": sa.Column(sa.String),
            "__repr__": lambda self: "B(%s@%s)" % (self.name, self.position),
        })
        reg.mapped(S)
        reg.mapped(B)
        S.__mapper__.add_property(
            "bullets",
            orm.relationship(
                B,
                order_by=B.__table__.c.position,
                collection_class=ordering_list("position", **kw),
                cascade=cascade,
            ),
        )
        out[name] = (S, B, f)
    reg.configure()
    return reg, out


def c50_proxy_mapping(creator_guard):
    """PL list-of-str proxy, PS set-of-str proxy, PD dict proxy, PO list of objects via
    an association object, PP proxy of a proxy.  ``creator_guard()`` is called by every
    creator (lets the harness bound run-away creation)."""
    import sqlalchemy as sa
    from sqlalchemy import orm
    from sqlalchemy.ext.associationproxy import association_proxy
    from sqlalchemy.orm import attribute_keyed_dict

    reg = orm.registry()
    ns = {}

    def col(*a, **k):
        return sa.Column(*a, **k)

    @reg.mapped
    class Par:
        __tablename__ = "par"
        id = col(sa.Integer, primary_key=True)
        cl = orm.relationship("LItem", cascade="all, delete-orphan", order_by="LItem.id")
        cs = orm.relationship("SItem", cascade="all, delete-orphan", collection_class=set)
        cd = orm.relationship("DItem", cascade="all, delete-orphan",
                              collection_class=attribute_keyed_dict("key"))
        uks = orm.relationship("UK", cascade="all, delete-orphan", back_populates="par", order_by="UK.id")
        names = association_proxy("cl", "name", creator=lambda n: (creator_guard(), ns["LItem"](name=n))[1])
        tags = association_proxy("cs", "name", creator=lambda n: (creator_guard(), ns["SItem"](name=n))[1])
        vals = association_proxy("cd", "value",
                                 creator=lambda k, v: (creator_guard(), ns["DItem"](key=k, value=v))[1])
        kws = association_proxy("uks", "kw", creator=lambda kw: (creator_guard(), ns["UK"](kw=kw))[1])
        kwnames = association_proxy(
            "uks", "kwname",
            creator=lambda n: (creator_guard(), ns["UK"](kw=ns["KW"](name=n)))[1])

    @reg.mapped
    class LItem:
        __tablename__ = "litem"
        id = col(sa.Integer, primary_key=True)
        pid = col(sa.ForeignKey("par.id"))
        name = col(sa.String)

    @reg.mapped
    class SItem:
        __tablename__ = "sitem"
        id = col(sa.Integer, primary_key=True)
        pid = col(sa.ForeignKey("par.id"))
        name = col(sa.String)

    @reg.mapped
    class DItem:
        __tablename__ = "ditem"
        id = col(sa.Integer, primary_key=True)
        pid = col(sa.ForeignKey("par.id"))
        key = col(sa.String)
        value = col(sa.String)

    @reg.mapped
    class KW:
        __tablename__ = "kw"
        id = col(sa.Integer, primary_key=True)
        name = col(sa.String)

        def __repr__(self):
            return "KW(%s)" % self.name

    @reg.mapped
    class UK:
        __tablename__ = "uk"
        id = col(sa.Integer, primary_key=True)
        pid = col(sa.ForeignKey("par.id"))
        kwid = col(sa.ForeignKey("kw.id"))
        par = orm.relationship("Par", back_populates="uks")
        kw = orm.relationship("KW")
        kwname = association_proxy("kw", "name")

    ns.update(Par=Par, LItem=LItem, SItem=SItem, DItem=DItem, KW=KW, UK=UK)
    reg.configure()
    return reg, ns


# --------------------------------------------------------------------------
# C49: mutable scalar / composite columns.  Classes are registered as module globals so
# that instances pickle by reference.
# --------------------------------------------------------------------------
_C49 = {}


def c49_mapping():
    """Doc with MutableDict/MutableList/MutableSet columns over JSON and PickleType
    (``as_mutable``), one ``associate_with`` column type, and a MutableComposite."""
    if _C49:
        return _C49
    import sqlalchemy as sa
    from sqlalchemy import orm
    from sqlalchemy.ext.mutable import MutableComposite, MutableDict, MutableList, MutableSet

    class AssocJSON(sa.types.TypeDecorator):
        """private column type used with MutableDict.associate_with()"""

        impl = sa.JSON
        cache_ok = True

    MutableDict.associate_with(AssocJSON)

    class Point(MutableComposite):
        def __init__(self, x, y):
            self.x = x
            self.y = y

        def __setattr__(self, key, value):
            object.__setattr__(self, key, value)
            self.changed()

        def __composite_values__(self):
            return self.x, self.y

        def __eq__(self, other):
            return isinstance(other, Point) and other.x == self.x and other.y == self.y

        def __ne__(self, other):
            return not self.__eq__(other)

        def __getstate__(self):
            return self.x, self.y

        def __setstate__(self, state):
            object.__setattr__(self, "x", state[0])
            object.__setattr__(self, "y", state[1])

        def __repr__(self):
            return "Point(%r, %r)" % (self.x, self.y)

    Point.__module__ = __name__
    Point.__qualname__ = "Point"
    globals()["Point"] = Point

    reg = orm.registry()

    class Doc:
        __tablename__ = "doc"
        id = sa.Column(sa.Integer, primary_key=True)
        tag = sa.Column(sa.String)
        d_json = sa.Column(MutableDict.as_mutable(sa.JSON))
        d_pickle = sa.Column(MutableDict.as_mutable(sa.PickleType))
        d_assoc = sa.Column(AssocJSON)
        l_json = sa.Column(MutableList.as_mutable(sa.JSON))
        l_pickle = sa.Column(MutableList.as_mutable(sa.PickleType))
        s_pickle = sa.Column(MutableSet.as_mutable(sa.PickleType))
        x = sa.Column(sa.Integer)
        y = sa.Column(sa.Integer)
        pt = orm.composite(Point, x, y)

    Doc.__module__ = __name__
    Doc.__qualname__ = "Doc"
    globals()["Doc"] = Doc
    reg.mapped(Doc)
    reg.configure()
    _C49.update(reg=reg, Doc=Doc, Point=Point,
                kinds={"d_json": "dict", "d_pickle": "dict", "d_assoc": "dict", "l_json": "list",
                       "l_pickle": "list", "s_pickle": "set"},
                storage={"d_json": "json", "d_pickle": "pickle", "d_assoc": "json", "l_json": "json",
                         "l_pickle": "pickle", "s_pickle": "pickle"})
    return _C49


# --------------------------------------------------------------------------
# C37: bidirectional pairs (always back_populates), one (P, C) class pair per kind
# --------------------------------------------------------------------------
C37_KINDS = ("o2m_list", "o2m_set", "o2m_dict", "o2o", "m2m_list", "m2m_set")


def c37_mapping():
    """P.kids <-> C.par (o2m / o2o) or P.kids <-> C.pars (m2m)."""
    import sqlalchemy as sa
    from sqlalchemy import orm
    from sqlalchemy.orm import attribute_keyed_dict

    reg = orm.registry()
    out = {}
    for kind in C37_KINDS:
        m2m = kind.startswith("m2m")
        P = type("P_" + kind, (object,), {
            "__tablename__": "p_" + kind,
            "id": sa.Column(sa.Integer, primary_key=True),
            "name": sa.Column(sa.String),
            "__repr__": lambda self: "P(%s)" % self.name,
        })
        cattrs = {
            "__tablename__": "c_" + kind,
            "id": sa.Column(sa.Integer, primary_key=True),
            "name": sa.Column(sa.String),
            "__repr__": lambda self: "C(%s)" % self.name,
        }
        if not m2m:
            cattrs["pid"] = sa.Column(sa.ForeignKey("p_" + kind + ".id"))
        C = type("C_" + kind, (object,), cattrs)
        reg.mapped(P)
        reg.mapped(C)
        if m2m:
            sec = sa.Table(
                "s_" + kind, reg.metadata,
                sa.Column("pid", sa.ForeignKey("p_" + kind + ".id"), primary_key=True),
                sa.Column("cid", sa.ForeignKey("c_" + kind + ".id"), primary_key=True),
            )
            cc = list if kind == "m2m_list" else set
            P.__mapper__.add_property("kids", orm.relationship(
                C, secondary=sec, back_populates="pars", collection_class=cc,
                **({"order_by": C.__table__.c.id} if cc is list else {})))
            C.__mapper__.add_property("pars", orm.relationship(
                P, secondary=sec, back_populates="kids", collection_class=cc,
                **({"order_by": P.__table__.c.id} if cc is list else {})))
        elif kind == "o2o":
            P.__mapper__.add_property("kids", orm.relationship(C, back_populates="par", uselist=False))
            C.__mapper__.add_property("par", orm.relationship(P, back_populates="kids"))
        else:
            cc = {"o2m_list": list, "o2m_set": set, "o2m_dict": attribute_keyed_dict("name")}[kind]
            P.__mapper__.add_property("kids", orm.relationship(
                C, back_populates="par", collection_class=cc,
                **({"order_by": C.__table__.c.id} if cc is list else {})))
            C.__mapper__.add_property("par", orm.relationship(P, back_populates="kids"))
        out[kind] = (P, C)
    reg.configure()
    return reg, out


# --------------------------------------------------------------------------
# C39: cascade configurations.  A "kind" is a small schema; every relationship gets an
# explicit cascade set, so that the reachability model is exact.
# --------------------------------------------------------------------------
CASCADES = ("save-update", "merge", "refresh-expire", "expunge", "delete")


def cascade_string(kinds, orphan=False):
    items = [c for c in CASCADES if c in kinds]
    if orphan:
        items.append("delete-orphan")
    return ", ".join(items) if items else "none"


class Rel:
    """one direction of a relationship, as the model sees it"""

    def __init__(self, cls, attr, target, shape, cascade, orphan, rev, virtual=False):
        self.virtual = virtual  # reverse side of a unidirectional relationship: model only
        self.cls, self.attr, self.target = cls, attr, target
        self.shape = shape  # "o2m" | "m2o" | "m2m" | "o2o"  (o2o = scalar holding side of a one-to-one)
        self.cascade = frozenset(cascade)
        self.orphan = orphan
        self.rev = rev  # attribute name of the reverse direction on the target class
        self.collection = shape in ("o2m", "m2m")

    def __repr__(self):
        return "%s.%s[%s]" % (self.cls, self.attr, cascade_string(self.cascade, self.orphan))


def c39_mapping(kind, fwd, fwd_orphan, back, second=None, second_orphan=False):
    """kind in Z1 (A -bs-> B -cs-> C), Z2 (self-referential N.kids / N.par),
    Z3 (many-to-many L.rs / R.ls), Z5 (one-to-one A.b / B.a), Z6 (Z1 without any
    backref: unidirectional one-to-many chain), Z7 (one-to-one A.b with a collection
    B.cs below it), Z8 (many-to-one A.b, single_parent when delete-orphan, B.cs below).
    fwd / back / second are iterables of cascade names.  Returns (registry, classes, rels)."""
    import sqlalchemy as sa
    from sqlalchemy import orm

    reg = orm.registry()
    classes = {}
    rels = []

    def mk(name, **cols):
        d = {"__tablename__": name.lower(), "id": sa.Column(sa.Integer, primary_key=True),
             "name": sa.Column(sa.String), "v": sa.Column(sa.Integer),
             "__repr__": lambda self: "%s" % self.name}
        d.update(cols)
        cls = type(name, (object,), d)
        reg.mapped(cls)
        classes[name] = cls
        return cls

    def rel(cls, attr, target, shape, cascade, orphan, rev, **kw):
        classes[cls].__mapper__.add_property(attr, orm.relationship(
            classes[target], cascade=cascade_string(cascade, orphan), back_populates=rev, **kw))
        rels.append(Rel(cls, attr, target, shape, cascade, orphan, rev))

    if kind == "Z1":
        mk("A")
        mk("B", a_id=sa.Column(sa.ForeignKey("a.id")))
        mk("C", b_id=sa.Column(sa.ForeignKey("b.id")))
        second = fwd if second is None else second
        rel("A", "bs", "B", "o2m", fwd, fwd_orphan, "a")
        rel("B", "a", "A", "m2o", back, False, "bs")
        rel("B", "cs", "C", "o2m", second, second_orphan, "b")
        rel("C", "b", "B", "m2o", back, False, "cs")
    elif kind == "Z2":
        N = mk("N", par_id=sa.Column(sa.ForeignKey("n.id")))
        rel("N", "kids", "N", "o2m", fwd, fwd_orphan, "par")
        rel("N", "par", "N", "m2o", back, False, "kids", remote_side=[N.__table__.c.id])
    elif kind == "Z3":
        mk("L")
        mk("R")
        sec = sa.Table("lr", reg.metadata,
                       sa.Column("l_id", sa.ForeignKey("l.id"), primary_key=True),
                       sa.Column("r_id", sa.ForeignKey("r.id"), primary_key=True))
        rel("L", "rs", "R", "m2m", fwd, False, "ls", secondary=sec)
        rel("R", "ls", "L", "m2m", back, False, "rs", secondary=sec)
    elif kind == "Z5":
        mk("A")
        mk("B", a_id=sa.Column(sa.ForeignKey("a.id")))
        rel("A", "b", "B", "o2o", fwd, fwd_orphan, "a", uselist=False)
        rel("B", "a", "A", "m2o", back, False, "b")
    elif kind == "Z7":
        mk("A")
        mk("B", a_id=sa.Column(sa.ForeignKey("a.id")))
        mk("C", b_id=sa.Column(sa.ForeignKey("b.id")))
        second = fwd if second is None else second
        rel("A", "b", "B", "o2o", fwd, fwd_orphan, "a", uselist=False)
        rel("B", "a", "A", "m2o", back, False, "b")
        rel("B", "cs", "C", "o2m", second, second_orphan, "b")
        rel("C", "b", "B", "m2o", back, False, "cs")
    elif kind == "Z8":
        mk("B")
        mk("A", b_id=sa.Column(sa.ForeignKey("b.id")))
        mk("C", b_id=sa.Column(sa.ForeignKey("b.id")))
        second = fwd if second is None else second
        # many-to-one holder side; delete-orphan on it requires single_parent
        rel("A", "b", "B", "m2o", fwd, fwd_orphan, "as_", single_parent=bool(fwd_orphan))
        rel("B", "as_", "A", "o2m", back, False, "b")
        rel("B", "cs", "C", "o2m", second, second_orphan, "b")
        rel("C", "b", "B", "m2o", back, False, "cs")
    elif kind == "Z6":
        mk("A")
        mk("B", a_id=sa.Column(sa.ForeignKey("a.id")))
        mk("C", b_id=sa.Column(sa.ForeignKey("b.id")))
        second = fwd if second is None else second
        for cls, attr, target, casc, orph, rev in (("A", "bs", "B", fwd, fwd_orphan, "_a"),
                                                   ("B", "cs", "C", second, second_orphan, "_b")):
            classes[cls].__mapper__.add_property(attr, orm.relationship(
                classes[target], cascade=cascade_string(casc, orph)))
            rels.append(Rel(cls, attr, target, "o2m", casc, orph, rev))
            rels.append(Rel(target, rev, cls, "m2o", (), False, attr, virtual=True))
    else:
        raise ValueError(kind)
    reg.configure()
    return reg, classes, rels


# --------------------------------------------------------------------------
# C49: inheritance hierarchies (4 levels, all declared before mapper configuration) with
# Mutable columns on ancestors.  Module globals so that instances pickle by reference.
# --------------------------------------------------------------------------
_C49H = {}


def c49_hierarchy():
    """single-table (prefix S) and joined-table (prefix J) hierarchies
    Node -> Child -> GrandChild -> GreatGrandChild; ``d`` (MutableDict/JSON) is mapped on
    Node, ``l`` (MutableList/JSON) on Child."""
    if _C49H:
        return _C49H
    import sqlalchemy as sa
    from sqlalchemy import orm
    from sqlalchemy.ext.mutable import MutableDict, MutableList

    reg = orm.registry()
    out = {}
    for prefix, joined in (("S", False), ("J", True)):
        t = prefix.lower()
        names = ["Node", "Child", "GrandChild", "GreatGrandChild"]
        classes = []
        for depth, nm in enumerate(names):
            cname = prefix + nm
            d = {"__mapper_args__": {"polymorphic_identity": cname}}
            if depth == 0:
                d.update(__tablename__=t + "node", id=sa.Column(sa.Integer, primary_key=True),
                         kind=sa.Column(sa.String(30)), d=sa.Column(MutableDict.as_mutable(sa.JSON)))
                d["__mapper_args__"]["polymorphic_on"] = d["kind"]
                bases = (object,)
            else:
                bases = (classes[-1],)
                if joined:
                    d.update(__tablename__=t + nm.lower(),
                             id=sa.Column(sa.ForeignKey(classes[-1].__table__.c.id), primary_key=True))
                if depth == 1:
                    d["l"] = sa.Column(MutableList.as_mutable(sa.JSON))
            cls = type(cname, bases, d)
            cls.__module__ = __name__
            cls.__qualname__ = cname
            globals()[cname] = cls
            reg.mapped(cls)
            classes.append(cls)
        out[prefix] = classes
    reg.configure()
    _C49H.update(reg=reg, hier=out)
    return _C49H
