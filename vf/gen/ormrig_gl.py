"""Shared ORM rig for C40 / C41 / C42 / C47 (group ``gl``).

* ``build_zoo(rng)``      a mapping zoo on a *private* ``registry()`` (imperative mapping
  over explicit ``Table`` objects so that table / column names are known to the SQL
  translators), with knobs drawn from ``rng``: relationship ``order_by`` (none /
  total), default ``lazy=`` strategy, ``collection_class`` (list / set), inheritance
  flavour of the ``E`` hierarchy (joined / single), a deferred column.

      A  (self-referential tree: A.parent m2o / A.children o2m)
      A.bs  -> B  (o2m, nullable FK)        B.a  (m2o)
      B.cs  -> C  (o2m, nullable FK)        C.b  (m2o)
      A.tags <-> T.owners (m2m through a_t)
      A.profile -> P (one-to-one, uselist=False)   P.a (m2o)
      A.es -> E (o2m, NOT NULL FK, polymorphic: E / Eng / Mgr)   E.a (m2o)

* ``populate(zoo, rng, engine)``  rows written with plain Core inserts (never through the
  ORM under test): duplicate values, NULL scalars, NULL foreign keys, empty
  collections, childless / parentless rows.  Returns the population
  ``{table: [row dict, ...]}``.

* ``graph_snapshot(roots, zoo, tree=None)``  reads **only** ``obj.__dict__`` (never an
  instrumented attribute), so taking it cannot trigger a lazy load, a deferred load or
  an autoflush.  Collections are recorded in order only where the relationship has a
  *total* mapper-level ``order_by``; otherwise as sorted multisets.

* ``touch(roots, zoo, tree)``  the explicit attribute access that makes a lazy
  configuration load what an eager one already loaded.

* ``build_hierarchy(rng, kind)`` / ``populate_hierarchy``  generated inheritance
  hierarchies (joined / single / concrete / mixed joined+single) for C42.
"""
from __future__ import annotations

import itertools

STRATEGIES = ("lazy", "joined", "subquery", "selectin", "immediate")


class Base:
    def __init__(self, **kw):
        for k, v in kw.items():
            setattr(self, k, v)

    def __repr__(self):
        d = self.__dict__
        return f"<{type(self).__name__} {d.get('id', '?')}>"


class RelInfo:
    __slots__ = ("owner", "name", "target", "uselist", "order", "total", "coll", "lazy",
                 "nullable_fk", "direction", "fk_table", "fk_col", "secondary")

    def __init__(self, **kw):
        for k in self.__slots__:
            setattr(self, k, kw.get(k))


class Zoo:
    """Everything a check needs to know about one generated mapping."""

    def __init__(self):
        self.reg = None
        self.md = None
        self.cls = {}       # name -> class
        self.tables = {}    # name -> Table
        self.rels = {}      # (owner class name, rel name) -> RelInfo
        self.view_rels = {}  # (owner, name) -> RelInfo of viewonly relationships (not in .rels)
        self.sub_rels = {}   # (owner, name) -> RelInfo of relationships targeting a subclass (not in .rels)
        self.cols = {}      # class name -> [column attribute names]  (own + inherited)
        self.knobs = {}
        self.e_kind = None

    def rel(self, owner, name):
        """RelInfo for a relationship as seen from ``owner`` (a class name; subclasses
        of E resolve to E's relationships)."""
        k = (owner, name)
        if k in self.rels:
            return self.rels[k]
        if k in self.sub_rels:
            return self.sub_rels[k]
        if owner in ("Eng", "Mgr"):
            return self.rels[("E", name)]
        raise KeyError(k)

    def sub_relnames(self, owner):
        return [n for (o, n) in self.sub_rels if o == owner]

    def relnames(self, owner):
        base = "E" if owner in ("Eng", "Mgr") else owner
        return [n for (o, n) in self.rels if o == base]

    def dispose(self):
        self.reg.dispose()


def _mk(name, bases=(Base,)):
    return type(name, bases, {})


def build_zoo(rng, knobs=None):
    import sqlalchemy as sa
    from sqlalchemy import orm

    z = Zoo()
    reg = z.reg = orm.registry()
    md = z.md = reg.metadata
    I, S = sa.Integer, sa.String

    ta = sa.Table("a", md, sa.Column("id", I, primary_key=True), sa.Column("name", S(20)),
                  sa.Column("x", I), sa.Column("grp", I), sa.Column("note", S(20)),
                  sa.Column("parent_id", sa.ForeignKey("a.id"), nullable=True))
    tb = sa.Table("b", md, sa.Column("id", I, primary_key=True),
                  sa.Column("a_id", sa.ForeignKey("a.id"), nullable=True),
                  sa.Column("pos", I), sa.Column("val", S(20)),
                  # references the *base* table of the E hierarchy: may name an E, Eng or Mgr row
                  sa.Column("lead_id", sa.ForeignKey("e.id"), nullable=True))
    tc = sa.Table("c", md, sa.Column("id", I, primary_key=True),
                  sa.Column("b_id", sa.ForeignKey("b.id"), nullable=True), sa.Column("q", I))
    tt = sa.Table("t", md, sa.Column("id", I, primary_key=True), sa.Column("label", S(20)))
    tat = sa.Table("a_t", md, sa.Column("a_id", sa.ForeignKey("a.id"), primary_key=True),
                   sa.Column("t_id", sa.ForeignKey("t.id"), primary_key=True))
    tp = sa.Table("p", md, sa.Column("id", I, primary_key=True),
                  sa.Column("a_id", sa.ForeignKey("a.id"), unique=True, nullable=True),
                  sa.Column("bio", S(20)))
    k = dict(knobs or {})

    def knob(name, choices):
        if name not in k:
            k[name] = rng.choice(choices)
        return k[name]

    e_kind = knob("e_kind", ["joined", "joined", "single"])
    z.e_kind = e_kind
    if e_kind == "joined":
        te = sa.Table("e", md, sa.Column("id", I, primary_key=True),
                      sa.Column("a_id", sa.ForeignKey("a.id"), nullable=False),
                      sa.Column("type", S(10), nullable=False), sa.Column("ename", S(20)))
        teng = sa.Table("eng", md, sa.Column("id", sa.ForeignKey("e.id"), primary_key=True),
                        sa.Column("lang", S(20)))
        tmgr = sa.Table("mgr", md, sa.Column("id", sa.ForeignKey("e.id"), primary_key=True),
                        sa.Column("level", I))
        z.tables.update(eng=teng, mgr=tmgr)
    else:
        te = sa.Table("e", md, sa.Column("id", I, primary_key=True),
                      sa.Column("a_id", sa.ForeignKey("a.id"), nullable=False),
                      sa.Column("type", S(10), nullable=False), sa.Column("ename", S(20)),
                      sa.Column("lang", S(20)), sa.Column("level", I))
        teng = tmgr = None
    z.tables.update(a=ta, b=tb, c=tc, t=tt, a_t=tat, p=tp, e=te)

    A, B, C, T, P, E = (_mk(n) for n in "ABCTPE")
    Eng = _mk("Eng", (E,))
    Mgr = _mk("Mgr", (E,))
    z.cls.update(A=A, B=B, C=C, T=T, P=P, E=E, Eng=Eng, Mgr=Mgr)

    coll_lazy = ["select", "select", "select", "joined", "selectin", "subquery", "immediate"]
    scal_lazy = ["select", "select", "select", "joined", "selectin", "immediate"]

    def order_knob(name, total_choices):
        """None | a total order (list of (table column, desc flag))."""
        c = knob("order_" + name, [None, 0, 1] if len(total_choices) > 1 else [None, 0])
        return None if c is None else total_choices[c]

    def ob(spec):
        return [(col.desc() if d else col) for col, d in spec] if spec else None

    def reg_rel(owner, name, target, uselist, order=None, coll="list", lazy="select",
                nullable_fk=True, direction=None, fk_table=None, fk_col=None, secondary=None):
        z.rels[(owner, name)] = RelInfo(
            owner=owner, name=name, target=target, uselist=uselist,
            order=[(c.name, bool(d)) for c, d in order] if order else None,
            total=bool(order), coll=coll, lazy=lazy, nullable_fk=nullable_fk,
            direction=direction, fk_table=fk_table, fk_col=fk_col, secondary=secondary)

    def collclass(name):
        return knob("coll_" + name, ["list", "list", "list", "set"])

    def relkw(owner, name, target, uselist, order_choices=None, nullable_fk=True, **info):
        kw = {}
        order = order_knob(f"{owner}_{name}", order_choices) if order_choices else None
        coll = "list"
        if uselist:
            coll = collclass(f"{owner}_{name}")
            if coll == "set":
                kw["collection_class"] = set
                order = None  # a set has no order to compare
            if order:
                kw["order_by"] = ob(order)
        lz = knob(f"lazy_{owner}_{name}", coll_lazy if uselist else scal_lazy)
        kw["lazy"] = lz
        reg_rel(owner, name, target, uselist, order, coll, lz, nullable_fk, **info)
        return kw

    a_props = {
        "bs": orm.relationship(B, back_populates="a", **relkw(
            "A", "bs", "B", True, [[(tb.c.pos, 0), (tb.c.id, 0)], [(tb.c.id, 1)]],
            direction="o2m", fk_table="b", fk_col="a_id")),
        "children": orm.relationship(A, back_populates="parent", **relkw(
            "A", "children", "A", True, [[(ta.c.x, 1), (ta.c.id, 0)], [(ta.c.id, 0)]],
            direction="o2m", fk_table="a", fk_col="parent_id")),
        "parent": orm.relationship(A, back_populates="children", remote_side=[ta.c.id], **relkw(
            "A", "parent", "A", False, direction="m2o", fk_table="a", fk_col="parent_id")),
        "tags": orm.relationship(T, secondary=tat, back_populates="owners", **relkw(
            "A", "tags", "T", True, [[(tt.c.label, 0), (tt.c.id, 1)], [(tt.c.id, 0)]],
            direction="m2m", secondary=("a_t", "a_id", "t_id"))),
        "profile": orm.relationship(P, back_populates="a", uselist=False, **relkw(
            "A", "profile", "P", False, direction="o2o", fk_table="p", fk_col="a_id")),
        "es": orm.relationship(E, back_populates="a", **relkw(
            "A", "es", "E", True, [[(te.c.ename, 0), (te.c.id, 0)], [(te.c.id, 1)]],
            direction="o2m", fk_table="e", fk_col="a_id")),
        "expr": orm.query_expression(),
        # read-only views over rows that other, writable relationships change
        "hot_bs": orm.relationship(
            B, primaryjoin=sa.and_(ta.c.id == tb.c.a_id, tb.c.pos >= 2), viewonly=True,
            order_by=tb.c.id, lazy="select"),
    }
    z.view_rels[("A", "hot_bs")] = RelInfo(owner="A", name="hot_bs", target="B", uselist=True, total=True,
                                           order=[("id", False)], coll="list", lazy="select", direction="o2m",
                                           fk_table="b", fk_col="a_id")
    if knob("defer_note", [False, True]):
        a_props["note"] = orm.deferred(ta.c.note, group="g")
    reg.map_imperatively(A, ta, properties=a_props)
    reg.map_imperatively(B, tb, properties={
        "a": orm.relationship(A, back_populates="bs", **relkw(
            "B", "a", "A", False, direction="m2o", fk_table="b", fk_col="a_id")),
        "cs": orm.relationship(C, back_populates="b", **relkw(
            "B", "cs", "C", True, [[(tc.c.q, 0), (tc.c.id, 1)], [(tc.c.id, 0)]],
            direction="o2m", fk_table="c", fk_col="b_id")),
        "expr": orm.query_expression(),
        # many-to-one that targets a *subclass* of the polymorphic hierarchy while the
        # foreign key may point at base / sibling rows: those must load as None
        "lead": orm.relationship(Eng, foreign_keys=[tb.c.lead_id],
                                 lazy=knob("lazy_B_lead", scal_lazy)),
    })
    z.sub_rels[("B", "lead")] = RelInfo(owner="B", name="lead", target="Eng", uselist=False, total=False,
                                        coll="list", lazy=k["lazy_B_lead"], nullable_fk=True, direction="m2o",
                                        fk_table="b", fk_col="lead_id")
    reg.map_imperatively(C, tc, properties={
        "b": orm.relationship(B, back_populates="cs", **relkw(
            "C", "b", "B", False, direction="m2o", fk_table="c", fk_col="b_id")),
    })
    reg.map_imperatively(T, tt, properties={
        "owners": orm.relationship(A, secondary=tat, back_populates="tags", **relkw(
            "T", "owners", "A", True, [[(ta.c.id, 1)], [(ta.c.grp, 0), (ta.c.id, 0)]],
            direction="m2m", secondary=("a_t", "t_id", "a_id"))),
        "big_owners": orm.relationship(
            A, secondary=tat, primaryjoin=tt.c.id == tat.c.t_id,
            secondaryjoin=sa.and_(ta.c.id == tat.c.a_id, ta.c.grp >= 1), viewonly=True,
            order_by=ta.c.id, lazy="select"),
    })
    z.view_rels[("T", "big_owners")] = RelInfo(owner="T", name="big_owners", target="A", uselist=True, total=True,
                                               order=[("id", False)], coll="list", lazy="select", direction="m2m",
                                               secondary=("a_t", "t_id", "a_id"))
    reg.map_imperatively(P, tp, properties={
        "a": orm.relationship(A, back_populates="profile", **relkw(
            "P", "a", "A", False, direction="m2o", fk_table="p", fk_col="a_id")),
    })
    e_rel = {"a": orm.relationship(A, back_populates="es", **relkw(
        "E", "a", "A", False, nullable_fk=False, direction="m2o", fk_table="e", fk_col="a_id"))}
    pl = knob("e_polyload", [None, None, "selectin", "inline"]) if e_kind == "joined" else None
    sub_kw = {"polymorphic_load": pl} if pl else {}
    wp = knob("e_with_poly", [None, None, "*"]) if e_kind == "joined" and not pl else None
    base_kw = {"with_polymorphic": "*"} if wp else {}
    if e_kind == "single":
        base_kw["exclude_properties"] = ["lang", "level"]
    reg.map_imperatively(E, te, polymorphic_on=te.c.type, polymorphic_identity="e",
                         properties=e_rel, **base_kw)
    if e_kind == "joined":
        reg.map_imperatively(Eng, teng, inherits=E, polymorphic_identity="eng", **sub_kw)
        reg.map_imperatively(Mgr, tmgr, inherits=E, polymorphic_identity="mgr", **sub_kw)
    else:
        reg.map_imperatively(Eng, None, inherits=E, polymorphic_identity="eng",
                             properties={"lang": te.c.lang})
        reg.map_imperatively(Mgr, None, inherits=E, polymorphic_identity="mgr",
                             properties={"level": te.c.level})
    reg.configure()
    for n, c in z.cls.items():
        m = sa.inspect(c)
        z.cols[n] = sorted(a.key for a in m.column_attrs if a.key != "expr")
    z.knobs = {kk: (vv if not isinstance(vv, list) else "order") for kk, vv in k.items()}
    return z


# --------------------------------------------------------------------------
# populations
# --------------------------------------------------------------------------
NAMES = ["ann", "bob", "bob", "cy", "", None, "Zed", "ann"]
VALS = ["u", "v", "v", None, "w"]
LANGS = ["py", "c", None, "py"]


def gen_population(zoo, rng, scale=1):
    """Rows with duplicates, NULL scalars, NULL FKs, empty collections."""
    nA = rng.randint(3, 5 + 2 * scale)
    pop = {k: [] for k in ("a", "b", "c", "t", "a_t", "p", "e", "eng", "mgr")}
    for i in range(1, nA + 1):
        pop["a"].append({
            "id": i, "name": rng.choice(NAMES), "x": rng.choice([None, 0, 1, 1, 2, 3, 5, -1]),
            "grp": rng.choice([0, 1, 1, 2]), "note": rng.choice(["n1", "n2", None]),
            "parent_id": rng.choice([None] + list(range(1, i))) if i > 1 and rng.random() < 0.6 else None,
        })
    nB = rng.randint(2, 4 + 3 * scale)
    childless = rng.randint(1, nA)  # this A never gets a B: an empty collection is guaranteed
    for i in range(1, nB + 1):
        cand = [None] + [j for j in range(1, nA + 1) if j != childless]
        aid = rng.choice(cand) if rng.random() < 0.85 or len(cand) == 1 else cand[-1]
        pop["b"].append({"id": i, "a_id": aid, "pos": rng.choice([0, 1, 1, 2, 2, 3, None]),
                         "val": rng.choice(VALS)})
    nC = rng.randint(1, 4 + 3 * scale)
    for i in range(1, nC + 1):
        pop["c"].append({"id": i, "b_id": rng.choice([None] + list(range(1, nB + 1)) * 2),
                         "q": rng.choice([0, 1, 1, 2, 7, None])})
    nT = rng.randint(1, 4)
    for i in range(1, nT + 1):
        pop["t"].append({"id": i, "label": rng.choice(["red", "blue", "blue", None, "green"])})
    for a in range(1, nA + 1):
        for t in range(1, nT + 1):
            if rng.random() < 0.4:
                pop["a_t"].append({"a_id": a, "t_id": t})
    pid = 0
    for a in range(1, nA + 1):
        if rng.random() < 0.5:
            pid += 1
            pop["p"].append({"id": pid, "a_id": a, "bio": rng.choice(["x", "y", None])})
    if rng.random() < 0.5:
        pid += 1
        pop["p"].append({"id": pid, "a_id": None, "bio": "orphan"})
    nE = rng.randint(2, 4 + 2 * scale)
    for i in range(1, nE + 1):
        ty = rng.choice(["e", "eng", "eng", "mgr"])
        row = {"id": i, "a_id": rng.randint(1, nA), "type": ty,
               "ename": rng.choice(["kim", "lee", "lee", None, "max"])}
        lang = rng.choice(LANGS)
        level = rng.choice([1, 2, 2, None])
        if zoo.e_kind == "joined":
            if ty == "eng":
                pop["eng"].append({"id": i, "lang": lang})
            elif ty == "mgr":
                pop["mgr"].append({"id": i, "level": level})
        else:
            row["lang"] = lang if ty == "eng" else None
            row["level"] = level if ty == "mgr" else None
        pop["e"].append(row)
    for b in pop["b"]:
        b["lead_id"] = rng.choice([None] + [r["id"] for r in pop["e"]] * 2)
    return pop


def write_population(zoo, pop, engine):
    """Plain Core executemany inserts, parents before children."""
    zoo.md.create_all(engine)
    with engine.begin() as conn:
        for tname in ("a", "b", "c", "t", "a_t", "p", "e", "eng", "mgr"):
            if tname in zoo.tables and pop.get(tname):
                conn.execute(zoo.tables[tname].insert(), pop[tname])


def populate(zoo, rng, engine, scale=1):
    pop = gen_population(zoo, rng, scale)
    write_population(zoo, pop, engine)
    return pop


# --------------------------------------------------------------------------
# snapshot / touch
# --------------------------------------------------------------------------
def state_of(obj):
    return obj.__dict__["_sa_instance_state"]


def ident(obj):
    """Identity of a persistent object without touching instrumented attributes."""
    if obj is None:
        return None
    key = state_of(obj).key
    if key is None:
        return f"{type(obj).__name__}:transient@{id(obj)}"
    pk = key[1]
    return f"{type(obj).__name__}:{pk[0] if len(pk) == 1 else list(pk)}"


def _sortkey(v):
    return (v is None, str(type(v).__name__), v if v is not None else 0)


def snap_value(v):
    return v


def snap_obj(obj, zoo, rels=None):
    """One object's loaded state, from ``__dict__`` only."""
    d = obj.__dict__
    cname = type(obj).__name__
    out = {"t": cname, "c": {}, "r": {}}
    for k in zoo.cols[cname]:
        if k in d:
            out["c"][k] = d[k]
    if cname in ("A", "B"):
        # query_expression(): absent from __dict__ and None both read as None
        out["c"]["expr"] = d.get("expr")
    names = zoo.relnames(cname) if rels is None else rels
    for name in names:
        if name not in d:
            continue
        ri = zoo.rel(cname, name)
        v = d[name]
        if not ri.uselist:
            out["r"][name] = ident(v)
        else:
            keys = [ident(x) for x in v]
            if ri.coll == "set" or not ri.total:
                keys = sorted(keys)
            out["r"][name] = keys
    return out


def graph_snapshot(roots, zoo, tree=None):
    """``{identity: {"t": class, "c": {loaded columns}, "r": {loaded relationships}}}``.

    With ``tree`` (``{relname: subtree}``) only that relationship tree is walked and
    recorded; without it every relationship present in ``__dict__`` is followed
    (visited set keeps it finite).  Reads only ``__dict__``.
    """
    out = {}

    def merge(key, snap):
        cur = out.get(key)
        if cur is None:
            out[key] = snap
        else:
            cur["c"].update(snap["c"])
            cur["r"].update(snap["r"])

    if tree is None:
        seen = set()
        stack = [o for o in roots if o is not None]
        while stack:
            o = stack.pop()
            if id(o) in seen:
                continue
            seen.add(id(o))
            merge(ident(o), snap_obj(o, zoo))
            d = o.__dict__
            for name in zoo.relnames(type(o).__name__):
                if name in d:
                    v = d[name]
                    if v is None:
                        continue
                    stack.extend(list(v) if zoo.rel(type(o).__name__, name).uselist else [v])
        return out

    def walk(objs, sub):
        for o in objs:
            if o is None:
                continue
            merge(ident(o), snap_obj(o, zoo, rels=list(sub)))
            d = o.__dict__
            for name, subsub in sub.items():
                if name in d and d[name] is not None:
                    v = d[name]
                    walk(list(v) if zoo.rel(type(o).__name__, name).uselist else [v], subsub)

    walk(list(roots), tree)
    return out


def touch(roots, zoo, tree, cols=True):
    """Explicit attribute access along ``tree``: loads whatever is still unloaded."""
    n = 0
    for o in roots:
        if o is None:
            continue
        if cols:
            for k in zoo.cols[type(o).__name__]:
                getattr(o, k)
        for name, sub in tree.items():
            v = getattr(o, name)
            n += 1
            if v is None:
                continue
            n += touch(list(v) if zoo.rel(type(o).__name__, name).uselist else [v], zoo, sub, cols)
    return n


def tree_paths(tree, prefix=()):
    """All relationship paths of a tree, parents before children."""
    out = []
    for name, sub in tree.items():
        p = prefix + (name,)
        out.append(p)
        out.extend(tree_paths(sub, p))
    return out


def diff_snap(a, b, limit=4):
    """Human-readable first differences between two snapshots."""
    out = []
    for k in sorted(set(a) | set(b)):
        if k not in a or k not in b:
            out.append(f"{k}: only in {'second' if k not in a else 'first'}")
        elif a[k] != b[k]:
            for sect in ("t", "c", "r"):
                if a[k][sect] != b[k][sect]:
                    if sect == "t":
                        out.append(f"{k}.type: {a[k][sect]} != {b[k][sect]}")
                    else:
                        for f in sorted(set(a[k][sect]) | set(b[k][sect])):
                            va, vb = a[k][sect].get(f, "<unloaded>"), b[k][sect].get(f, "<unloaded>")
                            if va != vb:
                                out.append(f"{k}.{f}: {va!r} != {vb!r}")
        if len(out) >= limit:
            break
    return out


# --------------------------------------------------------------------------
# inheritance hierarchies for C42
# --------------------------------------------------------------------------
class HNode:
    __slots__ = ("name", "parent", "children", "cls", "table", "storage", "ident", "abstract",
                 "own_attrs", "depth")

    def __init__(self, name, parent, storage):
        self.name = name
        self.parent = parent
        self.children = []
        self.cls = None
        self.table = None
        self.storage = storage      # 'base' | 'joined' | 'single' | 'concrete'
        self.ident = name.lower()
        self.abstract = False
        self.own_attrs = []
        self.depth = 0 if parent is None else parent.depth + 1

    def lineage(self):
        n, out = self, []
        while n is not None:
            out.append(n)
            n = n.parent
        return out[::-1]

    def all_attrs(self):
        return [a for n in self.lineage() for a in n.own_attrs]

    def descendants(self):
        out = [self]
        for c in self.children:
            out.extend(c.descendants())
        return out


class Hierarchy:
    def __init__(self):
        self.reg = None
        self.md = None
        self.kind = None
        self.nodes = []          # preorder
        self.root = None
        self.owner_cls = None    # class O with relationship "items" to the root
        self.owner_table = None
        self.knobs = {}
        self.pjoin = None
        self.disc_type = "str"

    def node(self, name):
        return next(n for n in self.nodes if n.name == name)

    def dispose(self):
        self.reg.dispose()


def gen_tree_shape(rng, max_depth=3, max_width=3, max_nodes=8):
    """Preorder list of (name, parent name) of a class tree: depth <= max_depth levels
    below the root, width <= max_width children per node."""
    names = iter("K%d" % i for i in itertools.count())
    root = next(names)
    shape = [(root, None)]
    frontier = [(root, 0)]
    while frontier and len(shape) < max_nodes:
        parent, d = frontier.pop(0)
        if d >= max_depth:
            continue
        width = rng.randint(1 if d == 0 else 0, max_width)
        for _ in range(width):
            if len(shape) >= max_nodes:
                break
            n = next(names)
            shape.append((n, parent))
            frontier.append((n, d + 1))
    return shape


def build_hierarchy(rng, kind, shape=None, knobs=None):
    """kind in joined | single | mixed | concrete.

    Every class adds one or two own columns (``<name>_v`` int, sometimes ``<name>_s``
    str).  ``mixed`` = joined hierarchy where some subclasses use single-table
    inheritance onto their parent's table.  An owner class ``O`` has a collection
    ``items`` of the root class (used for of_type through a relationship); for
    concrete hierarchies the relationship is omitted.
    """
    import sqlalchemy as sa
    from sqlalchemy import orm

    h = Hierarchy()
    h.kind = kind
    reg = h.reg = orm.registry()
    md = h.md = reg.metadata
    k = dict(knobs or {})

    def knob(name, choices):
        if name not in k:
            k[name] = rng.choice(choices)
        return k[name]

    shape = shape or gen_tree_shape(rng)
    by = {}
    for name, parent in shape:
        p = by.get(parent)
        if p is None:
            storage = "base"
        elif kind == "joined":
            storage = "joined"
        elif kind == "single":
            storage = "single"
        elif kind == "mixed":
            storage = rng.choice(["joined", "single"])
        else:
            storage = "concrete"
        n = HNode(name, p, storage)
        if p is not None:
            p.children.append(n)
        n.own_attrs = [f"{name.lower()}_v"] + ([f"{name.lower()}_s"] if rng.random() < 0.5 else [])
        by[name] = n
        h.nodes.append(n)
    h.root = h.nodes[0]
    I, S = sa.Integer, sa.String
    # discriminator values: strings (sometimes with "" for one subclass) or integers
    # (0 is then some class's identity) - falsy identities are valid identities
    disc = knob("disc_type", ["str", "str", "int"]) if kind != "concrete" else "str"
    h.disc_type = disc
    if disc == "int":
        ids = list(range(len(h.nodes)))
        rng.shuffle(ids)
        for n, i in zip(h.nodes, ids):
            n.ident = i
    elif kind != "concrete" and len(h.nodes) > 1 and rng.random() < 0.6:
        rng.choice(h.nodes[1:]).ident = ""
    DT = I if disc == "int" else S(10)

    def attr_cols(n):
        return [sa.Column(a, I if a.endswith("_v") else S(20)) for a in n.own_attrs]

    own = h.owner_table = sa.Table("o", md, sa.Column("id", I, primary_key=True))
    O = h.owner_cls = _mk("O")

    for n in h.nodes:
        n.cls = _mk(n.name, (n.parent.cls,) if n.parent else (Base,))

    if kind != "concrete":
        # abstract intermediates: a non-leaf, non-root class that never has rows of its own
        for n in h.nodes[1:]:
            if n.children and rng.random() < 0.3:
                n.abstract = True
        root = h.root
        # tables
        root.table = sa.Table(root.name.lower(), md, sa.Column("id", I, primary_key=True),
                              sa.Column("o_id", sa.ForeignKey("o.id"), nullable=True),
                              sa.Column("kind", DT, nullable=False), *attr_cols(root))
        for n in h.nodes[1:]:
            if n.storage == "joined":
                # the table a joined subclass hangs from is the nearest ancestor table
                n.table = sa.Table(n.name.lower(), md,
                                   sa.Column("id", sa.ForeignKey(n.parent.table.c.id), primary_key=True),
                                   *attr_cols(n))
            else:
                n.table = n.parent.table
                for c in attr_cols(n):
                    n.table.append_column(c)
        with_poly = knob("root_with_polymorphic", [None, None, "*"])
        for n in h.nodes:
            kw = {}
            fixed = {"id", "o_id", "kind"}
            if n.storage != "single":
                mine = set(n.all_attrs()) | fixed
                excl = [c.name for c in n.table.c if c.name not in mine]
                if excl:
                    kw["exclude_properties"] = excl
            if n.parent is None:
                kw.update(polymorphic_on=n.table.c.kind, polymorphic_identity=n.ident)
                if with_poly:
                    kw["with_polymorphic"] = "*"
                reg.map_imperatively(n.cls, n.table, **kw)
                continue
            if n.abstract and knob("use_polymorphic_abstract", [True, False]):
                kw["polymorphic_abstract"] = True
            else:
                kw["polymorphic_identity"] = n.ident
            pl = None if with_poly else knob("polyload_" + n.name, [None, None, "selectin", "inline"])
            if pl:
                kw["polymorphic_load"] = pl
            # a class mapped against a table shared with relatives maps only its own columns
            if n.storage == "single":
                reg.map_imperatively(n.cls, None, inherits=n.parent.cls,
                                     properties={a: n.table.c[a] for a in n.own_attrs}, **kw)
            else:
                reg.map_imperatively(n.cls, n.table, inherits=n.parent.cls, **kw)
        reg.map_imperatively(O, own, properties={
            "items": orm.relationship(root.cls, order_by=root.table.c.id,
                                      lazy=knob("items_lazy", ["select", "selectin", "joined"]))})
    else:
        # concrete: one full table per class, polymorphic_union over all of them
        for n in h.nodes:
            cols = [sa.Column("id", I, primary_key=True)]
            for anc in n.lineage():
                cols.extend(attr_cols(anc))
            n.table = sa.Table(n.name.lower(), md, *cols)
        pjoin = h.pjoin = orm.polymorphic_union({n.ident: n.table for n in h.nodes}, "kind", "pjoin")
        for n in h.nodes:
            if n.parent is None:
                reg.map_imperatively(n.cls, n.table, with_polymorphic=("*", pjoin),
                                     polymorphic_on=pjoin.c.kind, polymorphic_identity=n.ident)
            elif n.children:
                # an intermediate concrete class loads its own subtree polymorphically only
                # through its own polymorphic_union (documented for multi-level concrete)
                sub = orm.polymorphic_union({m.ident: m.table for m in n.descendants()},
                                            "kind", "pjoin_" + n.name.lower())
                reg.map_imperatively(n.cls, n.table, inherits=n.parent.cls, concrete=True,
                                     polymorphic_identity=n.ident, with_polymorphic=("*", sub),
                                     polymorphic_on=sub.c.kind)
            else:
                reg.map_imperatively(n.cls, n.table, inherits=n.parent.cls, concrete=True,
                                     polymorphic_identity=n.ident)
        reg.map_imperatively(O, own)
    reg.configure()
    h.knobs = k
    return h


def gen_hier_population(h, rng, scale=1):
    """Population table: list of {"cls", "id", attrs..., "o_id"}.  Abstract classes get
    no rows; every concrete class gets 0..3 rows (at least one class gets rows)."""
    rows = []
    nid = itertools.count(1)
    n_owner = rng.randint(1, 3)
    concrete_nodes = [n for n in h.nodes if not n.abstract]
    for n in concrete_nodes:
        for _ in range(rng.randint(0, 2 + scale)):
            r = {"cls": n.name, "id": next(nid)}
            for a in n.all_attrs():
                r[a] = rng.choice([None, 0, 1, 1, 7, -3]) if a.endswith("_v") else rng.choice(["p", "q", "q", None, ""])
            r["o_id"] = rng.choice([None] + list(range(1, n_owner + 1)))
            rows.append(r)
    if not rows:
        n = rng.choice(concrete_nodes)
        r = {"cls": n.name, "id": next(nid), "o_id": 1}
        for a in n.all_attrs():
            r[a] = 1 if a.endswith("_v") else "p"
        rows.append(r)
    rng.shuffle(rows)
    if h.kind == "concrete":
        # concrete tables have independent PK spaces; keep ids globally unique so that
        # the polymorphic union has a usable identity (documented requirement)
        pass
    return {"owners": n_owner, "rows": rows}


def add_late_subclass(h, rng):
    """Map one more single-table subclass *after* the hierarchy has been configured and
    used (a plugin / lazily imported module).  It stores onto its parent's table, adds no
    column, and prefers a parent that is itself at depth >= 2.  Returns the new node, or
    None for concrete hierarchies."""
    from sqlalchemy import orm  # noqa: F401

    if h.kind == "concrete":
        return None
    deep = [n for n in h.nodes if n.depth >= 2]
    mid = [n for n in h.nodes if n.depth >= 1]
    parent = rng.choice(deep or mid or h.nodes)
    name = "L%d" % len(h.nodes)
    n = HNode(name, parent, "single")
    n.own_attrs = []
    n.table = parent.table
    if h.disc_type == "int":
        n.ident = max(m.ident for m in h.nodes if isinstance(m.ident, int)) + 1
    n.cls = _mk(name, (parent.cls,))
    parent.children.append(n)
    h.nodes.append(n)
    h.reg.map_imperatively(n.cls, None, inherits=parent.cls, polymorphic_identity=n.ident)
    h.reg.configure()
    return n


def gen_late_rows(h, node, pop, rng):
    nid = max([r["id"] for r in pop["rows"]] + [0]) + 1
    rows = []
    for k in range(rng.randint(1, 3)):
        r = {"cls": node.name, "id": nid + k, "o_id": rng.choice([None] + list(range(1, pop["owners"] + 1)))}
        for a in node.all_attrs():
            r[a] = rng.choice([None, 0, 1, 7]) if a.endswith("_v") else rng.choice(["p", "q", None])
        rows.append(r)
    return rows


def write_hier_population(h, pop, engine):
    h.md.create_all(engine)
    with engine.begin() as conn:
        conn.execute(h.owner_table.insert(), [{"id": i} for i in range(1, pop["owners"] + 1)])
    write_hier_rows(h, pop["rows"], engine)


def write_hier_rows(h, rows, engine):
    with engine.begin() as conn:
        for r in rows:
            n = h.node(r["cls"])
            if h.kind == "concrete":
                conn.execute(n.table.insert(), {k: v for k, v in r.items() if k not in ("cls", "o_id")})
                continue
            # one insert per distinct table along the lineage
            done = set()
            for anc in n.lineage():
                t = anc.table
                if t.name in done:
                    continue
                done.add(t.name)
                vals = {"id": r["id"]}
                if t is h.root.table:
                    vals["o_id"] = r["o_id"]
                    vals["kind"] = n.ident
                for m in n.lineage():
                    if m.table is t:
                        for a in m.own_attrs:
                            vals[a] = r[a]
                conn.execute(t.insert(), vals)
