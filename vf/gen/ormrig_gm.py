"""Shared ORM fixtures of group ``gm`` (C43, C44, C45, C51, C53).

Imported only from inside ``run(ctx)`` (after ``vf.modes.activate``), so importing
sqlalchemy at module level is fine here.  The mapped classes live at module level
because C51 pickles instances of them (pickle needs an importable class path).

Each property uses its own declarative base / MetaData so that ``create_all`` on a
scratch SQLite database creates only what that check needs.
"""
from __future__ import annotations

import itertools
import uuid

import sqlalchemy as sa
from sqlalchemy import orm


# --------------------------------------------------------------------------
# C43: one table, nullable integer / string columns
# --------------------------------------------------------------------------
class Base43(orm.DeclarativeBase):
    pass


class _ItemCols:
    """criteria columns x, y, s; SET-only columns n, m, u; columns that change on every
    UPDATE without being named in it: ts (server side: trigger + server_onupdate marker),
    ov (onupdate SQL expression), pv (Python-side scalar onupdate)"""

    id = sa.Column(sa.Integer, primary_key=True)
    x = sa.Column(sa.Integer)
    y = sa.Column(sa.Integer)
    s = sa.Column(sa.String(40))
    n = sa.Column(sa.Integer)
    m = sa.Column(sa.Integer)
    u = sa.Column(sa.String(40))
    ts = sa.Column(sa.Integer, server_default="0", server_onupdate=sa.FetchedValue())
    ov = sa.Column(sa.Integer, default=0, onupdate=sa.literal_column("ov + 1"))
    pv = sa.Column(sa.Integer, default=0, onupdate=7)


class Item(_ItemCols, Base43):
    __tablename__ = "gm_item"


class ItemNR(_ItemCols, Base43):
    """same shape, RETURNING disabled -> 'fetch' uses the pre-SELECT path"""

    __tablename__ = "gm_item_nr"
    __table_args__ = {"implicit_returning": False}


ITEM_TRIGGERS = [
    "CREATE TRIGGER %(t)s_ts AFTER UPDATE OF x, y, s, n, m, u ON %(t)s FOR EACH ROW "
    "BEGIN UPDATE %(t)s SET ts = ts + 1 WHERE id = NEW.id; END" % {"t": t}
    for t in ("gm_item", "gm_item_nr")
]
SERVER_CHANGED_COLS = ("ts", "ov", "pv")     # change on UPDATE without being in the SET clause
ITEM_COLS = ("id", "x", "y", "s", "n", "m", "u", "ts", "ov", "pv")
V4 = (None, -7, 0, 2)
# all-lowercase on purpose: SQLite's LIKE is ASCII case-insensitive, Python's
# startswith is not; that backend quirk is outside the property (guard).
S_PALETTE = (
    None, "", "abc", "abxc", "a%c", "a%cd", "a_c", "axc", "a/c", "a/%c", "ab", "a",
    "xa%c", "cab", "%", "_", "abc%", "c", "bc", "a%", "zzé", "a_cd",
    # line breaks and other control / separator characters inside the part a wildcard covers
    "a\nc", "ab\ncd", "a\n", "\n", "\nc", "a\r\nc", "a\rc", "a\tc", "a\u2028c", "a\x85c", "a\n%c", "a\n\nbc",
)


def item_rows():
    """16 rows = the full truth table over V4 x V4, s cycling through the palette;
    then more rows so that every palette string occurs; n, m, u are payload."""
    rows = []
    k = 0
    for x, y in itertools.product(V4, V4):
        k += 1
        rows.append(dict(id=k, x=x, y=y, s=S_PALETTE[(k * 5) % len(S_PALETTE)],
                         n=[None, 10, -3, 4][k % 4], m=100 + k, u="u%d" % k))
    for i, sv in enumerate(S_PALETTE):
        k += 1
        rows.append(dict(id=k, x=V4[i % 4], y=V4[(i // 4) % 4], s=sv,
                         n=[5, None, -1][i % 3], m=100 + k, u="u%d" % k))
    return rows


# --------------------------------------------------------------------------
# C44: versioned rows, three version generation styles
# --------------------------------------------------------------------------
class Base44(orm.DeclarativeBase):
    pass


class VInt(Base44):
    __tablename__ = "gm_vint"
    id = sa.Column(sa.Integer, primary_key=True)
    ver = sa.Column(sa.Integer, nullable=False)
    payload = sa.Column(sa.String(40))
    other = sa.Column(sa.String(40))
    __mapper_args__ = {"version_id_col": ver}


class VUuid(Base44):
    __tablename__ = "gm_vuuid"
    id = sa.Column(sa.Integer, primary_key=True)
    ver = sa.Column(sa.String(40), nullable=False)
    payload = sa.Column(sa.String(40))
    other = sa.Column(sa.String(40))
    __mapper_args__ = {
        "version_id_col": ver,
        "version_id_generator": lambda version: uuid.uuid4().hex,
    }


class VServer(Base44):
    """version maintained by a trigger (see ``VSERVER_DDL``); the ORM only reads it.
    RETURNING is disabled: SQLite's RETURNING shows the row before AFTER-triggers ran, so
    the new counter has to be post-fetched with a SELECT."""

    __tablename__ = "gm_vserver"
    __table_args__ = {"implicit_returning": False}
    id = sa.Column(sa.Integer, primary_key=True)
    ver = sa.Column(sa.Integer, nullable=False, server_default=sa.text("1"),
                    server_onupdate=sa.FetchedValue())
    payload = sa.Column(sa.String(40))
    other = sa.Column(sa.String(40))
    __mapper_args__ = {"version_id_col": ver, "version_id_generator": False,
                       "eager_defaults": True}


VSERVER_DDL = (
    "CREATE TRIGGER gm_vserver_bump AFTER UPDATE ON gm_vserver FOR EACH ROW "
    "BEGIN UPDATE gm_vserver SET ver = OLD.ver + 1 WHERE id = NEW.id; END"
)

# classes mapped to SEVERAL tables: the version column lives in one table, some attributes
# in the other one
vj_a = sa.Table("gm_vj_a", Base44.metadata, sa.Column("id", sa.Integer, primary_key=True),
                sa.Column("ver", sa.Integer, nullable=False), sa.Column("payload", sa.String(40)))
vj_b = sa.Table("gm_vj_b", Base44.metadata, sa.Column("id", sa.ForeignKey("gm_vj_a.id"), primary_key=True),
                sa.Column("other", sa.String(40)))
vk_a = sa.Table("gm_vk_a", Base44.metadata, sa.Column("id", sa.Integer, primary_key=True),
                sa.Column("payload", sa.String(40)))
vk_b = sa.Table("gm_vk_b", Base44.metadata, sa.Column("id", sa.ForeignKey("gm_vk_a.id"), primary_key=True),
                sa.Column("ver", sa.Integer, nullable=False), sa.Column("other", sa.String(40)))


class VJoinA(Base44):
    """mapped to a JOIN b without inheritance; version counter in a, ``other`` in b"""

    __table__ = sa.join(vj_a, vj_b)
    id = orm.column_property(vj_a.c.id, vj_b.c.id)
    __mapper_args__ = {"version_id_col": vj_a.c.ver}


class VJoinB(Base44):
    """mapped to a JOIN b without inheritance; version counter in b, ``payload`` in a"""

    __table__ = sa.join(vk_a, vk_b)
    id = orm.column_property(vk_a.c.id, vk_b.c.id)
    __mapper_args__ = {"version_id_col": vk_b.c.ver}


class VBase(Base44):
    __tablename__ = "gm_vi_base"
    id = sa.Column(sa.Integer, primary_key=True)
    ver = sa.Column(sa.Integer, nullable=False)
    payload = sa.Column(sa.String(40))
    kind = sa.Column(sa.String(10))
    __mapper_args__ = {"version_id_col": ver, "polymorphic_on": kind, "polymorphic_identity": "base"}


class VChild(VBase):
    """joined-table inheritance: version counter in the base table, ``other`` in the child table"""

    __tablename__ = "gm_vi_child"
    id = sa.Column(sa.ForeignKey("gm_vi_base.id"), primary_key=True)
    other = sa.Column(sa.String(40))
    __mapper_args__ = {"polymorphic_identity": "child"}


VERSIONED = {"int": VInt, "uuid": VUuid, "server": VServer, "join_a": VJoinA, "join_b": VJoinB, "inh": VChild}

# per style: tables (creation order), raw INSERTs for row %(r)d (version %(v)s), the SELECT that
# shows a logical row as (id, ver, payload, other), and the attributes stored in the table
# that holds the version column
VSTYLE = {
    "int": dict(tables=["gm_vint"], ver_cols=("payload", "other"),
                inserts=["INSERT INTO gm_vint (id, ver, payload, other) VALUES (%(r)d, %(v)s, 'p0-%(r)d', 'o0-%(r)d')"],
                select="SELECT id, ver, payload, other FROM gm_vint"),
    "uuid": dict(tables=["gm_vuuid"], ver_cols=("payload", "other"),
                 inserts=["INSERT INTO gm_vuuid (id, ver, payload, other) VALUES (%(r)d, %(v)s, 'p0-%(r)d', 'o0-%(r)d')"],
                 select="SELECT id, ver, payload, other FROM gm_vuuid"),
    "server": dict(tables=["gm_vserver"], ver_cols=("payload", "other"),
                   inserts=["INSERT INTO gm_vserver (id, ver, payload, other) VALUES (%(r)d, %(v)s, 'p0-%(r)d', 'o0-%(r)d')"],
                   select="SELECT id, ver, payload, other FROM gm_vserver"),
    "join_a": dict(tables=["gm_vj_a", "gm_vj_b"], ver_cols=("payload",),
                   inserts=["INSERT INTO gm_vj_a (id, ver, payload) VALUES (%(r)d, %(v)s, 'p0-%(r)d')",
                            "INSERT INTO gm_vj_b (id, other) VALUES (%(r)d, 'o0-%(r)d')"],
                   select="SELECT a.id, a.ver, a.payload, b.other FROM gm_vj_a a JOIN gm_vj_b b ON a.id = b.id"),
    "join_b": dict(tables=["gm_vk_a", "gm_vk_b"], ver_cols=("other",),
                   inserts=["INSERT INTO gm_vk_a (id, payload) VALUES (%(r)d, 'p0-%(r)d')",
                            "INSERT INTO gm_vk_b (id, ver, other) VALUES (%(r)d, %(v)s, 'o0-%(r)d')"],
                   select="SELECT a.id, b.ver, a.payload, b.other FROM gm_vk_a a JOIN gm_vk_b b ON a.id = b.id"),
    "inh": dict(tables=["gm_vi_base", "gm_vi_child"], ver_cols=("payload",),
                inserts=["INSERT INTO gm_vi_base (id, ver, payload, kind) VALUES (%(r)d, %(v)s, 'p0-%(r)d', 'child')",
                         "INSERT INTO gm_vi_child (id, other) VALUES (%(r)d, 'o0-%(r)d')"],
                select="SELECT b.id, b.ver, b.payload, c.other FROM gm_vi_base b JOIN gm_vi_child c ON b.id = c.id"),
}


# --------------------------------------------------------------------------
# C45 / C51: a small graph zoo (o2m + m2o, m2m, one-to-one, composite)
# --------------------------------------------------------------------------
class BaseM(orm.DeclarativeBase):
    pass


user_keyword = sa.Table(
    "gm_user_keyword", BaseM.metadata,
    sa.Column("user_id", sa.ForeignKey("gm_user.id"), primary_key=True),
    sa.Column("keyword_id", sa.ForeignKey("gm_keyword.id"), primary_key=True),
)


class Point:
    def __init__(self, px, py):
        self.px = px
        self.py = py

    def __composite_values__(self):
        return self.px, self.py

    def __eq__(self, other):
        return isinstance(other, Point) and (other.px, other.py) == (self.px, self.py)

    def __ne__(self, other):
        return not self.__eq__(other)

    def __hash__(self):
        return hash((self.px, self.py))

    def __repr__(self):
        return "Point(%r, %r)" % (self.px, self.py)


class User(BaseM):
    __tablename__ = "gm_user"
    id = sa.Column(sa.Integer, primary_key=True)
    name = sa.Column(sa.String(40))
    age = sa.Column(sa.Integer)
    bio = sa.orm.deferred(sa.Column(sa.String(200)))
    px = sa.Column(sa.Integer)
    py = sa.Column(sa.Integer)
    pos = orm.composite(Point, px, py)
    addresses = orm.relationship("Address", back_populates="user",
                                 cascade="all, delete-orphan", order_by="Address.id")
    keywords = orm.relationship("Keyword", secondary=user_keyword, order_by="Keyword.id")
    profile = orm.relationship("Profile", back_populates="user", uselist=False,
                               cascade="all, delete-orphan")

    def __repr__(self):
        return "User(%r)" % (self.__dict__.get("id"),)


class Address(BaseM):
    __tablename__ = "gm_address"
    id = sa.Column(sa.Integer, primary_key=True)
    user_id = sa.Column(sa.ForeignKey("gm_user.id"))
    email = sa.Column(sa.String(60))
    user = orm.relationship("User", back_populates="addresses")


class Keyword(BaseM):
    """many-to-many target of User.keywords (default cascade: save-update, merge)"""

    __tablename__ = "gm_keyword"
    id = sa.Column(sa.Integer, primary_key=True)
    word = sa.Column(sa.String(40))


class Profile(BaseM):
    __tablename__ = "gm_profile"
    id = sa.Column(sa.Integer, primary_key=True)
    user_id = sa.Column(sa.ForeignKey("gm_user.id"))
    motto = sa.Column(sa.String(60))
    user = orm.relationship("User", back_populates="profile")


class Note(BaseM):
    """m2o to User with cascade that EXCLUDES merge"""

    __tablename__ = "gm_note"
    id = sa.Column(sa.Integer, primary_key=True)
    user_id = sa.Column(sa.ForeignKey("gm_user.id"))
    text = sa.Column(sa.String(60))
    user = orm.relationship("User", cascade="save-update")


# archive twin of gm_user (same column NAMES, not derived from the mapped table): target of
# aliased(User, <selectable>, adapt_on_names=True)
user_arch = sa.Table(
    "gm_user_arch", BaseM.metadata,
    sa.Column("id", sa.Integer, primary_key=True), sa.Column("name", sa.String(40)), sa.Column("age", sa.Integer),
    sa.Column("bio", sa.String(200)), sa.Column("px", sa.Integer), sa.Column("py", sa.Integer),
)


class Emp(BaseM):
    """joined-table inheritance, for with_polymorphic() / flat aliases"""

    __tablename__ = "gm_emp"
    id = sa.Column(sa.Integer, primary_key=True)
    kind = sa.Column(sa.String(10))
    name = sa.Column(sa.String(40))
    __mapper_args__ = {"polymorphic_on": kind, "polymorphic_identity": "emp"}


class Eng(Emp):
    __tablename__ = "gm_eng"
    id = sa.Column(sa.ForeignKey("gm_emp.id"), primary_key=True)
    lang = sa.Column(sa.String(20))
    __mapper_args__ = {"polymorphic_identity": "eng"}


class Mgr(Emp):
    __tablename__ = "gm_mgr"
    id = sa.Column(sa.ForeignKey("gm_emp.id"), primary_key=True)
    budget = sa.Column(sa.Integer)
    __mapper_args__ = {"polymorphic_identity": "mgr"}


def zoo_rows():
    """fixture rows of the C45 / C51 zoo, as {table: [dict, ...]}"""
    return {
        "gm_user": [
            dict(id=1, name="u1", age=31, bio="bio1", px=1, py=2),
            dict(id=2, name="u2", age=None, bio=None, px=None, py=None),
            dict(id=3, name="u3", age=33, bio="bio3", px=-5, py=0),
        ],
        "gm_address": [
            dict(id=11, user_id=1, email="a11@x"),
            dict(id=12, user_id=1, email="a12@x"),
            dict(id=13, user_id=2, email="a13@x"),
        ],
        "gm_keyword": [dict(id=k, word="k%d" % k) for k in (1, 2, 3, 4)],
        "gm_user_keyword": [dict(user_id=1, keyword_id=1), dict(user_id=1, keyword_id=2),
                            dict(user_id=2, keyword_id=2), dict(user_id=2, keyword_id=3)],
        "gm_profile": [dict(id=21, user_id=1, motto="m21"), dict(id=23, user_id=3, motto="m23")],
        "gm_note": [dict(id=31, user_id=1, text="n31"), dict(id=32, user_id=None, text="n32")],
        "gm_user_arch": [
            dict(id=1, name="old1", age=71, bio="obio1", px=8, py=9),
            dict(id=7, name="old7", age=77, bio=None, px=None, py=1),
        ],
        "gm_emp": [dict(id=1, kind="emp", name="e1"), dict(id=2, kind="eng", name="e2"),
                   dict(id=3, kind="mgr", name="e3"), dict(id=4, kind="eng", name="e4")],
        "gm_eng": [dict(id=2, lang="py"), dict(id=4, lang="c")],
        "gm_mgr": [dict(id=3, budget=30)],
    }


def zoo_populate(engine):
    BaseM.metadata.create_all(engine)
    rows = zoo_rows()
    with engine.begin() as c:
        for t in BaseM.metadata.sorted_tables:
            c.execute(t.insert(), rows[t.name])


# --------------------------------------------------------------------------
# C53: sharded entities (PKs collide across shards on purpose)
# --------------------------------------------------------------------------
class Base53(orm.DeclarativeBase):
    pass


class Station(Base53):
    __tablename__ = "gm_station"
    id = sa.Column(sa.Integer, primary_key=True)
    region = sa.Column(sa.String(20), nullable=False)
    name = sa.Column(sa.String(40))
    level = sa.Column(sa.Integer)
    reports = orm.relationship("Report", back_populates="station", order_by="Report.id")


class Report(Base53):
    __tablename__ = "gm_report"
    id = sa.Column(sa.Integer, primary_key=True)
    station_id = sa.Column(sa.ForeignKey("gm_station.id"), nullable=False)
    temp = sa.Column(sa.Integer)
    tag = sa.Column(sa.String(40))
    station = orm.relationship("Station", back_populates="reports")


class Device(Base53):
    """joined-table inheritance under sharding: subclass columns arrive through the
    'optimized get' (Probe) or the polymorphic selectin load (Gauge)"""

    __tablename__ = "gm_device"
    id = sa.Column(sa.Integer, primary_key=True)
    kind = sa.Column(sa.String(10))
    label = sa.Column(sa.String(40))
    __mapper_args__ = {"polymorphic_on": kind, "polymorphic_identity": "device"}


class Probe(Device):
    __tablename__ = "gm_probe"
    id = sa.Column(sa.ForeignKey("gm_device.id"), primary_key=True)
    depth = sa.Column(sa.Integer)
    __mapper_args__ = {"polymorphic_identity": "probe"}


class Gauge(Device):
    __tablename__ = "gm_gauge"
    id = sa.Column(sa.ForeignKey("gm_device.id"), primary_key=True)
    width = sa.Column(sa.Integer)
    __mapper_args__ = {"polymorphic_identity": "gauge", "polymorphic_load": "selectin"}


# --------------------------------------------------------------------------
# graph snapshots over __dict__ only (never trigger a load)  -- C51
# --------------------------------------------------------------------------
def col_keys(obj):
    return [p.key for p in sa.inspect(obj).mapper.column_attrs]


def graph_nodes(root):
    """mapped objects reachable through *loaded* relationship attributes, in a
    deterministic order (depth first, relationship declaration order)"""
    seen, order = set(), []

    def rec(o):
        if o is None or id(o) in seen:
            return
        seen.add(id(o))
        order.append(o)
        for rel in sa.inspect(o).mapper.relationships:
            v = o.__dict__.get(rel.key)
            if v is None:
                continue
            for x in (list(v) if rel.uselist else [v]):
                rec(x)

    rec(root)
    return order


def snapshot(nodes):
    index = {id(o): i for i, o in enumerate(nodes)}
    out = []
    for o in nodes:
        d = {}
        for k in col_keys(o):
            if k in o.__dict__:
                d[k] = o.__dict__[k]
        for rel in sa.inspect(o).mapper.relationships:
            if rel.key in o.__dict__:
                v = o.__dict__[rel.key]
                if rel.uselist:
                    d[rel.key] = [index.get(id(x), "ext") for x in v]
                else:
                    d[rel.key] = None if v is None else index.get(id(v), "ext")
        if "pos" in o.__dict__:
            d["pos"] = repr(o.__dict__["pos"])
        out.append((type(o).__name__, d))
    return out


def state_facts(o):
    """pickle-relevant facts of an InstanceState, as plain data"""
    st = sa.inspect(o)
    cs = {}
    for k, v in st.committed_state.items():
        if k in col_keys(o):
            cs[k] = repr(v)
        else:
            cs[k] = "<rel>"
    return {
        "key": st.key,
        "expired_attributes": sorted(st.expired_attributes),
        "unloaded": sorted(st.unloaded),
        "modified": bool(st.modified),
        "expired": bool(st.expired),
        "committed_state": cs,
        "load_options": len(st.load_options),
        "has_load_path": bool(st.load_path),
        "identity_token": st.identity_token,
    }


# --------------------------------------------------------------------------
# C51 part E: Core tables with and without a schema (ATTACHed database "alt")
# --------------------------------------------------------------------------
def schema_metadata(twin, default_schema=False):
    """MetaData holding schema-qualified tables.  ``twin``: an unqualified table with the
    same *name* as a qualified one lives in the same MetaData (the classic live table +
    archive schema layout).  ``default_schema``: the qualification comes from
    ``MetaData(schema=...)`` instead of ``Table(schema=...)``."""
    md = sa.MetaData(schema="alt" if default_schema else None)
    sch = None if default_schema else "alt"
    out = {"md": md}
    out["q_item"] = sa.Table("item", md, sa.Column("id", sa.Integer, primary_key=True),
                             sa.Column("name", sa.String(30)), sa.Column("qty", sa.Integer), schema=sch)
    out["q_solo"] = sa.Table("solo", md, sa.Column("id", sa.Integer, primary_key=True),
                             sa.Column("item_id", sa.ForeignKey(out["q_item"].c.id)),
                             sa.Column("tag", sa.String(30)), schema=sch)
    if twin:
        out["u_item"] = sa.Table("item", md, sa.Column("id", sa.Integer, primary_key=True),
                                 sa.Column("name", sa.String(30)), sa.Column("qty", sa.Integer),
                                 schema=sa.schema.BLANK_SCHEMA if default_schema else None)
    out["u_plain"] = sa.Table("plain", md, sa.Column("id", sa.Integer, primary_key=True),
                              sa.Column("tag", sa.String(30)),
                              schema=sa.schema.BLANK_SCHEMA if default_schema else None)
    return out


def schema_populate(conn, tabs):
    conn.execute(tabs["q_item"].insert(), [dict(id=i, name="alt-%d" % i, qty=10 * i) for i in (1, 2, 3, 4)])
    conn.execute(tabs["q_solo"].insert(), [dict(id=i, item_id=1 + i % 4, tag="solo-%d" % i) for i in (1, 2, 3)])
    if "u_item" in tabs:
        conn.execute(tabs["u_item"].insert(), [dict(id=i, name="main-%d" % i, qty=i) for i in (1, 2, 5)])
    conn.execute(tabs["u_plain"].insert(), [dict(id=i, tag="plain-%d" % i) for i in (1, 2)])
