"""Result sources, operation executor and operation generators for C10 (and C55).

``RealSeq`` builds a real Result from a JSON-able *source spec* and executes operation
descriptors on it / on its views, returning normalised observations in the same shape as
``vf.models.resultmodel_gf.ResultModel.apply`` produces expectations.

A *family* is the set of classes under test (IteratorResult, ChunkedIteratorResult,
SimpleResultMetaData, Row, RowMapping); C55 passes a second family built from the
pure-Python ``_result_cy`` / ``_row_cy``.
"""
from __future__ import annotations

import itertools
import warnings

from vf.models.resultmodel_gf import ONLY_ONE, STRATEGIES, ResultModel, norm


class Family:
    def __init__(self, name, result_mod, row_mod):
        self.name = name
        self.IteratorResult = result_mod.IteratorResult
        self.ChunkedIteratorResult = result_mod.ChunkedIteratorResult
        self.SimpleResultMetaData = result_mod.SimpleResultMetaData
        self.FrozenResult = result_mod.FrozenResult
        self.Row = row_mod.Row
        self.RowMapping = row_mod.RowMapping


def default_family():
    from sqlalchemy.engine import result, row

    return Family("default", result, row)


# ------------------------------------------------------------------ cursor sources
POOL_KEYS = ["a", "b", "j", "f", "c", "d"]


def make_pool():
    """40 rows (a, b, j, f, c, d) with many duplicates, NULLs and unhashable JSON values.
    c (ints >= 100) and d ("d<n>" strings) never hold a value another column can hold, so a
    projection that picks the wrong column is visible in the values."""
    pool = []
    js = [None, None, None, [1], {"k": 1}, None, None, [1], None, None]
    for i in range(40):
        a = [0, 0, 1, None, 1, 1, 2, 0][i % 8]
        b = ["x", "x", "y", None, "y", "x"][i % 6] if i % 11 else "x"
        j = js[(i * 7) % 10] if i >= 12 else None
        f = [True, True, False, None][(i // 2) % 4]
        pool.append((a, b, j, f, 100 + (i // 2) % 5, "d%d" % ((i // 2) % 4)))
    return pool


class CursorEnv:
    """one in-memory SQLite engine with the pool table (Integer, String, JSON, Boolean:
    result processors are active for j and f)."""

    def __init__(self):
        import sqlalchemy as sa

        self.sa = sa
        self.engine = sa.create_engine("sqlite://")
        md = sa.MetaData()
        self.t = sa.Table("pool", md, sa.Column("id", sa.Integer, primary_key=True), sa.Column("a", sa.Integer),
                          sa.Column("b", sa.String(10)), sa.Column("j", sa.JSON(none_as_null=True)),
                          sa.Column("f", sa.Boolean), sa.Column("c", sa.Integer), sa.Column("d", sa.String(10)))
        self.t2 = sa.Table("scratch", md, sa.Column("id", sa.Integer, primary_key=True), sa.Column("a", sa.Integer),
                           sa.Column("b", sa.String(10)), sa.Column("j", sa.JSON(none_as_null=True)),
                           sa.Column("f", sa.Boolean), sa.Column("c", sa.Integer), sa.Column("d", sa.String(10)))
        self.pool = make_pool()
        self.conn = self.engine.connect()
        md.create_all(self.conn)
        self.conn.execute(self.t.insert(), [dict(id=i + 1, a=r[0], b=r[1], j=r[2], f=r[3], c=r[4], d=r[5]) for i, r in enumerate(self.pool)])
        self.conn.commit()

    def rows(self, spec):
        if spec["strategy"] == "returning":
            return [tuple(r) for r in spec["rows"]]
        return self.pool[spec["offset"]: spec["offset"] + spec["limit"]]

    def result(self, spec):
        from sqlalchemy.engine import cursor as _cursor

        sa, t = self.sa, self.t
        st = spec["strategy"]
        if st == "returning":
            rows = spec["rows"]
            t2 = self.t2
            stmt = t2.insert().returning(t2.c.a, t2.c.b, t2.c.j, t2.c.f, t2.c.c, t2.c.d, sort_by_parameter_order=True)
            return self.conn.execute(stmt, [dict(a=r[0], b=r[1], j=r[2], f=r[3], c=r[4], d=r[5]) for r in rows])
        stmt = sa.select(t.c.a, t.c.b, t.c.j, t.c.f, t.c.c, t.c.d).order_by(t.c.id).limit(spec["limit"]).offset(spec["offset"])
        if st == "yield":
            # statement-level option: Connection.execution_options() is in-place in 2.x and
            # would leak into every later sequence
            return self.conn.execute(stmt.execution_options(yield_per=spec["n"]))
        res = self.conn.execute(stmt)
        if st == "buffered":
            # what DefaultExecutionContext._setup_result_proxy does for a server side cursor
            res.cursor_strategy = _cursor.BufferedRowCursorFetchStrategy(res.cursor, {"max_row_buffer": spec["n"]})
        elif st == "fully":
            res.cursor_strategy = _cursor.FullyBufferedCursorFetchStrategy(res.cursor)
        elif st != "default":
            raise AssertionError(st)
        return res

    def end_sequence(self):
        self.conn.rollback()

    def dispose(self):
        self.conn.close()
        self.engine.dispose()


# ------------------------------------------------------------------------ executor
def spec_rows(spec, env=None):
    if spec["kind"] == "cursor":
        return env.rows(spec)
    return [tuple(r) for r in spec["rows"]]


def spec_model(spec, env=None):
    rows = spec_rows(spec, env)
    kind = spec["kind"]
    if kind == "cursor":
        kind = "cursor-" + spec["strategy"]
    m = ResultModel(rows, spec["keys"], kind, scalars_source=spec.get("scalars_source", False),
                    dynamic=spec.get("dynamic", False))
    if spec["kind"] == "cursor" and spec["strategy"] == "yield":
        m.handles["r"].base.yield_per = spec["n"]
    return m


class RealSeq:
    def __init__(self, fam, spec, env=None):
        self.fam = fam
        self.spec = spec
        self.env = env
        self.objs = {"r": self.build(spec)}

    def build(self, spec, rows=None):
        fam = self.fam
        kind = spec["kind"]
        if kind == "cursor":
            if rows is not None:
                raise AssertionError("cursor others are built from specs")
            return self.env.result(spec)
        rows = [tuple(r) for r in (spec["rows"] if rows is None else rows)]
        ss = spec.get("scalars_source", False)
        raw = [r[0] for r in rows] if ss else rows
        md = fam.SimpleResultMetaData(spec["keys"])
        if kind == "iter":
            return fam.IteratorResult(md, iter(raw), _source_supports_scalars=ss)
        if kind == "chunked":
            pos = [0]

            def chunks(size):
                while pos[0] < len(raw):
                    n = size if size else len(raw)
                    chunk = raw[pos[0]: pos[0] + n]
                    pos[0] += len(chunk)
                    yield chunk

            return fam.ChunkedIteratorResult(md, chunks, source_supports_scalars=ss,
                                             dynamic_yield_per=spec.get("dynamic", False))
        raise AssertionError(kind)

    def item(self, v):
        fam = self.fam
        if isinstance(v, fam.Row):
            return ("R", tuple(norm(x) for x in tuple(v)))
        if isinstance(v, fam.RowMapping):
            return ("M", tuple((k, norm(x)) for k, x in v.items()))
        return ("S", norm(v))

    def do(self, hname, op):
        try:
            return self._do(hname, op)
        except Exception as e:  # noqa: BLE001 - every exception type is an observation
            return ("exc", type(e).__name__)

    def _iter(self, it, k, wrap):
        out = []
        while k is None or len(out) < k:
            try:
                v = next(it)
            except StopIteration:
                return ("iter", tuple(out), ("stop",))
            except Exception as e:  # noqa: BLE001
                return ("iter", tuple(out), ("exc", type(e).__name__))
            out.append(wrap(v))
        return ("iter", tuple(out), ("more",))

    def _do(self, hname, op):
        o = self.objs[hname]
        name = op[0]
        if name == "fetchone":
            v = o.fetchone()
            return ("none",) if v is None else ("item", self.item(v))
        if name == "next":
            try:
                return ("item", self.item(next(o)))
            except StopIteration:
                return ("exc", "StopIteration")
        if name == "fetchmany":
            vs = o.fetchmany() if op[1] is None else o.fetchmany(op[1])
            return ("items", tuple(self.item(v) for v in vs))
        if name in ("fetchall", "all"):
            return ("items", tuple(self.item(v) for v in getattr(o, name)()))
        if name == "iter_take":
            return self._iter(iter(o), op[1], self.item)
        if name == "iter_all":
            return self._iter(iter(o), None, self.item)
        if name == "partitions":
            it = o.partitions() if op[1] is None else o.partitions(op[1])
            return self._iter(it, op[2], lambda part: tuple(self.item(v) for v in part))
        if name in ONLY_ONE:
            v = getattr(o, name)()
            if v is None:
                return ("none",)
            return ("item", ("S", norm(v)) if ONLY_ONE[name][2] else self.item(v))
        if name == "unique":
            st = STRATEGIES[op[1]]
            r = o.unique(st) if st is not None else o.unique()
            return ("self",) if r is o else ("other",)
        if name == "columns":
            r = o.columns(*op[1])
            return ("self",) if r is o else ("other",)
        if name == "yield_per":
            r = o.yield_per(op[1])
            return ("self",) if r is o else ("other",)
        if name == "tuples":
            with warnings.catch_warnings():
                warnings.simplefilter("ignore")
                r = o.tuples()
            return ("self",) if r is o else ("other",)
        if name == "scalars":
            self.objs[op[2]] = o.scalars(op[1])
            return ("view",)
        if name == "mappings":
            self.objs[op[1]] = o.mappings()
            return ("view",)
        if name == "close":
            o.close()
            return ("none",)
        if name == "closed":
            return ("bool", bool(o.closed))
        if name == "keys":
            return ("keys", tuple(o.keys()))
        if name == "freeze":
            self.objs[op[1]] = o.freeze()
            return ("frozen",)
        if name == "thaw":
            self.objs[op[1]] = o()
            return ("result",)
        if name == "merge":
            if op[3] is not None:
                others = [self.env.result(s) for s in op[3]]
            else:
                ospec = dict(self.spec)
                if ospec["kind"] == "cursor":
                    ospec = {"kind": "iter"}
                ospec["keys"] = op[4]
                ospec["scalars_source"] = bool(getattr(o, "_source_supports_scalars", False))
                if ospec["scalars_source"]:
                    ospec["kind"] = "chunked"
                ospec["dynamic"] = False
                others = [self.build(ospec, rows=rows) for rows in op[1]]
            self.objs[op[2]] = o.merge(*others)
            return ("result",)
        raise AssertionError(op)

    def finish(self):
        for o in self.objs.values():
            try:
                if hasattr(o, "close"):
                    o.close()
            except Exception:  # noqa: BLE001
                pass
        if self.env is not None:
            self.env.end_sequence()


def canon_obs(obs):
    """a None value and 'no row' are indistinguishable for the caller of first()/scalar()."""
    if obs[0] == "item" and obs[1] == ("S", ("NoneType", "None")):
        return ("none",)
    return obs


def obs_match(robs, mobs):
    robs, mobs = canon_obs(robs), canon_obs(mobs)
    if mobs[0] == "items-prefix":
        if robs[0] != "items" or robs[1] != mobs[1]:
            return False
        return len(robs[1]) > 0 or not mobs[2]
    if mobs[0] == "bool" and mobs[1] is None:
        return robs[0] == "bool"
    return robs == mobs


# ---------------------------------------------------------------------- generators
VALUE_POOL = [0, 1, 2, None, "x", "y", 1.0, True, -1]
UNHASHABLE = [[1], {"k": 1}]


def gen_rows(rng, n, ncols, p_unhashable=0.0):
    if ncols >= 4:
        # wide rows: value k*10+v in column k, so a wrong column shows in the value
        base = [tuple(k * 10 + rng.randrange(3) for k in range(ncols)) for _ in range(max(1, n // 2 + 1))]
        return [rng.choice(base) for _ in range(n)]
    base = [tuple(rng.choice(VALUE_POOL[: rng.choice([3, 5, 9])]) for _ in range(ncols)) for _ in range(max(1, n // 2 + 1))]
    rows = []
    for _ in range(n):
        r = rng.choice(base) if rng.random() < 0.7 else tuple(rng.choice(VALUE_POOL) for _ in range(ncols))
        if p_unhashable and rng.random() < p_unhashable:
            r = list(r)
            r[rng.randrange(ncols)] = rng.choice(UNHASHABLE)
            r = tuple(r)
        rows.append(r)
    return rows


def gen_spec(rng, maxrows, cursor=True, pool_len=40):
    r = rng.random()
    if cursor and r < 0.45:
        st = rng.choice(["default", "default", "buffered", "buffered", "fully", "yield", "returning"])
        spec = {"kind": "cursor", "keys": list(POOL_KEYS), "strategy": st}
        if st == "returning":
            n = rng.randint(1, max(1, min(maxrows, 6)))
            pool = make_pool()
            spec["rows"] = [list(pool[rng.randrange(pool_len)]) for _ in range(n)]
        else:
            spec["limit"] = rng.randint(0, maxrows)
            spec["offset"] = rng.randint(0, pool_len - spec["limit"])
        if st in ("buffered", "yield"):
            spec["n"] = rng.choice([1, 2, 5, 1000]) if st == "buffered" else rng.choice([1, 2, 3, 5])
        return spec
    ncols = rng.choice([1, 2, 2, 3, 5])
    kind = "iter" if r < 0.7 else "chunked"
    n = rng.randint(0, maxrows)
    spec = {"kind": kind, "keys": ["a", "b", "c", "d", "e"][:ncols],
            "rows": [list(x) for x in gen_rows(rng, n, ncols, p_unhashable=rng.choice([0, 0, 0, 0.15]))]}
    if kind == "chunked":
        if ncols == 1 and rng.random() < 0.4:
            # ORM single-entity protocol: raw rows are the objects themselves and None is
            # the end-of-rows marker, so a scalar source never carries None
            spec["scalars_source"] = True
            spec["rows"] = [[0 if r[0] is None else r[0]] for r in spec["rows"]]
        if rng.random() < 0.3:
            spec["dynamic"] = True
    return spec


def candidate_ops(rng, model, hname, pool_len=40):
    """random candidate (hname, op) for a handle; caller filters with model.allowed."""
    h = model.handles[hname]
    nk = len(h.keys)
    x = rng.random()
    if h.kind == "frozen":
        return ["thaw", "t%d" % rng.randrange(10 ** 6)]
    if x < 0.55:
        name = rng.choice(["fetchone", "next", "fetchmany", "fetchmany", "fetchmany", "all", "fetchall", "iter_take",
                           "iter_take", "iter_all", "partitions", "partitions"])
        if name == "fetchmany":
            return [name, rng.choice([1, 2, 3, 5, None])]
        if name == "iter_take":
            return [name, rng.choice([1, 1, 2, 3])]
        if name == "partitions":
            return [name, rng.choice([1, 2, 3, None]), rng.choice([1, 1, 2, 9])]
        return [name]
    if x < 0.67:
        return [rng.choice(list(ONLY_ONE))]
    if x < 0.77:
        return ["unique", rng.choice([None, None, None, "const", "ident", "first"])]
    if x < 0.83:
        k = rng.randint(1, nk) if nk else 1
        cols = rng.sample(range(nk), k) if nk else [0]
        if rng.random() < 0.3:
            cols = [h.keys[i] for i in cols]
        elif rng.random() < 0.2:
            cols = [i - nk for i in cols]
        return ["columns", cols]
    if x < 0.87:
        return ["yield_per", rng.choice([1, 2, 3, 5])]
    if x < 0.92:
        if rng.random() < 0.6:
            i = rng.randrange(max(nk, 1))
            return ["scalars", h.keys[i] if (rng.random() < 0.3 and nk) else i, "v%d" % rng.randrange(10 ** 6)]
        return ["mappings", "v%d" % rng.randrange(10 ** 6)]
    if x < 0.96:
        return [rng.choice(["close", "closed", "closed", "keys", "tuples"])]
    if x < 0.98:
        return ["freeze", "f%d" % rng.randrange(10 ** 6)]
    return ["merge", None, "g%d" % rng.randrange(10 ** 6)]


def fill_merge(rng, op, spec, maxrows, model=None, hname="r", pool_len=40):
    """complete a merge op: ["merge", rows_of_others, newname, cursor_specs|None, keys].
    Others are CursorResults when the handle is the CursorResult itself, otherwise
    IteratorResults with the handle's current keys (thawed / projected results)."""
    k = rng.choice([1, 1, 2])
    h = model.handles[hname] if model is not None else None
    is_cursor = spec["kind"] == "cursor" and (h is None or h.base.kind.startswith("cursor"))
    if is_cursor:
        pool = make_pool()
        specs, rows = [], []
        for _ in range(k):
            lim = rng.randint(0, maxrows)
            off = rng.randint(0, pool_len - lim)
            specs.append({"kind": "cursor", "keys": list(POOL_KEYS), "strategy": "default", "limit": lim, "offset": off})
            rows.append([list(r) for r in pool[off: off + lim]])
        return ["merge", rows, op[2], specs, None]
    keys = list(h.base.keys_full) if h is not None else list(spec["keys"])
    width = len(keys)
    ss = bool(h is not None and h.base.scalars_source)
    others = []
    for _ in range(k):
        rows = [list(r) for r in gen_rows(rng, rng.randint(0, maxrows), width)]
        if ss:
            rows = [[0 if r[0] is None else r[0]] for r in rows]
        others.append(rows)
    return ["merge", others, op[2], None, keys]


def random_sequence(rng, model, spec, length, maxrows):
    """generator protocol: yields (hname, op); caller must apply each to the model before
    asking for the next (guards depend on the model state)."""
    for _ in range(length):
        names = [n for n, h in model.handles.items() if not h.base.dead and not h.base.broken]
        if not names:
            return
        for _try in range(12):
            hname = rng.choice(names) if rng.random() < 0.5 else names[-1]
            op = candidate_ops(rng, model, hname)
            if op[0] == "merge":
                op = fill_merge(rng, op, spec, maxrows, model, hname)
            if model.allowed(hname, op):
                yield hname, op
                break


# reduced alphabet for the exhaustive part: ops on r, on a scalars view "s", a mappings view "m"
EXH_ALPHABET = {
    "quick": [("r", ["fetchone"]), ("r", ["fetchmany", 2]), ("r", ["all"]), ("r", ["first"]), ("r", ["one"]),
              ("r", ["close"]), ("r", ["unique", None]), ("r", ["iter_take", 1]), ("r", ["partitions", 2, 1]),
              ("s", ["next"]), ("s", ["all"]), ("s", ["one"]), ("s", ["unique", None]), ("m", ["fetchone"])],
    "thorough": [("r", ["fetchone"]), ("r", ["fetchmany", 2]), ("r", ["all"]), ("r", ["first"]), ("r", ["one"]),
                 ("r", ["one_or_none"]), ("r", ["scalar"]), ("r", ["close"]), ("r", ["unique", None]),
                 ("r", ["columns", [1, 0]]), ("r", ["iter_take", 1]), ("r", ["partitions", 2, 1]),
                 ("s", ["next"]), ("s", ["fetchmany", 2]), ("s", ["all"]), ("s", ["one"]), ("s", ["first"]),
                 ("s", ["unique", None]), ("m", ["fetchone"]), ("m", ["all"]), ("m", ["first"])],
}
A, B, C = (1, "x"), (2, "y"), (1, "z")
EXH_ROWSETS = [[], [A], [A, A], [A, B, A], [A, A, B, B, C]]


def exhaustive_sequences(tier, length):
    alpha = EXH_ALPHABET[tier]
    for n in range(1, length + 1):
        yield from itertools.product(range(len(alpha)), repeat=n)


def projection_chain(rng, model, depth=None):
    """2-3 chained projections on handle 'r': columns (by index / name / negative index,
    reordering and dropping) then scalars / mappings(+columns) / another columns.  Yields
    (hname, op) like random_sequence; the caller applies each op to the model."""
    depth = depth or rng.choice([2, 3, 3])
    last = "r"
    for level in range(depth):
        h = model.handles["r"]
        nk = len(h.keys)
        final = level == depth - 1

        def pick(h, lo=1):
            nk = len(h.keys)
            k = rng.randint(min(lo, nk), nk)
            cols = rng.sample(range(nk), k)
            style = rng.random()
            if style < 0.4:
                return [h.keys[i] for i in cols]
            if style < 0.55:
                return [i - nk for i in cols]
            if style < 0.7:
                return [h.keys[i] if rng.random() < 0.5 else i for i in cols]
            return cols

        if not final:
            op = ["columns", pick(h, lo=2 if nk > 2 else 1)]
            if not model.allowed("r", op):
                return
            yield "r", op
            continue
        x = rng.random()
        if x < 0.4:
            i = rng.randrange(nk)
            op = ["scalars", h.keys[i] if rng.random() < 0.5 else i, "ps"]
            if not model.allowed("r", op):
                return
            yield "r", op
            last = "ps"
        elif x < 0.8:
            if not model.allowed("r", ["mappings", "pm"]):
                return
            yield "r", ["mappings", "pm"]
            last = "pm"
            op = ["columns", pick(model.handles["pm"])]
            if model.allowed("pm", op):
                yield "pm", op
        else:
            op = ["columns", pick(h)]
            if not model.allowed("r", op):
                return
            yield "r", op
    for op in (rng.choice([["fetchone"], ["next"], ["fetchmany", 2], ["iter_take", 2]]), ["all"]):
        if op[0] == "fetchone" and last == "ps":
            op = ["next"]
        if model.allowed(last, op):
            yield last, op


def exhaustive_projection_chains(keys):
    """all chains P1 -> P2 -> P3 over a fixed family: P1 reorders / drops leading columns,
    P2 reorders / drops again (by name and by position), P3 is scalars / mappings().columns /
    columns by name and by position."""
    n = len(keys)
    p1s = [[n - 1, n - 2, 1], [3, 1, 0, 2], [n - 2, n - 1, 0, 1], [1, 2, 3], [n - 1, 0]]
    chains = []
    for p1 in p1s:
        k1 = [keys[i] for i in p1]
        m = len(p1)
        p2s = [list(range(1, m)), list(range(m - 1, -1, -1)), [m - 1, 0], [0], [m - 1]]
        for byname1 in (False, True):
            for p2 in p2s:
                k2 = [k1[i] for i in p2]
                for byname2 in (False, True):
                    first = ["columns", k1 if byname1 else list(p1)]
                    second = ["columns", k2 if byname2 else list(p2)]
                    q = len(p2)
                    for j in sorted({0, q - 1}):
                        for byname3 in (False, True):
                            chains.append([("r", first), ("r", second), ("r", ["scalars", k2[j] if byname3 else j, "ps"]),
                                           ("ps", ["all"])])
                            chains.append([("r", first), ("r", second), ("r", ["mappings", "pm"]),
                                           ("pm", ["columns", [k2[j]] if byname3 else [j]]), ("pm", ["all"])])
                            chains.append([("r", first), ("r", second), ("r", ["columns", [k2[j]] if byname3 else [j]]),
                                           ("r", ["all"])])
                    chains.append([("r", first), ("r", second), ("r", ["fetchone"]), ("r", ["mappings", "pm"]), ("pm", ["all"])])
    return chains
