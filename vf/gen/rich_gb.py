"""Rich / dialect-specific / DDL construct recipes (group gb) used by C22 (and as extra
food for C03).  Each recipe is ``fn(env, rng, v) -> construct`` built with public API
only and with type-consistent Python values (a "well-formed construct accepted by the
constructors").  ``recipes(env)`` returns ``{name: fn}``; ``ddl_recipes(env)`` the DDL
ones.  A recipe may raise a documented SQLAlchemy error at construction time: that is
"not accepted by the constructor" and the caller skips it.
"""
from __future__ import annotations

import datetime
import decimal

_TYPES = None


def type_palette(sa):
    """(name, type instance, sample python value)"""
    import enum
    import uuid

    class Color(enum.Enum):
        red = 1
        green = 2

    return [
        ("Integer", sa.Integer(), 5), ("BigInteger", sa.BigInteger(), 2 ** 40), ("SmallInteger", sa.SmallInteger(), 3),
        ("Numeric", sa.Numeric(10, 2), decimal.Decimal("1.25")), ("Numeric0", sa.Numeric(), decimal.Decimal("7")),
        ("Float", sa.Float(), 1.5), ("Float53", sa.Float(53), 2.5), ("Double", sa.Double(), 2.25),
        ("String", sa.String(30), "abc"), ("String0", sa.String(), "it's"), ("Text", sa.Text(), "x%y_z"),
        ("Unicode", sa.Unicode(20), "é"), ("UnicodeText", sa.UnicodeText(), "u"),
        ("Boolean", sa.Boolean(), True), ("BooleanNC", sa.Boolean(create_constraint=True, name="ck_b"), False),
        ("Date", sa.Date(), datetime.date(2020, 2, 29)), ("DateTime", sa.DateTime(), datetime.datetime(2020, 1, 2, 3, 4, 5)),
        ("DateTimeTZ", sa.DateTime(timezone=True), datetime.datetime(2020, 1, 2, 3, 4, 5)),
        ("Time", sa.Time(), datetime.time(1, 2, 3)), ("Interval", sa.Interval(), datetime.timedelta(days=1, seconds=5)),
        ("LargeBinary", sa.LargeBinary(), b"\x00\x01"), ("LargeBinaryN", sa.LargeBinary(16), b"ab"),
        ("Enum", sa.Enum("a", "b", name="en1"), "a"), ("EnumPy", sa.Enum(Color, name="color"), Color.red),
        ("EnumNC", sa.Enum("x", "y", name="en2", create_constraint=True), "x"),
        ("JSON", sa.JSON(), {"k": [1, 2]}), ("Uuid", sa.Uuid(), uuid.UUID(int=5)), ("UuidStr", sa.Uuid(as_uuid=False), str(uuid.UUID(int=6))),
        ("PickleType", sa.PickleType(), {"a": 1}), ("CHAR", sa.CHAR(3), "abc"), ("VARCHAR", sa.VARCHAR(10), "v"),
        ("NCHAR", sa.NCHAR(3), "n"), ("NVARCHAR", sa.NVARCHAR(10), "nv"), ("TIMESTAMP", sa.TIMESTAMP(), datetime.datetime(2021, 1, 1)),
        ("DECIMAL", sa.DECIMAL(8, 3), decimal.Decimal("2.500")), ("REAL", sa.REAL(), 0.5), ("ARRAY", sa.ARRAY(sa.Integer), [1, 2]),
        ("StringColl", sa.String(20, collation="C"), "c"),
    ]


def recipes(env):
    sa = env.sa
    orm = env.orm
    ta, tb, tc = env.tables["a"], env.tables["b"], env.tables["c"]
    A, B, C = env.entities["A"], env.entities["B"], env.entities["C"]
    from sqlalchemy.dialects import mssql as ms
    from sqlalchemy.dialects import mysql as my
    from sqlalchemy.dialects import oracle as ora  # noqa: F401
    from sqlalchemy.dialects import postgresql as pg
    from sqlalchemy.dialects import sqlite as sl

    R = {}

    def rec(name):
        def deco(fn):
            R[name] = fn
            return fn
        return deco

    def icol(rng):
        return rng.choice([ta.c.x, ta.c.y, ta.c.id])

    # ---------------------------------------------------------------- generic SQL
    @rec("window")
    def _(rng, v):
        kw = {}
        c = rng.random()
        if c < 0.3:
            kw["rows"] = rng.choice([(None, 0), (-2, 2), (0, None), (1, 3), (-3, -1), (None, 2), (None, -1), (-1, None)])
        elif c < 0.5:
            kw["range_"] = rng.choice([(None, 0), (-5, 5), (0, None)])
        elif c < 0.6:
            kw["groups"] = rng.choice([(None, 0), (-1, 1)])
        f = rng.choice([sa.func.row_number(), sa.func.sum(ta.c.x), sa.func.rank(), sa.func.lag(ta.c.x, 1), sa.func.count()])
        w = f.over(partition_by=rng.choice([None, ta.c.flag, [ta.c.flag, ta.c.s]]),
                   order_by=rng.choice([None, ta.c.id, [ta.c.x.desc(), ta.c.id]]), **kw)
        return sa.select(ta.c.id, w.label("w")).where(ta.c.id > v.next("int"))

    @rec("filter_within_group")
    def _(rng, v):
        c = rng.random()
        if c < 0.4:
            e = sa.func.count(ta.c.id).filter(ta.c.x > v.next("int"))
        elif c < 0.6:
            e = sa.func.percentile_cont(0.5).within_group(ta.c.x.desc())
        elif c < 0.8:
            e = sa.func.count(ta.c.id).filter(ta.c.x > v.next("int")).over(partition_by=ta.c.flag)
        else:
            e = sa.func.aggregate_strings(ta.c.s, ",")
        return sa.select(ta.c.flag, e).group_by(ta.c.flag)

    @rec("aggregate_order_by_generic")
    def _(rng, v):
        f = rng.choice([sa.func.array_agg, sa.func.string_agg, sa.func.group_concat, sa.func.aggregate_strings])
        args = (ta.c.s,) if f in (sa.func.array_agg,) else (ta.c.s, ",")
        try:
            e = f(*args).aggregate_order_by(ta.c.id.desc())
        except AttributeError:
            e = f(*args)
        return sa.select(e)

    @rec("extract_cast")
    def _(rng, v):
        field = rng.choice(["year", "month", "day", "dow", "doy", "epoch", "quarter", "week", "hour", "microseconds", "isodow", "century"])
        t = rng.choice([sa.Integer, sa.String, sa.Numeric(10, 2), sa.Float, sa.Date, sa.DateTime, sa.Boolean, sa.Text, sa.LargeBinary,
                        sa.JSON, sa.Uuid, sa.Interval, sa.Time, sa.BigInteger, sa.Unicode(10), sa.Enum("a", "b", name="e")])
        fn = rng.choice([sa.cast, sa.try_cast, sa.type_coerce])
        return sa.select(sa.extract(field, tc.c.d), fn(tc.c.u, t)).where(tc.c.d > v.next("date"))

    @rec("tuple_any_all")
    def _(rng, v):
        c = rng.random()
        if c < 0.3:
            crit = sa.tuple_(ta.c.x, ta.c.y).in_([(v.next("int"), v.next("int")) for _ in range(rng.randint(0, 3))])
        elif c < 0.5:
            crit = sa.tuple_(ta.c.x, ta.c.y).in_(sa.select(tb.c.q, tb.c.id))
        elif c < 0.7:
            crit = ta.c.x == sa.any_(sa.select(tb.c.q).scalar_subquery())
        elif c < 0.85:
            crit = ta.c.x > sa.all_(sa.select(tb.c.q).where(tb.c.id < v.next("int")).scalar_subquery())
        else:
            crit = sa.tuple_(ta.c.x, ta.c.s) < sa.tuple_(v.next("int"), v.next("str"))
        return sa.select(ta.c.id).where(crit)

    @rec("string_ops")
    def _(rng, v):
        c = ta.c.s
        s = v.next("str")
        e = rng.choice([
            lambda: c.regexp_match(s[:2] + ".*"), lambda: c.regexp_match(s, flags="i"), lambda: c.regexp_replace(s[:1], "Z"),
            lambda: c.regexp_replace(s[:1], "Z", flags="g"), lambda: c.istartswith(s[:2]), lambda: c.icontains(s[1:3], autoescape=True),
            lambda: c.iendswith(s[-2:]), lambda: c.startswith(s[:2], escape="^"), lambda: c.contains("a%b_c", autoescape=True),
            lambda: c.like(s, escape="\\"), lambda: c.not_ilike(s + "%"), lambda: c.collate("NOCASE") == s,
            lambda: sa.func.concat(c, s, c), lambda: c.concat(s).concat(c), lambda: sa.func.char_length(c) > 2,
            lambda: c.match(s), lambda: ~c.match(s), lambda: c.is_(None), lambda: c.in_([]), lambda: c.not_in([]),
            lambda: sa.func.substring(c, 1, 2), lambda: sa.func.trim(c), lambda: sa.func.replace(c, "a", "b"),
        ])()
        return sa.select(ta.c.id, e) if rng.random() < 0.5 else sa.select(ta.c.id).where(e if e.type._type_affinity is sa.Boolean else e != "q")

    @rec("numeric_ops")
    def _(rng, v):
        c, d = icol(rng), icol(rng)
        i = v.next("posint")
        e = rng.choice([
            lambda: c / d, lambda: c // d, lambda: c % i, lambda: c / i, lambda: c // i, lambda: -c, lambda: c.bitwise_and(i),
            lambda: c.bitwise_or(d), lambda: c.bitwise_xor(i), lambda: c.bitwise_not(), lambda: c.bitwise_lshift(1), lambda: c.bitwise_rshift(i),
            lambda: sa.func.power(c, 2), lambda: sa.func.mod(c, i), lambda: sa.func.round(ta.c.f, 1), lambda: sa.func.abs(c - d),
            lambda: ta.c.f / i, lambda: sa.cast(c, sa.Numeric(10, 2)) / 3, lambda: sa.func.coalesce(c, d, i),
            lambda: sa.func.nullif(c, i), lambda: sa.func.greatest(c, d), lambda: (c + d) * (c - d) / (d + i),
            lambda: sa.func.random(), lambda: sa.func.now(), lambda: sa.func.current_timestamp(), lambda: sa.func.current_date(),
            lambda: sa.func.localtime(), lambda: sa.func.sysdate(), lambda: sa.func.user(), lambda: sa.func.count(sa.distinct(c)),
            lambda: sa.func.max(c).label("m"), lambda: sa.func.cube(c, d), lambda: sa.func.rollup(c, d), lambda: sa.func.grouping_sets(c, d),
            lambda: sa.func.next_value(sa.Sequence("sq1")), lambda: sa.Sequence("sq2", start=5).next_value(),
        ])()
        return sa.select(e)

    @rec("bool_consts")
    def _(rng, v):
        f = ta.c.flag
        e = rng.choice([
            lambda: f == True, lambda: f == False, lambda: f.is_(True), lambda: f.is_not(False), lambda: sa.not_(f),  # noqa: E712
            lambda: sa.and_(sa.true(), f), lambda: sa.or_(sa.false(), f), lambda: sa.and_(), lambda: sa.or_(sa.false(), sa.false()),
            lambda: sa.true(), lambda: sa.false(), lambda: sa.not_(sa.true()), lambda: f.is_(sa.null()), lambda: sa.null().is_(None),
            lambda: sa.and_(f, sa.true(), ta.c.x > 1), lambda: sa.case((f, 1), else_=0) == 1, lambda: f & (ta.c.x > 2) | ~f,
            lambda: sa.literal(True), lambda: sa.literal(None), lambda: f.is_distinct_from(None), lambda: ta.c.x.between(1, 5, symmetric=True),
            lambda: ta.c.x.is_not_distinct_from(ta.c.y), lambda: ta.c.s.is_not_distinct_from(None), lambda: ~ta.c.x.between(1, 5),
        ])()
        return sa.select(ta.c.id).where(e)

    @rec("literal_types")
    def _(rng, v):
        name, t, val = rng.choice(type_palette(sa))
        c = rng.random()
        if c < 0.35:
            return sa.select(sa.literal(val, t))
        if c < 0.6:
            return sa.select(sa.bindparam("p", val, type_=t, literal_execute=rng.random() < 0.5))
        if c < 0.8:
            return sa.select(sa.cast(sa.literal(val, t), t))
        return sa.select(sa.literal(val, t).label("lv")).where(sa.literal(val, t).is_not(None))

    @rec("json_ops")
    def _(rng, v):
        jt = sa.table("jt", sa.column("id", sa.Integer), sa.column("data", sa.JSON))
        d = jt.c.data
        e = rng.choice([
            lambda: d["k"], lambda: d["k"].as_string(), lambda: d[("a", 1, "b")].as_integer(), lambda: d[0].as_float(),
            lambda: d["k"].as_boolean(), lambda: d["k"].as_json(), lambda: d["k"] == sa.JSON.NULL, lambda: d["k"].as_numeric(10, 2),
            lambda: d["k"]["j"].as_string() == v.next("str"), lambda: d == {"a": 1}, lambda: d.is_(None), lambda: d["k"].is_(sa.null()),
        ])()
        return sa.select(jt.c.id, e)

    @rec("array_ops")
    def _(rng, v):
        at = sa.table("at", sa.column("id", sa.Integer), sa.column("arr", sa.ARRAY(sa.Integer)), sa.column("m", sa.ARRAY(sa.String, dimensions=2)))
        a = at.c.arr
        e = rng.choice([
            lambda: a[1], lambda: a[1:2], lambda: a.any(5), lambda: a.all(5), lambda: a.contains([1]), lambda: a == [1, 2],
            lambda: sa.func.array_length(a, 1), lambda: at.c.m[1][2], lambda: a.any(5, operator=sa.sql.operators.lt),
            lambda: sa.any_(a) == 5, lambda: 5 == sa.all_(a), lambda: a + [v.next("int")], lambda: sa.func.unnest(a),
            lambda: sa.func.array_agg(at.c.id), lambda: a.in_([[1], [2]]),
        ])()
        return sa.select(at.c.id, e)

    @rec("from_variants")
    def _(rng, v):
        c = rng.random()
        if c < 0.15:
            vals = sa.values(sa.column("n", sa.Integer), sa.column("s", sa.String), name="vv").data(
                [(v.next("int"), v.next("str")) for _ in range(rng.randint(1, 3))])
            return sa.select(vals).where(vals.c.n > 0) if rng.random() < 0.7 else sa.select(vals.scalar_values() if hasattr(vals, "scalar_values") else vals)
        if c < 0.3:
            sub = sa.select(tb.c.id).where(tb.c.a_id == ta.c.id).order_by(tb.c.q).limit(2).lateral("lat")
            return sa.select(ta.c.id, sub.c.id).select_from(ta.join(sub, sa.true(), isouter=rng.random() < 0.5))
        if c < 0.4:
            ts = sa.tablesample(ta, sa.func.bernoulli(10), name="smp", seed=sa.literal(1) if rng.random() < 0.5 else None)
            return sa.select(ts.c.id)
        if c < 0.55:
            fn = sa.func.generate_series(1, v.next("posint")).table_valued("value", name="gs")
            return sa.select(fn.c.value) if rng.random() < 0.6 else sa.select(sa.func.json_each(sa.literal('{"a":1}', sa.JSON)).table_valued("key", "value", with_ordinality="ord").render_derived())
        if c < 0.65:
            fn = sa.func.generate_series(1, 3).column_valued("x")
            return sa.select(fn).where(fn > 1)
        if c < 0.8:
            # recursive CTE
            base = sa.select(ta.c.id.label("n")).where(ta.c.id == v.next("posint")).cte("rc", recursive=True)
            step = sa.select((base.c.n + 1).label("n")).where(base.c.n < 10)
            rc = base.union_all(step) if rng.random() < 0.8 else base.union(step)
            return sa.select(rc.c.n).order_by(rc.c.n)
        if c < 0.9:
            j = ta.join(tb, ta.c.id == tb.c.a_id).join(tc, tb.c.id == tc.c.b_id, isouter=True, full=rng.random() < 0.3)
            return sa.select(ta.c.id, tc.c.id).select_from(j)
        a1, a2 = ta.alias(), ta.alias()
        return sa.select(a1.c.id, a2.c.id).where(a1.c.x == a2.c.y).where(sa.exists().where(tb.c.a_id == a1.c.id))

    @rec("cte_dml")
    def _(rng, v):
        c = rng.random()
        ins = sa.insert(tc).values(b_id=v.next("posint"), u=v.next("str")).returning(tc.c.id).cte("ins1")
        upd = sa.update(tb).where(tb.c.q > v.next("int")).values(q=v.next("int")).returning(tb.c.id, tb.c.q).cte("upd1")
        dele = sa.delete(tc).where(tc.c.id > v.next("int")).returning(tc.c.b_id).cte("del1")
        if c < 0.25:
            return sa.select(ins.c.id)
        if c < 0.5:
            return sa.select(upd.c.id).where(upd.c.q.in_(sa.select(dele.c.b_id)))
        if c < 0.75:
            return sa.insert(tc).from_select(["b_id"], sa.select(upd.c.id)).returning(tc.c.id)
        src = sa.select(tb.c.id).where(tb.c.q < v.next("int")).cte("src", nesting=rng.random() < 0.3)
        return sa.delete(tc).where(tc.c.b_id.in_(sa.select(src.c.id))).add_cte(src) if rng.random() < 0.5 else \
            sa.update(tc).values(u=v.next("str")).where(tc.c.b_id == src.c.id)

    @rec("dml_variants")
    def _(rng, v):
        c = rng.random()
        if c < 0.1:
            return sa.insert(ta)
        if c < 0.2:
            return sa.insert(ta).values()
        if c < 0.3:
            return sa.insert(ta).values([{"x": v.next("int"), "s": v.next("str")}, {"x": v.next("int"), "s": None}])
        if c < 0.4:
            return sa.insert(tb).values(q=sa.select(sa.func.max(ta.c.x)).scalar_subquery(), t=sa.func.lower(v.next("str")))
        if c < 0.5:
            return sa.update(tb).values(q=tb.c.q + 1).where(tb.c.a_id == ta.c.id).where(ta.c.x > v.next("int"))
        if c < 0.6:
            return sa.update(tb).values({tb.c.q: ta.c.x, ta.c.y: tb.c.q}).where(tb.c.a_id == ta.c.id)
        if c < 0.7:
            return sa.delete(tc).where(tc.c.b_id == tb.c.id).where(tb.c.q > v.next("int")).returning(tc.c.id)
        if c < 0.8:
            return sa.update(ta).ordered_values((ta.c.y, ta.c.x + 1), (ta.c.x, v.next("int"))).return_defaults()
        if c < 0.9:
            return sa.insert(ta).values(x=sa.bindparam("bx"), s=sa.bindparam("bs", type_=sa.String)).returning(ta, sort_by_parameter_order=True)
        return sa.update(ta).values(x=sa.select(tb.c.q).where(tb.c.a_id == ta.c.id).limit(1).scalar_subquery()).where(
            sa.exists().where(tb.c.a_id == ta.c.id)).returning(ta.c.id, (ta.c.x + 1).label("nx"))

    @rec("select_misc")
    def _(rng, v):
        c = rng.random()
        s = sa.select(ta.c.id, ta.c.x)
        if c < 0.1:
            return s.order_by(ta.c.x).fetch(v.next("posint"), with_ties=True, percent=rng.random() < 0.5).offset(v.next("posint"))
        if c < 0.2:
            return s.with_for_update(of=[ta.c.id, ta], nowait=True, key_share=rng.random() < 0.5, read=rng.random() < 0.5)
        if c < 0.3:
            return s.with_hint(ta, "INDEX(%(name)s ix_1)", rng.choice(["oracle", "mysql", "mssql", "*"])).with_statement_hint("MAXDOP 1", "mssql")
        if c < 0.4:
            return s.group_by(ta.c.id, ta.c.x).having(sa.func.count() > v.next("int")).order_by(sa.func.count().desc(), "x", sa.desc("id"))
        if c < 0.5:
            u = sa.union_all(s.where(ta.c.x > 1).limit(2), s.where(ta.c.x < 5).order_by(ta.c.id).limit(3), s.with_for_update())
            return u.order_by(u.selected_columns.id).limit(v.next("posint")).offset(1)
        if c < 0.6:
            sub = s.subquery()
            return sa.select(sub).join(tb, tb.c.a_id == sub.c.id).limit(sa.bindparam("lim", 5)).offset(sa.literal_column("2"))
        if c < 0.7:
            return s.distinct().order_by(ta.c.x.desc().nulls_last(), ta.c.id.asc().nulls_first()).limit(v.next("posint"))
        if c < 0.8:
            return sa.select(sa.literal_column("1").label("one"), sa.text("2"), sa.column("zz"), sa.null(), sa.func.count("*")).select_from(sa.text("dual"))
        if c < 0.9:
            return sa.select(sa.text("ta.id")).select_from(ta).where(sa.text("ta.x > :lim").bindparams(lim=v.next("int"))).order_by(sa.text("1"))
        inner = s.where(ta.c.x > v.next("int")).scalar_subquery() if False else sa.select(sa.func.count()).select_from(tb).where(tb.c.a_id == ta.c.id).scalar_subquery()
        return sa.select(ta.c.id, inner.label("nb")).order_by(inner.desc()).limit(sa.select(sa.func.count()).select_from(tc).scalar_subquery())

    @rec("orm_misc")
    def _(rng, v):
        c = rng.random()
        A1 = orm.aliased(A)
        if c < 0.15:
            return sa.select(A).join(A.bs).join(B.cs).where(C.u == v.next("str")).options(orm.contains_eager(A.bs).contains_eager(B.cs))
        if c < 0.3:
            return sa.select(A, A1).join(A1, A1.id == A.x).options(orm.selectinload(A.bs).joinedload(B.cs), orm.defer(A1.s))
        if c < 0.45:
            return sa.select(A.id, sa.func.count(B.id)).join(A.bs, isouter=True).group_by(A.id).having(sa.func.count(B.id) > v.next("int"))
        if c < 0.55:
            return sa.select(A).where(A.bs.any(B.q > v.next("int"))).where(~A.bs.any()).where(A.bs.any(B.cs.any(C.u == "x")))
        if c < 0.65:
            return sa.select(B).where(B.a.has(A.x > v.next("int"))).where(B.a == None).options(orm.joinedload(B.a, innerjoin=True))  # noqa: E711
        if c < 0.75:
            return sa.update(A).where(A.x > v.next("int")).values(y=A.x + 1).execution_options(synchronize_session=False)
        if c < 0.85:
            sub = sa.select(B).where(B.q > v.next("int")).subquery()
            Bs = orm.aliased(B, sub)
            return sa.select(A, Bs).join(Bs, A.id == Bs.a_id).order_by(A.id, Bs.id)
        if c < 0.95:
            return sa.select(orm.Bundle("bn", A.id, A.x), sa.func.row_number().over(order_by=A.id)).where(A.s.in_([v.next("str")]))
        return sa.delete(B).where(B.q.in_(sa.select(A.x).where(A.flag.is_(True))))

    @rec("hostile_names")
    def _(rng, v):
        """columns and explicit bind parameters whose names need escaping in a placeholder ( % ( ) : . [ ] blank )"""
        names = rng.sample(["user id", "a.b", "pct%", "arr[1]", "f(x)", "x:y", "plain", "q?m", "dq\"x", "back`tick", "semi;colon"], 3)
        ht = sa.table("h t", *[sa.column(n, sa.Integer) for n in names], sa.column("id", sa.Integer))
        c0, c1, c2 = [ht.c[n] for n in names]
        k = rng.random()
        if k < 0.2:
            return sa.insert(ht).values({names[0]: v.next("int"), names[1]: v.next("int")})
        if k < 0.3:
            return sa.insert(ht)     # all columns as (escaped) named parameters
        if k < 0.5:
            return sa.update(ht).values({names[0]: v.next("int"), names[2]: c1 + 1}).where(c1 > v.next("int")).returning(c0)
        if k < 0.65:
            return sa.select(c0, c2).where(c1 == sa.bindparam(names[1], v.next("int"))).where(c0.in_([v.next("int"), v.next("int")]))
        if k < 0.8:
            return sa.select(ht).where(c0 == sa.bindparam(rng.choice(["a.b", "arr[1]", "user id", "p%q", "x:y"]))).where(
                c1 < sa.bindparam("x(y)", v.next("int"), literal_execute=rng.random() < 0.3))
        if k < 0.9:
            return sa.delete(ht).where(c0.in_(sa.bindparam("in.list", [v.next("int"), v.next("int")], expanding=True))).returning(ht.c.id)
        return sa.insert(ht).values({names[0]: sa.bindparam("b%1"), names[1]: sa.bindparam("b 2")}).returning(c2)

    @rec("dialect_type_single_cast")
    def _(rng, v):
        """one dialect-specific type at a time (a construct holding several would stop at the first documented error)"""
        t = rng.choice([
            lambda: ora.INTERVAL(day_precision=2, second_precision=3), lambda: ora.INTERVAL(), lambda: ora.NUMBER(5, 2), lambda: ora.RAW(16),
            lambda: ora.NCLOB(), lambda: ora.BINARY_DOUBLE(), lambda: ora.ROWID(), lambda: ora.VARCHAR2(10), lambda: ora.TIMESTAMP(timezone=True),
            lambda: ora.FLOAT(binary_precision=5), lambda: ora.LONG(), lambda: ora.DATE(),
            lambda: pg.INTERVAL(fields="YEAR", precision=2), lambda: pg.INTERVAL(), lambda: pg.TIMESTAMP(precision=3), lambda: pg.TIME(timezone=True, precision=2),
            lambda: pg.BIT(3, varying=True), lambda: pg.ENUM("a", "b", name="pe"), lambda: pg.ARRAY(sa.Integer, dimensions=2), lambda: pg.JSONB(), lambda: pg.MONEY(),
            lambda: pg.DOMAIN("dm", sa.Integer), lambda: pg.TSVECTOR(), lambda: pg.INT4RANGE(), lambda: pg.CITEXT(), lambda: pg.OID(),
            lambda: my.SET("a", "b"), lambda: my.ENUM("x", "y"), lambda: my.YEAR(), lambda: my.TINYINT(1), lambda: my.BIT(3), lambda: my.MEDIUMTEXT(collation="utf8_bin"),
            lambda: my.DATETIME(fsp=3), lambda: my.TIME(fsp=2), lambda: my.DOUBLE(asdecimal=False), lambda: my.INTEGER(display_width=4, unsigned=True), lambda: my.JSON(),
            lambda: ms.MONEY(), lambda: ms.UNIQUEIDENTIFIER(), lambda: ms.DATETIMEOFFSET(3), lambda: ms.DATETIME2(2), lambda: ms.XML(), lambda: ms.SQL_VARIANT(),
            lambda: ms.TIME(3), lambda: ms.ROWVERSION(), lambda: ms.IMAGE(), lambda: ms.NTEXT(), lambda: ms.VARBINARY(16), lambda: ms.REAL(),
            lambda: sl.DATETIME(truncate_microseconds=True), lambda: sl.DATE(storage_format="%(year)04d%(month)02d%(day)02d"), lambda: sl.TIME(), lambda: sl.JSON(),
        ])()
        k = rng.random()
        if k < 0.5:
            return sa.select(sa.cast(ta.c.s, t))
        if k < 0.7:
            return sa.select(sa.type_coerce(ta.c.s, t), sa.literal(None, t))
        if k < 0.85:
            return sa.select(ta.c.id).where(ta.c.s == sa.bindparam("tv", None, type_=t))
        from sqlalchemy.schema import CreateTable as _CT

        return _CT(sa.Table("dt%d" % rng.randint(1, 9), sa.MetaData(), sa.Column("id", sa.Integer, primary_key=True), sa.Column("c", t)))

    @rec("copy_edge_shapes")
    def _(rng, v):
        """shapes whose clones / pickles are delicate: repeated columns through a subquery, unlabeled scalar
        subquery exported by a CTE, aliased entity join narrowed with maintain_column_froms"""
        c = rng.random()
        if c < 0.3:
            n = rng.randint(2, 4)
            inner = sa.select(*[ta.c.s] * n, ta.c.id).where(ta.c.id > v.next("int")).subquery("dup")
            return sa.select(inner)
        if c < 0.6:
            sc = sa.select(sa.func.count(tb.c.id)).where(tb.c.a_id == ta.c.id).scalar_subquery()
            ct = sa.select(sc, ta.c.id).where(ta.c.x > v.next("int")).cte("edge_cte")
            return sa.select(ct).where(ct.c.id != v.next("int"))
        if c < 0.85:
            A1 = orm.aliased(A)
            return sa.select(A, A1).join(A1, A1.id == A.x).with_only_columns(ta.c.flag, ta.c.y, maintain_column_froms=True).where(
                ta.c.id > v.next("int"))
        return sa.select(ta.c.id).order_by(ta.c.id).limit(v.next("posint")).offset(v.next("posint")).with_for_update(of=ta)

    # ---------------------------------------------------------------- dialect specific
    @rec("pg_insert")
    def _(rng, v):
        s = pg.insert(tb).values(id=v.next("posint"), q=v.next("int"), t=v.next("str"))
        c = rng.random()
        if c < 0.2:
            s = s.on_conflict_do_nothing()
        elif c < 0.35:
            s = s.on_conflict_do_nothing(index_elements=[tb.c.id])
        elif c < 0.55:
            s = s.on_conflict_do_update(index_elements=["id"], set_={"q": s.excluded.q, "t": sa.func.lower(s.excluded.t)})
        elif c < 0.7:
            s = s.on_conflict_do_update(constraint="tb_pkey", set_={tb.c.q: s.excluded.q + tb.c.q}, where=tb.c.q < s.excluded.q)
        elif c < 0.85:
            s = s.on_conflict_do_update(index_elements=[tb.c.id], index_where=tb.c.q > 5, set_=dict(t=sa.bindparam("newt", "x")))
        else:
            s = s.on_conflict_do_update(constraint=tb.primary_key, set_={"q": sa.select(sa.func.max(ta.c.x)).scalar_subquery()})
        if rng.random() < 0.4:
            s = s.returning(tb.c.id, s.excluded.q) if rng.random() < 0.3 else s.returning(tb)
        if rng.random() < 0.15:
            cte = sa.select(ta.c.id).where(ta.c.x > v.next("int")).cte("pgc")
            s = s.add_cte(cte)
        return s

    @rec("sqlite_insert")
    def _(rng, v):
        s = sl.insert(tb).values(id=v.next("posint"), q=v.next("int"))
        c = rng.random()
        if c < 0.3:
            s = s.on_conflict_do_nothing(index_elements=["id"] if rng.random() < 0.5 else None)
        elif c < 0.7:
            s = s.on_conflict_do_update(index_elements=[tb.c.id], set_={"q": s.excluded.q + 1}, where=tb.c.q != s.excluded.q if rng.random() < 0.5 else None)
        else:
            s = s.on_conflict_do_update(index_elements=["id"], index_where=tb.c.q > 0, set_={tb.c.t: v.next("str")})
        return s.returning(tb.c.id) if rng.random() < 0.4 else s

    @rec("mysql_insert")
    def _(rng, v):
        s = my.insert(tb).values(id=v.next("posint"), q=v.next("int"), t=v.next("str"))
        c = rng.random()
        if c < 0.35:
            s = s.on_duplicate_key_update(q=s.inserted.q, t=v.next("str"))
        elif c < 0.6:
            s = s.on_duplicate_key_update({"q": s.inserted.q + tb.c.q, "t": sa.func.concat(tb.c.t, s.inserted.t)})
        elif c < 0.8:
            s = s.on_duplicate_key_update([("t", v.next("str")), ("q", sa.func.coalesce(s.inserted.q, 0))])
        else:
            s = s.prefix_with("IGNORE", dialect="mysql")
        return s

    @rec("pg_exprs")
    def _(rng, v):
        pt = sa.table("pt", sa.column("id", sa.Integer), sa.column("jb", pg.JSONB), sa.column("hs", pg.HSTORE), sa.column("arr", pg.ARRAY(sa.Integer)),
                      sa.column("ts", pg.TSVECTOR), sa.column("r", pg.INT4RANGE), sa.column("txt", sa.Text), sa.column("ip", pg.INET))
        e = rng.choice([
            lambda: pt.c.jb["k"].astext, lambda: pt.c.jb[("a", "b")].astext.cast(sa.Integer), lambda: pt.c.jb.contains({"a": 1}),
            lambda: pt.c.jb.has_key("k"), lambda: pt.c.jb.has_any(pg.array(["a", "b"])), lambda: pt.c.jb.path_exists("$.a"),
            lambda: pt.c.jb - "k", lambda: pt.c.jb.delete_path(pg.array(["a"])), lambda: pt.c.jb.contained_by({"a": 1}),
            lambda: pt.c.hs["k"], lambda: pt.c.hs.has_key("k"), lambda: pt.c.hs.keys(), lambda: pt.c.hs.contains({"a": "1"}),
            lambda: pt.c.arr.contains([1, 2]), lambda: pt.c.arr.overlap(pg.array([1])), lambda: pt.c.arr[1:2], lambda: pg.array([1, 2]) + pt.c.arr,
            lambda: pg.array([pg.array([1, 2]), pg.array([3, 4])]), lambda: pg.Any(5, pt.c.arr) if hasattr(pg, "Any") else pt.c.arr.any(5),
            lambda: pg.aggregate_order_by(pt.c.txt, pt.c.id.desc()), lambda: sa.func.array_agg(pg.aggregate_order_by(pt.c.txt, pt.c.id.desc(), pt.c.txt)),
            lambda: sa.func.string_agg(pt.c.txt, pg.aggregate_order_by(sa.literal_column("','"), pt.c.id)),
            lambda: pg.array_agg(pt.c.id), lambda: pt.c.ts.match("cat & dog"), lambda: pt.c.txt.match("cat", postgresql_regconfig="english"),
            lambda: pg.to_tsvector("english", pt.c.txt).match("x"), lambda: pg.ts_headline("english", pt.c.txt, pg.to_tsquery("x")),
            lambda: pg.websearch_to_tsquery("a b"), lambda: pt.c.r.contains(5), lambda: pt.c.r.overlaps(pg.Range(1, 5)), lambda: pt.c.r == pg.Range(1, 3, bounds="[]"),
            lambda: pt.c.r.adjacent_to(pg.Range(None, 3)), lambda: pt.c.txt.ilike("a%"), lambda: pt.c.txt.regexp_match("^a", flags="ig"),
            lambda: pt.c.ip == "10.0.0.1", lambda: sa.cast(pt.c.txt, pg.REGCLASS), lambda: sa.cast(pt.c.txt, pg.ENUM("a", "b", name="pgen")),
            lambda: sa.cast(pt.c.txt, pg.ARRAY(pg.ENUM("a", "b", name="pgen2"))), lambda: sa.cast(pt.c.id, pg.BIT(3)), lambda: sa.cast(pt.c.txt, pg.INTERVAL(fields="YEAR", precision=2)),
            lambda: sa.cast(pt.c.txt, pg.DOMAIN("dom1", sa.Integer)), lambda: sa.literal(pg.Range(1, 2), pg.INT4RANGE), lambda: sa.literal({"a": "b"}, pg.HSTORE),
            lambda: pg.hstore("k", "v"), lambda: pg.hstore(pg.array(["a", "b"]), pg.array(["1", "2"])), lambda: pt.c.hs + pg.hstore("a", "b"),
            lambda: sa.literal([1, 2], pg.ARRAY(sa.Integer)), lambda: sa.literal([[1], [2]], pg.ARRAY(sa.Integer, dimensions=2)),
            lambda: sa.literal(pg.BitString("101"), pg.BIT(3)) if hasattr(pg, "BitString") else sa.literal(1),
            lambda: sa.literal([pg.Range(1, 2)], pg.INT4MULTIRANGE),
        ])()
        c = rng.random()
        if c < 0.6:
            return sa.select(pt.c.id, e)
        if c < 0.8:
            s = sa.select(pt.c.id, pt.c.txt).ext(pg.distinct_on(pt.c.txt, pt.c.id)).order_by(pt.c.txt)
            return s
        return sa.select(pt.c.id).where(e if getattr(e.type, "_type_affinity", None) is sa.Boolean else e.is_not(None))

    @rec("mysql_exprs")
    def _(rng, v):
        mt = sa.table("mt", sa.column("id", sa.Integer), sa.column("title", sa.String), sa.column("body", sa.Text), sa.column("j", my.JSON))
        c = rng.random()
        if c < 0.3:
            m = my.match(mt.c.title, mt.c.body, against=v.next("str"))
            m = rng.choice([lambda: m, lambda: m.in_boolean_mode(), lambda: m.in_natural_language_mode(), lambda: m.with_query_expansion(),
                            lambda: m.in_natural_language_mode().with_query_expansion()])()
            return sa.select(mt.c.id, m).where(m).order_by(sa.desc(m))
        if c < 0.45:
            return sa.update(mt).values(title=v.next("str")).with_dialect_options(mysql_limit=v.next("posint"))
        if c < 0.55:
            return sa.delete(mt).where(mt.c.id > v.next("int")).with_dialect_options(mysql_limit=v.next("posint"), mariadb_limit=3)
        if c < 0.65:
            return sa.select(mt.c.id).prefix_with("SQL_CALC_FOUND_ROWS", "STRAIGHT_JOIN", dialect="mysql").with_hint(mt, "USE INDEX (ix)", "mysql")
        if c < 0.8:
            return sa.select(mt.c.j["a"], mt.c.j["a"]["b"].as_integer(), mt.c.j[1].as_string(), sa.cast(mt.c.id, my.SET("a", "b")),
                             sa.cast(mt.c.title, my.ENUM("x", "y")), sa.cast(mt.c.id, my.YEAR), sa.cast(mt.c.id, my.TINYINT(1)), sa.cast(mt.c.title, my.NCHAR(3)))
        return sa.select(sa.literal(5, my.BIT(3)), sa.cast(mt.c.title, my.VARCHAR(10, charset="utf8", collation="utf8_bin")), sa.cast(mt.c.body, my.LONGTEXT),
                         mt.c.title.regexp_match("a", flags="i"), mt.c.title.regexp_replace("a", "b", flags="c"))

    @rec("mssql_oracle_exprs")
    def _(rng, v):
        c = rng.random()
        if c < 0.15:
            return sa.select(ms.try_cast(ta.c.s, sa.Integer), sa.cast(ta.c.s, ms.NVARCHAR(None)), sa.cast(ta.c.f, ms.MONEY), sa.cast(ta.c.s, ms.UNIQUEIDENTIFIER),
                             sa.cast(ta.c.id, ms.BIT), sa.cast(ta.c.s, ms.DATETIMEOFFSET(3)), sa.cast(ta.c.s, ms.XML), sa.cast(ta.c.s, ms.SQL_VARIANT))
        if c < 0.3:
            return sa.select(ta).with_hint(ta, "WITH (NOLOCK)", "mssql").order_by(ta.c.id).limit(v.next("posint")).offset(v.next("posint"))
        if c < 0.4:
            return sa.select(ta.c.id).order_by(ta.c.id).limit(v.next("posint")).with_for_update(nowait=True, of=ta.c.id)
        if c < 0.5:
            return sa.select(ta.c.id).with_hint(ta, "/*+ INDEX(%(name)s ix) */", "oracle").prefix_with("/*+ ALL_ROWS */", dialect="oracle").fetch(3, oracle_fetch_approximate=True)
        if c < 0.6:
            return sa.insert(ta).values(x=1).with_hint("WITH (PAGLOCK)", dialect_name="mssql").returning(ta.c.id, ta.c.x + 1)
        if c < 0.7:
            return sa.update(ta).values(x=1).with_hint("WITH (ROWLOCK)", dialect_name="mssql").where(ta.c.id == tb.c.a_id).returning(ta.c.id)
        if c < 0.8:
            return sa.delete(ta).with_hint("WITH (TABLOCK)", dialect_name="mssql").where(ta.c.id == tb.c.a_id)
        if c < 0.9:
            return sa.select(sa.cast(ta.c.s, ora.NCLOB), sa.cast(ta.c.f, ora.BINARY_DOUBLE), sa.cast(ta.c.s, ora.RAW(16)), sa.cast(ta.c.id, ora.NUMBER(5, 2)),
                             sa.cast(ta.c.s, ora.INTERVAL(day_precision=2, second_precision=3)), sa.cast(ta.c.s, ora.ROWID), sa.cast(ta.c.s, ora.VARCHAR2(10)),
                             sa.literal("x", ora.NVARCHAR2(5)))
        sub = sa.select(ta.c.id).order_by(ta.c.id).limit(5).offset(2).subquery()
        return sa.select(sub.c.id).order_by(sub.c.id).limit(2).with_for_update()

    return R


def ddl_recipes(env):
    """fn(rng, v) -> list of DDL constructs over a freshly generated MetaData"""
    sa = env.sa
    from sqlalchemy.schema import (AddConstraint, CreateColumn, CreateIndex, CreateSchema, CreateSequence, CreateTable, DropConstraint,
                                   DropIndex, DropSchema, DropSequence, DropTable, SetColumnComment, SetTableComment, DropTableComment,
                                   DropColumnComment)
    from sqlalchemy.sql import ddl as ddlmod

    R = {}
    n = [0]

    def build_table(rng, v, md=None, schema=None):
        n[0] += 1
        md = md or sa.MetaData()
        pal = type_palette(sa)
        cols = []
        pk = rng.random()
        if pk < 0.3:
            cols.append(sa.Column("id", sa.Integer, primary_key=True))
        elif pk < 0.45:
            cols.append(sa.Column("id", sa.Integer, sa.Identity(start=rng.choice([1, 5]), increment=rng.choice([1, 2]), always=rng.random() < 0.5,
                                                                  cycle=rng.choice([None, True]), minvalue=rng.choice([None, 1])), primary_key=True))
        elif pk < 0.55:
            cols.append(sa.Column("id", sa.BigInteger, sa.Sequence(f"seq_{n[0]}", start=1, increment=1, schema=schema, optional=rng.random() < 0.3), primary_key=True))
        elif pk < 0.7:
            cols.append(sa.Column("k1", sa.String(10), primary_key=True))
            cols.append(sa.Column("k2", sa.Integer, primary_key=True, autoincrement=rng.choice([False, "auto", "ignore_fk"])))
        elif pk < 0.8:
            cols.append(sa.Column("id", sa.Uuid, primary_key=True))
        elif pk < 0.9:
            cols.append(sa.Column("id", sa.Integer, primary_key=True, autoincrement=True))
            cols.append(sa.Column("id2", sa.Integer, primary_key=True))
        else:
            cols.append(sa.Column("id", sa.Integer))  # no primary key at all
        for i in range(rng.randint(1, 5)):
            name, t, val = rng.choice(pal)
            kw = {}
            c = rng.random()
            if c < 0.15:
                kw["server_default"] = rng.choice([sa.text("0"), "x'y", sa.func.now(), sa.literal_column("CURRENT_TIMESTAMP"), sa.null(), sa.text("(1 + 1)")])
            elif c < 0.25:
                kw["default"] = val
            elif c < 0.32 and name in ("Integer", "BigInteger", "Numeric", "Float"):
                cols.append(sa.Column(f"c{i}", t, sa.Computed("id * 2" if cols[0].name == "id" else "1 + 1", persisted=rng.choice([None, True, False]))))
                continue
            if rng.random() < 0.3:
                kw["nullable"] = rng.random() < 0.5
            if rng.random() < 0.15:
                kw["comment"] = rng.choice(["a comment", "it's %s :x \\ quoted", ""])
            if rng.random() < 0.1:
                kw["unique"] = True
            if rng.random() < 0.1:
                kw["index"] = True
            cname = rng.choice([f"c{i}", f"Col {i}", f"select", f"c{i}%", f"C{i}Mixed", "user", "order"]) if rng.random() < 0.3 else f"c{i}"
            if any(c_.name == cname for c_ in cols):
                cname = f"c{i}_"
            cols.append(sa.Column(cname, t, **kw))
        targs = list(cols)
        tkw = {}
        if rng.random() < 0.25:
            targs.append(sa.CheckConstraint(rng.choice(["1 = 1", sa.text("c0 > 0")]), name=rng.choice([None, f"ck_{n[0]}"])))
        if rng.random() < 0.2 and len(cols) >= 3:
            targs.append(sa.UniqueConstraint(cols[1].name, cols[2].name, name=rng.choice([None, f"uq_{n[0]}"]),
                                             deferrable=rng.choice([None, True]), initially=rng.choice([None, "DEFERRED"])))
        if rng.random() < 0.2:
            tkw["comment"] = rng.choice(["table comment", "it's"])
        if rng.random() < 0.3:
            tkw.update(rng.choice([
                {"mysql_engine": "InnoDB", "mysql_charset": "utf8mb4"}, {"sqlite_autoincrement": True}, {"sqlite_with_rowid": False},
                {"sqlite_strict": True}, {"postgresql_partition_by": "RANGE (id)"}, {"postgresql_tablespace": "ts1"}, {"postgresql_with_oids": False},
                {"postgresql_inherits": ("parent1",)}, {"postgresql_on_commit": "DROP"}, {"oracle_compress": True}, {"oracle_on_commit": "PRESERVE ROWS"},
                {"mysql_partition_by": "HASH(id)", "mysql_partitions": "4"}, {"mariadb_engine": "Aria"}, {"postgresql_using": "heap"},
                {"oracle_tablespace": "ots"}, {"mssql_clustered": None} if False else {"mysql_comment": "c"},
            ]))
        if rng.random() < 0.2:
            tkw["prefixes"] = rng.choice([["TEMPORARY"], ["GLOBAL TEMPORARY"], ["UNLOGGED"]])
        name = rng.choice([f"t{n[0]}", f"Tab {n[0]}", f"table", f"T{n[0]}x"]) if rng.random() < 0.25 else f"t{n[0]}"
        t = sa.Table(name, md, *targs, schema=schema, **tkw)
        return t

    def add_fk_table(rng, v, md, parent):
        n[0] += 1
        pkcols = list(parent.primary_key.columns)
        if not pkcols:
            return None
        cols = [sa.Column("id", sa.Integer, primary_key=True)]
        if len(pkcols) == 1:
            cols.append(sa.Column("p_id", pkcols[0].type, sa.ForeignKey(pkcols[0], ondelete=rng.choice([None, "CASCADE", "SET NULL"]),
                                                                             onupdate=rng.choice([None, "CASCADE"]), name=rng.choice([None, f"fk_{n[0]}"]),
                                                                             deferrable=rng.choice([None, True]), initially=rng.choice([None, "IMMEDIATE"]),
                                                                             use_alter=rng.random() < 0.2, match=rng.choice([None, "FULL"]))))
            return sa.Table(f"ch{n[0]}", md, *cols, schema=parent.schema)
        names = [f"p_{c.name}" for c in pkcols]
        for nm, c in zip(names, pkcols):
            cols.append(sa.Column(nm, c.type))
        cols.append(sa.ForeignKeyConstraint(names, pkcols, name=f"fkc_{n[0]}", ondelete="CASCADE"))
        return sa.Table(f"ch{n[0]}", md, *cols, schema=parent.schema)

    def rec(name):
        def deco(fn):
            R[name] = fn
            return fn
        return deco

    @rec("create_drop_table")
    def _(rng, v):
        schema = rng.choice([None, None, "sch1", "My Schema"])
        t = build_table(rng, v, schema=schema)
        out = [CreateTable(t, if_not_exists=rng.random() < 0.3), DropTable(t, if_exists=rng.random() < 0.3)]
        out += [CreateColumn(c) for c in list(t.c)[:2]]
        for ix in list(t.indexes):
            out += [CreateIndex(ix, if_not_exists=rng.random() < 0.3), DropIndex(ix, if_exists=rng.random() < 0.3)]
        for c in t.constraints:
            if c.name or not isinstance(c, sa.PrimaryKeyConstraint):
                out.append(AddConstraint(c))
                if c.name:
                    out.append(DropConstraint(c, cascade=rng.random() < 0.3, if_exists=rng.random() < 0.3))
        out.append(SetTableComment(t))
        out.append(DropTableComment(t))
        for c in t.c:
            if c.comment is not None:
                out += [SetColumnComment(c), DropColumnComment(c)]
        return out

    @rec("fk_tables")
    def _(rng, v):
        md = sa.MetaData()
        p = build_table(rng, v, md=md, schema=rng.choice([None, "sch1"]))
        ch = add_fk_table(rng, v, md, p)
        out = [CreateTable(p)]
        if ch is not None:
            out += [CreateTable(ch), DropTable(ch)]
            for c in ch.constraints:
                if isinstance(c, sa.ForeignKeyConstraint):
                    out.append(AddConstraint(c))
                    if c.name:
                        out.append(DropConstraint(c))
        return out

    @rec("indexes")
    def _(rng, v):
        t = build_table(rng, v)
        cols = list(t.c)
        a = cols[0]
        b = cols[-1]
        c = rng.random()
        kw = {}
        if c < 0.15:
            kw = {"postgresql_where": a.is_not(None), "sqlite_where": a.is_not(None), "mssql_where": a.is_not(None)}
        elif c < 0.3:
            kw = {"postgresql_using": "gin", "postgresql_with": {"fillfactor": 50}, "postgresql_concurrently": True}
        elif c < 0.4:
            kw = {"mysql_length": {b.name: 10}, "mysql_prefix": "FULLTEXT", "mysql_using": "hash"}
        elif c < 0.5:
            kw = {"mssql_clustered": True, "mssql_include": [b.name], "mssql_columnstore": False}
        elif c < 0.6:
            kw = {"oracle_bitmap": True, "oracle_compress": 1}
        elif c < 0.7:
            kw = {"postgresql_include": [b.name], "postgresql_nulls_not_distinct": True, "postgresql_ops": {a.name: "int4_ops"}}
        exprs = rng.choice([[a], [a, b], [a.desc(), b], [sa.func.lower(sa.cast(b, sa.String))], [a, sa.text("1")], [sa.func.coalesce(a, None)], [b.asc().nulls_last()]])
        ix = sa.Index(rng.choice([f"ix_{n[0]}", "Ix Mixed", None]) if rng.random() < 0.9 else "ix_" + "x" * 70, *exprs, unique=rng.random() < 0.3, **kw)
        if ix.table is None:
            ix._set_parent(t)
        return [CreateIndex(ix), DropIndex(ix), CreateTable(t)]

    @rec("plain_element_constraints")
    def _(rng, v):
        """constraints / indexes whose members are lightweight column() / literal_column() / text() / string
        elements rather than Column objects (all accepted by the constructors)"""
        n[0] += 1
        md = sa.MetaData()

        def el(name):
            return rng.choice([lambda: sa.column(name), lambda: sa.literal_column(name), lambda: name,
                               lambda: sa.column(name, sa.Integer)])()

        out = []
        # 1. constraints given inline to Table()
        k = rng.randint(1, 3)
        names = ["a", "b", "c"][:k]
        cons = rng.choice([
            lambda: sa.UniqueConstraint(*[el(x) for x in names], name=rng.choice([None, f"uq_p{n[0]}"])),
            lambda: sa.PrimaryKeyConstraint(*[x for x in names], name=rng.choice([None, f"pk_p{n[0]}"])),
            lambda: sa.CheckConstraint(rng.choice([sa.column("a") > 5, sa.text("a > 5"), sa.literal_column("a") > sa.literal_column("b"),
                                                   sa.and_(sa.column("a") > 0, sa.column("b").in_([1, 2]))]), name=rng.choice([None, f"ck_p{n[0]}"])),
            lambda: sa.Index(f"ix_p{n[0]}", *[el(x) for x in names if True], unique=rng.random() < 0.3),
            lambda: sa.Index(f"ix_q{n[0]}", sa.text("lower(c)"), sa.column("a")),
            lambda: sa.Index(f"ix_r{n[0]}", sa.func.lower(sa.column("c", sa.String)), sa.literal_column("b").desc()),
        ])()
        t1 = sa.Table(f"pe{n[0]}", md, sa.Column("a", sa.Integer), sa.Column("b", sa.Integer), sa.Column("c", sa.String(20)), cons,
                      **rng.choice([{}, {}, {"sqlite_with_rowid": False}, {"mysql_engine": "InnoDB"}]))
        out.append(CreateTable(t1))
        for c in t1.constraints:
            if not isinstance(c, sa.PrimaryKeyConstraint) or c.name:
                out.append(AddConstraint(c))
                if c.name:
                    out.append(DropConstraint(c))
        for ix in t1.indexes:
            out += [CreateIndex(ix), DropIndex(ix)]
        # 2. constraint appended afterwards
        t2 = sa.Table(f"pf{n[0]}", md, sa.Column("a", sa.Integer), sa.Column("b", sa.Integer))
        uq = sa.UniqueConstraint(el("a"), *( [el("b")] if rng.random() < 0.4 else []), name=f"uq_f{n[0]}",
                                 **rng.choice([{}, {}, {"sqlite_on_conflict": "IGNORE"}, {"postgresql_nulls_not_distinct": True}]))
        t2.append_constraint(uq)
        out += [CreateTable(t2), AddConstraint(uq), DropConstraint(uq)]
        return out

    @rec("constraint_names")
    def _(rng, v):
        """Add/DropConstraint, Create/DropIndex, comments over named / unnamed / naming-convention / _NONE_NAME objects:
        the error paths have to be documented errors"""
        n[0] += 1
        conv = rng.choice([None, None, {"ix": "ix_%(column_0_label)s", "uq": "uq_%(table_name)s_%(column_0_name)s", "ck": "ck_%(table_name)s_%(constraint_name)s",
                                        "fk": "fk_%(table_name)s_%(column_0_name)s_%(referred_table_name)s", "pk": "pk_%(table_name)s"},
                           {"uq": "uq_%(table_name)s_%(column_0_N_name)s"}, {"ck": "ck_%(table_name)s_%(column_0_name)s"}])
        md = sa.MetaData(naming_convention=conv) if conv else sa.MetaData()
        parent = sa.Table(f"cp{n[0]}", md, sa.Column("id", sa.Integer, primary_key=True))
        nm = lambda p: rng.choice([None, None, f"{p}_{n[0]}", "Mixed Name", "x" * 70])   # noqa: E731
        t = sa.Table(
            f"cn{n[0]}", md,
            sa.Column("id", sa.Integer, primary_key=True),
            sa.Column("p_id", sa.Integer, sa.ForeignKey(parent.c.id, name=nm("fk"))),
            sa.Column("x", sa.Integer), sa.Column("y", sa.String(10)),
            sa.UniqueConstraint("x", name=nm("uq")),
            sa.CheckConstraint("x > 5", name=nm("ck")),
            sa.UniqueConstraint("x", "y", name=nm("uq2")),
            sa.Index(nm("ix"), "y"),
            schema=rng.choice([None, None, "sch1"]),
        )
        out = []
        for c in list(t.constraints) + list(parent.constraints):
            out.append(AddConstraint(c))
            out.append(DropConstraint(c, cascade=rng.random() < 0.3, if_exists=rng.random() < 0.3))
        for ix in t.indexes:
            out += [CreateIndex(ix, if_not_exists=rng.random() < 0.3), DropIndex(ix, if_exists=rng.random() < 0.3)]
        sq = sa.Sequence(rng.choice([f"s{n[0]}", "Mixed Seq"]), metadata=md, schema=t.schema)
        out += [CreateTable(t), DropTable(t, if_exists=rng.random() < 0.5), CreateSequence(sq), DropSequence(sq, if_exists=rng.random() < 0.5),
                SetTableComment(t), DropTableComment(t), SetColumnComment(t.c.x), DropColumnComment(t.c.x)]
        try:
            from sqlalchemy.schema import DropConstraintComment, SetConstraintComment

            c = rng.choice(list(t.constraints))
            out += [SetConstraintComment(c), DropConstraintComment(c)]
        except ImportError:
            pass
        return out

    @rec("sequences_schemas")
    def _(rng, v):
        n[0] += 1
        sq = sa.Sequence(rng.choice([f"sq_{n[0]}", "My Seq"]), start=rng.choice([None, 1, 100]), increment=rng.choice([None, 1, -1, 5]),
                         minvalue=rng.choice([None, 1]), maxvalue=rng.choice([None, 1000]), nominvalue=rng.choice([None, True]),
                         nomaxvalue=rng.choice([None, True]), cycle=rng.choice([None, True, False]), cache=rng.choice([None, 10]),
                         order=rng.choice([None, True]), schema=rng.choice([None, "sch1"]), data_type=rng.choice([None, sa.BigInteger, sa.SmallInteger]))
        return [CreateSequence(sq, if_not_exists=rng.random() < 0.3), DropSequence(sq, if_exists=rng.random() < 0.3),
                CreateSchema(rng.choice(["sch1", "My Schema"]), if_not_exists=rng.random() < 0.3), DropSchema("sch1", cascade=rng.random() < 0.5, if_exists=rng.random() < 0.3)]

    @rec("create_table_as_view")
    def _(rng, v):
        n[0] += 1
        ta = env.tables["a"]
        sel = sa.select(ta.c.id, (ta.c.x + v.next("int")).label("xx")).where(ta.c.x > v.next("int"))
        out = []
        if hasattr(ddlmod, "CreateTableAs"):
            try:
                out.append(ddlmod.CreateTableAs(sel, f"cta_{n[0]}", temporary=rng.random() < 0.3, if_not_exists=rng.random() < 0.3,
                                                schema=rng.choice([None, "sch1"])))
            except TypeError:
                out.append(ddlmod.CreateTableAs(sel, f"cta_{n[0]}"))
        if hasattr(ddlmod, "CreateView"):
            try:
                cv = ddlmod.CreateView(sel, f"vw_{n[0]}", or_replace=rng.random() < 0.3, temporary=rng.random() < 0.2,
                                       materialized=rng.random() < 0.2, schema=rng.choice([None, "sch1"]))
            except TypeError:
                cv = ddlmod.CreateView(sel, f"vw_{n[0]}")
            out.append(cv)
            if hasattr(ddlmod, "DropView"):
                try:
                    out.append(ddlmod.DropView(cv.table if hasattr(cv, "table") else cv, if_exists=rng.random() < 0.3))
                except Exception:
                    pass
        return out

    @rec("pg_named_types")
    def _(rng, v):
        from sqlalchemy.dialects import postgresql as pg

        n[0] += 1
        en = pg.ENUM("a", "b'c", name=f"en_{n[0]}", schema=rng.choice([None, "sch1"]))
        dom = pg.DOMAIN(f"dom_{n[0]}", sa.Integer, check=rng.choice([None, "VALUE > 0"]), not_null=rng.random() < 0.5, default=rng.choice([None, "5"]))
        md = sa.MetaData()
        t = sa.Table(f"pgt{n[0]}", md, sa.Column("id", sa.Integer, primary_key=True), sa.Column("e", en), sa.Column("d", dom),
                     sa.Column("r", pg.INT4RANGE), sa.Column("a", pg.ARRAY(en, dimensions=rng.choice([None, 2]))), sa.Column("j", pg.JSONB(none_as_null=True)),
                     sa.Column("iv", pg.INTERVAL(fields="DAY TO SECOND")), sa.Column("ts", pg.TIMESTAMP(timezone=True, precision=3)),
                     pg.ExcludeConstraint(("r", "&&"), (sa.column("id"), "="), name=f"ex_{n[0]}", using="gist", where=sa.column("id") > 0))
        return [pg.CreateEnumType(en), pg.DropEnumType(en), pg.CreateDomainType(dom), pg.DropDomainType(dom), CreateTable(t)]

    return R
