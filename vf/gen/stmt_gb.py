"""G-stmt (group gb): seeded generator of Core / ORM statements with a *perturbation
operator*, shared by C02, C03, C17 and C22.

A statement is described by a JSON-able **spec** (nested dict / list).  ``build(env,
spec, vals)`` turns a spec into a real SQLAlchemy construct using only public API;
literal values are not part of the spec, they are drawn from ``Vals(j)`` so that the
j-th build of one spec carries different values at every literal slot than the i-th
(i != j): this is the "differs in literals only" sibling.  ``perturb(spec, rng)``
returns near-copies of a spec that differ in exactly one attribute (operator, label,
join flag, distinct, prefix, hint, bind type / flags, limit presence, FOR UPDATE flag,
column order, IN length, CTE flags, loader option ...).

Nothing in here judges anything; the oracles live in vf/props/c02.py, c03.py, c22.py.
``import sqlalchemy`` happens inside functions only (import mode is chosen earlier).
"""
from __future__ import annotations

import copy
import datetime
import decimal

WORDS = [
    "alpha", "bravo", "carol", "delta", "echo", "fox", "golf", "hotel", "india", "july",
    "kilo", "lima", "mike", "nov", "oscar", "papa", "quebec", "romeo", "sierra", "tango",
    "ultra", "victor", "whisky",
]

# column name -> type tag, per table key
TABLE_COLS = {
    "a": {"id": "int", "x": "int", "y": "int", "s": "str", "f": "float", "flag": "bool"},
    "b": {"id": "int", "a_id": "int", "q": "int", "t": "str"},
    "c": {"id": "int", "b_id": "int", "n": "num", "d": "date", "u": "str"},
}
ENTITY_OF = {"a": "A", "b": "B", "c": "C"}
# join paths (left key, right key, left col, right col, relationship name on left entity)
JOINS = [("a", "b", "id", "a_id", "bs"), ("b", "c", "id", "b_id", "cs"), ("b", "a", "a_id", "id", "a"),
         ("c", "b", "b_id", "id", "b")]

DIALECT_NAMES = ["sqlite", "postgresql", "mysql", "mssql", "oracle", "default"]


class Inapplicable(Exception):
    """the requested generative op / perturbation does not apply to this statement"""


# --------------------------------------------------------------------------------------
# fixture
# --------------------------------------------------------------------------------------
class Env:
    pass


_ENV = None


def make_env():
    """Tables, mapped classes, aliases; one per process (statement identity matters for
    cache keys, so every check uses the same Table objects for all statements)."""
    global _ENV
    if _ENV is not None:
        return _ENV
    import sqlalchemy as sa
    from sqlalchemy import orm

    env = Env()
    env.sa = sa
    env.orm = orm
    reg = orm.registry()
    md = reg.metadata
    env.md = md
    env.reg = reg
    ta = sa.Table(
        "ta", md,
        sa.Column("id", sa.Integer, primary_key=True),
        sa.Column("x", sa.Integer), sa.Column("y", sa.Integer),
        sa.Column("s", sa.String(50)), sa.Column("f", sa.Float), sa.Column("flag", sa.Boolean),
    )
    tb = sa.Table(
        "tb", md,
        sa.Column("id", sa.Integer, primary_key=True),
        sa.Column("a_id", sa.ForeignKey("ta.id")),
        sa.Column("q", sa.Integer), sa.Column("t", sa.String(50)),
    )
    tc = sa.Table(
        "tc", md,
        sa.Column("id", sa.Integer, primary_key=True),
        sa.Column("b_id", sa.ForeignKey("tb.id")),
        sa.Column("n", sa.Numeric(10, 2)), sa.Column("d", sa.Date), sa.Column("u", sa.String(50)),
    )
    env.tables = {"a": ta, "b": tb, "c": tc}

    mod = __name__

    def mk(name):
        cls = type(name, (object,), {"__module__": mod, "__qualname__": name,
                                     "__repr__": lambda self: f"<{name} {self.id}>"})
        globals()[name] = cls  # picklable by reference
        return cls

    A, B, C = mk("A"), mk("B"), mk("C")
    reg.map_imperatively(A, ta, properties={"bs": orm.relationship(B, back_populates="a", order_by=tb.c.id)})
    reg.map_imperatively(B, tb, properties={
        "a": orm.relationship(A, back_populates="bs"),
        "cs": orm.relationship(C, back_populates="b", order_by=tc.c.id),
    })
    reg.map_imperatively(C, tc, properties={"b": orm.relationship(B, back_populates="cs")})
    orm.configure_mappers()
    env.entities = {"A": A, "B": B, "C": C}
    env.custom_types = _custom_types(sa)
    env.aliases = {}  # (key, name) -> alias object, stable across builds (identity is part of cache keys)
    _ENV = env
    return env


def _custom_types(sa):
    """stateful user-defined types.  NC / NCD declare cache_ok = False (their state is not in a cache key, so
    anything holding them must be uncacheable); CK and Wrap are cacheable (their arguments are in the key)."""
    from sqlalchemy.types import TypeDecorator, UserDefinedType

    class NC(UserDefinedType):
        cache_ok = False

        def __init__(self, tag="a"):
            self.tag = tag

        def get_col_spec(self, **kw):
            return "NC_" + self.tag

        def bind_processor(self, dialect):
            tag = self.tag
            return lambda v: v if v is None else "%s:%s" % (tag, v)

        def result_processor(self, dialect, coltype):
            tag = self.tag
            return lambda v: v if v is None else "%s|%s" % (tag, v)

    class CK(NC):
        cache_ok = True

        def get_col_spec(self, **kw):
            return "CK_" + self.tag

    class NCD(TypeDecorator):
        impl = sa.String
        cache_ok = False

        def __init__(self, tag="a"):
            self.tag = tag
            super().__init__(30 if tag == "a" else 40)

        def process_bind_param(self, value, dialect):
            return value if value is None else "%s:%s" % (self.tag, value)

        def process_result_value(self, value, dialect):
            return value if value is None else "%s|%s" % (self.tag, value)

    class Wrap(TypeDecorator):
        """a cacheable TypeDecorator whose constructor takes a TypeEngine"""
        impl = sa.String
        cache_ok = True

        def __init__(self, inner):
            self.inner = inner
            super().__init__()

        def load_dialect_impl(self, dialect):
            return dialect.type_descriptor(self.inner)

    return {"NC": NC, "NCD": NCD, "CK": CK, "Wrap": Wrap}


def alias_of(env, kind, key, name):
    """Stable alias objects: a fresh ``alias()`` per build would still give equal cache
    keys (anon-mapped), but ORM ``aliased()`` ones are identity sensitive in places;
    both behaviours are legitimate, reuse keeps 'differs in literals only' exact."""
    k = (kind, key, name)
    a = env.aliases.get(k)
    if a is None:
        if kind == "alias":
            a = env.tables[key].alias(name)
        else:
            a = env.orm.aliased(env.entities[ENTITY_OF[key]], name=name)
        env.aliases[k] = a
    return a


def seed_rows():
    """Deterministic data (NULLs sprinkled) as dicts per table key."""
    ra, rb, rc = [], [], []
    for i in range(1, 25):
        ra.append({"id": i, "x": (i * 7) % 40, "y": None if i % 6 == 0 else (i * 11) % 30,
                   "s": None if i % 9 == 0 else WORDS[i % len(WORDS)], "f": i * 1.5,
                   "flag": None if i % 8 == 0 else bool(i % 2)})
    for i in range(1, 41):
        rb.append({"id": i, "a_id": None if i % 13 == 0 else 1 + (i * 5) % 24, "q": (i * 3) % 25,
                   "t": WORDS[(i * 2) % len(WORDS)]})
    for i in range(1, 41):
        rc.append({"id": i, "b_id": 1 + (i * 3) % 40, "n": decimal.Decimal(i * 25) / 100,
                   "d": datetime.date(2020, 1 + i % 12, 1 + i % 27), "u": WORDS[(i * 3) % len(WORDS)]})
    return {"a": ra, "b": rb, "c": rc}


def create_and_seed(env, engine):
    env.md.create_all(engine)
    rows = seed_rows()
    with engine.begin() as conn:
        for k in ("a", "b", "c"):
            conn.execute(env.tables[k].insert(), rows[k])


def dialects(extra_variants=False):
    """name -> dialect instance.  With ``extra_variants`` also option variants (server
    versions, paramstyles, legacy flags) used by C22."""
    from sqlalchemy.dialects import mssql, mysql, oracle, postgresql, sqlite
    from sqlalchemy.engine import default

    d = {
        "sqlite": sqlite.dialect(),
        "postgresql": postgresql.dialect(),
        "mysql": mysql.dialect(),
        "mssql": mssql.dialect(),
        "oracle": oracle.dialect(),
        "default": default.DefaultDialect(),
    }
    if extra_variants:
        v = {}
        v["sqlite/named"] = sqlite.dialect(paramstyle="named")
        v["sqlite/numeric"] = sqlite.dialect(paramstyle="numeric")
        pg_old = postgresql.dialect(paramstyle="format")
        pg_old.server_version_info = (9, 4)
        pg_old._supports_create_index_concurrently = False
        v["postgresql/9.4-format"] = pg_old
        v["postgresql/numeric_dollar"] = postgresql.dialect(paramstyle="numeric_dollar")
        my_old = mysql.dialect()
        my_old.server_version_info = (5, 6, 0)
        v["mysql/5.6"] = my_old
        maria = mysql.dialect(is_mariadb=True) if _accepts(mysql.dialect, "is_mariadb") else mysql.dialect()
        maria.server_version_info = (10, 6, 0)
        v["mariadb/10.6"] = maria
        ms_old = mssql.dialect()
        ms_old.server_version_info = (10,)
        ms_old._supports_offset_fetch = False
        v["mssql/2008"] = ms_old
        ms_new = mssql.dialect()
        ms_new.server_version_info = (15,)
        ms_new._supports_offset_fetch = True
        v["mssql/2019"] = ms_new
        ora_old = oracle.dialect()
        ora_old.server_version_info = (11, 2)
        ora_old._supports_offset_fetch = False
        v["oracle/11"] = ora_old
        ora_new = oracle.dialect(use_ansi=True)
        ora_new.server_version_info = (19,)
        v["oracle/19"] = ora_new
        v["oracle/no-ansi"] = oracle.dialect(use_ansi=False)
        v["default/qmark"] = default.DefaultDialect(paramstyle="qmark")
        v["strcompile"] = default.StrCompileDialect()
        # every positional / numeric paramstyle on every dialect family (paramstyle is a generic dialect argument)
        for fam, mod in (("sqlite", sqlite), ("postgresql", postgresql), ("mysql", mysql), ("mssql", mssql), ("oracle", oracle)):
            for ps in ("numeric", "numeric_dollar", "qmark", "format", "pyformat", "named"):
                key = f"{fam}/{ps}"
                if key not in v and ps != mod.dialect().paramstyle:
                    v[key] = mod.dialect(paramstyle=ps)
        try:
            from sqlalchemy.dialects.postgresql import asyncpg

            v["postgresql/asyncpg"] = asyncpg.dialect()
        except Exception:
            pass
        d.update(v)
    return d


def _accepts(fn, name):
    import inspect

    try:
        return name in inspect.signature(fn).parameters
    except (TypeError, ValueError):
        return False


# --------------------------------------------------------------------------------------
# literal values
# --------------------------------------------------------------------------------------
class Vals:
    """Deterministic literal source.  ``Vals(j)`` and ``Vals(i)`` (i != j, both < 23)
    give different values at every slot of every kind."""

    def __init__(self, j=0, salt=0):
        self.j = j
        self.salt = salt
        self.i = 0
        self.log = []

    def next(self, kind):
        i, j, s = self.i, self.j, self.salt
        self.i += 1
        if kind == "int":
            v = (17 * i + 31 * j + s) % 73 - 3
        elif kind == "posint":
            v = 1 + (5 * i + 3 * j + s) % 23
        elif kind == "str":
            v = WORDS[(5 * i + 7 * j + s) % 23]
        elif kind == "float":
            v = ((17 * i + 31 * j + s) % 73) + 0.5
        elif kind == "num":
            v = decimal.Decimal((17 * i + 31 * j + s) % 73) + decimal.Decimal("0.25")
        elif kind == "date":
            v = datetime.date(2020, 1 + (i + j + s) % 12, 1 + (3 * i + 5 * j + s) % 23)
        elif kind == "bool":
            v = bool((i + j + s) % 2)
        elif kind == "like":
            v = WORDS[(5 * i + 7 * j + s) % 23][:2] + "%"
        else:
            raise KeyError(kind)
        self.log.append(v)
        return v


# --------------------------------------------------------------------------------------
# random spec generation
# --------------------------------------------------------------------------------------
ARITH = ["+", "-", "*"]
CMP = ["==", "!=", "<", "<=", ">", ">="]
BOOLOPS = ["and", "or"]
INT_FUNCS = ["abs", "coalesce"]
STR_FUNCS = ["lower", "upper", "coalesce"]
AGG = ["count", "sum", "max", "min"]
CAST_TYPES = ["Integer", "String", "Float", "Numeric", "BigInteger", "Text"]
# a type is named by a string ("Integer") or by [name, positional args, keyword args].  The argument
# variants deliberately include values that are falsy but significant (0, False, "") next to None / omitted.
TYPE_ARG_VARIANTS = {
    "Numeric": [[[], {}], [[10], {}], [[10, 0], {}], [[10, 2], {}], [[None, 0], {}], [[12, 4], {}], [[10, 2], {"asdecimal": False}],
                [[10], {"decimal_return_scale": 0}], [[10], {"decimal_return_scale": 3}]],
    "Float": [[[], {}], [[], {"decimal_return_scale": 0}], [[], {"decimal_return_scale": 4}], [[], {"asdecimal": True}],
              [[24], {}], [[0], {}], [[53], {}]],
    "String": [[[], {}], [[0], {}], [[30], {}], [[30], {"collation": ""}], [[30], {"collation": "C"}]],
    "Text": [[[], {}], [[0], {}], [[1000], {}]],
    "Boolean": [[[], {}], [[], {"create_constraint": False}], [[], {"create_constraint": True, "name": "ckb"}]],
    "Integer": [[[], {}]],
    "BigInteger": [[[], {}]],
    "Date": [[[], {}]],
}


def type_name(t):
    return t if isinstance(t, str) else t[0]


# types built from other types.  ["with_variant", [base, [[dialect, type], ...]], {}], ["ARRAY", [item], {}],
# ["Wrap", [inner], {}] (a cacheable TypeDecorator taking a TypeEngine argument), ["PickleType", [], {"impl": t}],
# and user types with state: ["NC", [tag], {}] (UserDefinedType, cache_ok=False), ["NCD", [tag], {}]
# (TypeDecorator, cache_ok=False), ["CK", [tag], {}] (UserDefinedType, cache_ok=True).
COMPOSITE_TYPES = ("with_variant", "ARRAY", "Wrap", "PickleType")
USER_TYPES = ("NC", "NCD", "CK")
VARIANT_DIALECTS = ["sqlite", "postgresql", "mysql", "mssql", "oracle"]
_SIMPLE_FOR = {"int": ["Integer", "BigInteger", "Numeric", "Float", "String"], "str": ["String", "Text", "Integer"]}


def random_simple_type(rng, fam="int"):
    t = rng.choice(_SIMPLE_FOR[fam])
    if rng.random() < 0.5:
        a = rng.choice(TYPE_ARG_VARIANTS[t])
        return [t, a[0], a[1]]
    return t


def random_composite_type(rng, fam="int", depth=1):
    """a type that holds other types (with_variant / ARRAY / TypeDecorator with a type argument / PickleType impl)
    or a stateful user-defined type; always constructible (see normalize_type)"""
    return normalize_type(_random_composite_type(rng, fam, depth))


def _random_composite_type(rng, fam="int", depth=1):
    c = rng.random()
    inner = (_random_composite_type(rng, fam, depth - 1) if depth > 0 and rng.random() < 0.25 else
             [rng.choice(USER_TYPES), [rng.choice(["a", "b"])], {}] if rng.random() < 0.45 else random_simple_type(rng, fam))
    if c < 0.4:
        dns = rng.sample(VARIANT_DIALECTS, rng.choice([1, 1, 2]))
        return ["with_variant", [random_simple_type(rng, fam), [[dn, random_simple_type(rng, fam) if rng.random() < 0.8 else inner] for dn in dns]], {}]
    if c < 0.6:
        return ["ARRAY", [inner], {}]
    if c < 0.8:
        return ["Wrap", [inner], {}]
    if c < 0.88:
        return ["PickleType", [], {"impl": ["LargeBinary", [rng.choice([10, 20])], {}]}]
    return [rng.choice(USER_TYPES), [rng.choice(["a", "b"])], {}]


def _strip_arrays(t):
    """the same type spec with every ARRAY replaced by its item type (ARRAY may not hold an ARRAY, also not
    through a wrapper or a variant)"""
    if isinstance(t, str):
        return t
    name, args, kw = t
    if name == "ARRAY":
        return _strip_arrays(args[0])
    if name == "Wrap":
        return ["Wrap", [_strip_arrays(args[0])], {}]
    if name == "with_variant":
        return ["with_variant", [_strip_arrays(args[0]), [[dn, _strip_arrays(vt)] for dn, vt in args[1]]], {}]
    return t


def normalize_type(t):
    """make a type spec constructible: no ARRAY directly or transitively inside an ARRAY; the value given to
    with_variant() carries no variants of its own; nested with_variant bases are flattened (last one wins per
    dialect, as with chained with_variant() calls)"""
    if isinstance(t, str):
        return t
    name, args, kw = t
    if name == "ARRAY":
        return ["ARRAY", [normalize_type(_strip_arrays(args[0]))], {}]
    if name == "Wrap":
        return ["Wrap", [normalize_type(args[0])], {}]
    if name == "with_variant":
        base = normalize_type(args[0])
        variants = []
        if type_name(base) == "with_variant":
            variants = [list(v) for v in base[1][1]]
            base = base[1][0]
        for dn, vt in args[1]:
            vt = normalize_type(vt)
            while type_name(vt) == "with_variant":
                vt = vt[1][0]
            variants = [v for v in variants if v[0] != dn] + [[dn, vt]]
        return ["with_variant", [base, variants], {}]
    if name == "PickleType":
        return [name, args, {"impl": normalize_type(kw["impl"])}] if "impl" in kw else t
    return t


def _is_typespec(x):
    return isinstance(x, str) or (isinstance(x, list) and len(x) == 3 and isinstance(x[0], str) and isinstance(x[1], list) and isinstance(x[2], dict))


def type_arg_variants(t, rng):
    """the same type class with other constructor arguments (for types holding types: one inner change)"""
    alt = _type_arg_variants(t, rng)
    if alt is None:
        return None
    alt = normalize_type(alt)
    return None if alt == t else alt


def _type_arg_variants(t, rng):
    name = type_name(t)
    if name in USER_TYPES:
        return [name, ["b" if t[1][0] == "a" else "a"], {}]
    if name in ("ARRAY", "Wrap"):
        inner = t[1][0]
        alt = _type_arg_variants(inner, rng)
        if alt is None or rng.random() < 0.2:
            alt = _other(rng, ["Integer", "String", ["NC", ["a"], {}], ["NC", ["b"], {}], ["CK", ["a"], {}]], inner)
        return [name, [alt], {}]
    if name == "PickleType":
        return ["PickleType", [], {"impl": _type_arg_variants(t[2]["impl"], rng) or ["LargeBinary", [30], {}]}]
    if name == "with_variant":
        base, variants = t[1]
        variants = [list(v) for v in variants]
        c = rng.random()
        i = rng.randrange(len(variants))
        if c < 0.35:      # other class for one dialect
            variants[i][1] = _other(rng, ["Integer", "String", "Text", "Numeric", "BigInteger"], type_name(variants[i][1]))
        elif c < 0.6:     # other arguments for one dialect
            variants[i][1] = _type_arg_variants(variants[i][1], rng) or _other(rng, ["Integer", "Text"], type_name(variants[i][1]))
        elif c < 0.75:    # other dialect
            variants[i][0] = _other(rng, [d for d in VARIANT_DIALECTS if d not in [v[0] for v in variants]] + [variants[i][0]], variants[i][0])
        elif c < 0.9:     # one more / one less dialect
            if len(variants) > 1:
                variants.pop(i)
            else:
                variants.append([_other(rng, VARIANT_DIALECTS, variants[0][0]), random_simple_type(rng, "int")])
        else:
            base = _type_arg_variants(base, rng) or _other(rng, ["Integer", "String"], type_name(base))
        return ["with_variant", [base, variants], {}]
    cur = [[], {}] if isinstance(t, str) else [t[1], t[2]]
    alts = [v for v in TYPE_ARG_VARIANTS.get(name, []) if v != cur]
    if not alts:
        return None
    a = rng.choice(alts)
    return [name, a[0], a[1]]


class Gen:
    """Random spec generator.  ``scope`` is a list of (fromkey, colmap) where colmap maps
    column name -> type tag."""

    def __init__(self, rng, depth=2, orm_ratio=0.3, rich=False):
        self.rng = rng
        self.depth = depth
        self.orm_ratio = orm_ratio
        self.rich = rich
        self._n = 0

    def fresh(self, p):
        self._n += 1
        return f"{p}{self._n}"

    # ---- expressions -------------------------------------------------------------
    def cols_of(self, scope, t):
        out = []
        for fk, cm in scope:
            for cn, ct in cm.items():
                if ct == t:
                    out.append(["col", fk, cn])
        return out

    def e_int(self, scope, d):
        r = self.rng
        cols = self.cols_of(scope, "int")
        c = r.random()
        if d <= 0 or c < 0.3:
            if cols and r.random() < 0.7:
                return r.choice(cols)
            return ["lit", "int"]
        if c < 0.6:
            return ["bin", r.choice(ARITH), self.e_int(scope, d - 1), self.e_int(scope, d - 1)]
        if c < 0.7:
            f = r.choice(INT_FUNCS)
            if f == "abs":
                return ["func", "abs", [self.e_int(scope, d - 1)]]
            return ["func", "coalesce", [self.e_int(scope, d - 1), ["lit", "int"]]]
        if c < 0.78:
            return ["case", [[self.e_bool(scope, d - 1), self.e_int(scope, d - 1)]], ["lit", "int"]]
        if c < 0.84:
            scols = self.cols_of(scope, "str")
            if scols:
                return ["func", "length", [r.choice(scols)]]
            return ["neg", self.e_int(scope, d - 1)]
        if c < 0.88:
            t = r.choice(["Integer", "BigInteger", "Numeric", "Numeric", "Float"])
            if r.random() < 0.3:
                return ["cast", self.e_int(scope, d - 1), random_composite_type(r, "int")]
            return ["cast", self.e_int(scope, d - 1), (type_arg_variants(t, r) or t) if r.random() < 0.6 else t]
        if c < 0.90:
            return ["bind", self.fresh("bp"), "int", {"callable": True} if r.random() < 0.3 else {}]
        if c < 0.93:
            return ["abind", "int", {"callable": True} if r.random() < 0.5 else {}]
        if c < 0.96 and cols:
            if r.random() < 0.35:
                return ["type_coerce", r.choice(cols), random_composite_type(r, "int")]
            return ["type_coerce", r.choice(cols), r.choice(["Integer", ["Numeric", [10, 0], {}], ["Numeric", [10], {}], ["Float", [], {"asdecimal": True}]])]
        return ["scalar", self.simple_scalar(scope)]

    def e_str(self, scope, d):
        r = self.rng
        cols = self.cols_of(scope, "str")
        c = r.random()
        if d <= 0 or c < 0.4:
            if cols and r.random() < 0.7:
                return r.choice(cols)
            return ["lit", "str"]
        if c < 0.6:
            return ["bin", "||", self.e_str(scope, d - 1), self.e_str(scope, d - 1)]
        if c < 0.8:
            f = r.choice(STR_FUNCS)
            if f == "coalesce":
                return ["func", "coalesce", [self.e_str(scope, d - 1), ["lit", "str"]]]
            return ["func", f, [self.e_str(scope, d - 1)]]
        if c < 0.88:
            t = r.choice(["String", "Text"])
            if r.random() < 0.3:
                return ["cast", self.e_int(scope, d - 1), random_composite_type(r, "str")]
            return ["cast", self.e_int(scope, d - 1), (type_arg_variants(t, r) or t) if r.random() < 0.5 else t]
        if c < 0.93:
            return ["abind", "str", {"callable": True} if r.random() < 0.5 else {}]
        return ["case", [[self.e_bool(scope, d - 1), self.e_str(scope, d - 1)]], ["lit", "str"]]

    def e_bool(self, scope, d):
        r = self.rng
        c = r.random()
        if d <= 0 or c < 0.35:
            if r.random() < 0.75 or not self.cols_of(scope, "str"):
                return ["bin", r.choice(CMP), self.e_int(scope, 0), self.e_int(scope, 0)]
            return ["bin", r.choice(["==", "!="]), self.e_str(scope, 0), self.e_str(scope, 0)]
        if c < 0.5:
            return ["bin", r.choice(BOOLOPS), self.e_bool(scope, d - 1), self.e_bool(scope, d - 1)]
        if c < 0.56:
            return ["not", self.e_bool(scope, d - 1)]
        if c < 0.68:
            return ["in", self.e_int(scope, d - 1), r.randint(1, 4), r.random() < 0.3, "int"]
        if c < 0.74:
            return ["between", self.e_int(scope, d - 1), ["lit", "int"], ["lit", "int"], False]
        if c < 0.80:
            cols = self.cols_of(scope, "int") + self.cols_of(scope, "str")
            if cols:
                return ["isnull", r.choice(cols), r.random() < 0.5]
        if c < 0.86:
            scols = self.cols_of(scope, "str")
            if scols:
                return ["like", r.choice(["like", "ilike", "startswith", "contains"]), r.choice(scols), False]
        if c < 0.90:
            return ["bin", r.choice(CMP), self.e_int(scope, d - 1), self.e_int(scope, d - 1)]
        if c < 0.915:
            plain = [(fk, cm) for fk, cm in scope if fk in TABLE_COLS and cm is TABLE_COLS[fk]]
            if len(scope) == 1 and plain:
                fk, cm = plain[0]
                names = r.sample(sorted(cm), 2)
                kinds = [r.choice([cm[x] if cm[x] != "bool" else "int", "int", "str", "date", "num"]) for x in names]
                return ["tuple_in_untyped", names, kinds, r.randint(1, 3), r.random() < 0.2]
        if c < 0.93:
            return ["exists", self.simple_scalar(scope, exists=True)]
        if c < 0.96:
            return ["bin", r.choice(["is_distinct_from", "is_not_distinct_from"]), self.e_int(scope, 0), self.e_int(scope, 0)]
        bcols = self.cols_of(scope, "bool")
        if bcols:
            return r.choice(bcols)
        return ["in_sub", self.e_int(scope, 0), self.simple_scalar(scope), False]

    def simple_scalar(self, scope, exists=False):
        """a correlated / uncorrelated one-column select over another table alias"""
        r = self.rng
        key = r.choice(["a", "b", "c"])
        name = self.fresh("sq")
        inner_scope = [(name, TABLE_COLS[key])]
        where = [self.e_bool(inner_scope, 0)]
        outer_int = self.cols_of(scope, "int")
        if outer_int and r.random() < 0.5:  # correlate
            where.append(["bin", "==", ["col", name, "id"], r.choice(outer_int)])
        col = ["col", name, "id"] if exists or r.random() < 0.5 else ["func", r.choice(["max", "min", "count"]), [["col", name, "id"]]]
        return {"k": "select", "orm": False, "from": [["alias", key, name]], "cols": [["c", col]], "where": where}

    def e_any(self, scope, d):
        c = self.rng.random()
        if c < 0.6:
            return self.e_int(scope, d), "int"
        if c < 0.9:
            return self.e_str(scope, d), "str"
        return self.e_bool(scope, d), "bool"

    # ---- selects ------------------------------------------------------------------
    def select(self, d=None, orm=None, simple=False, want_names=False):
        r = self.rng
        d = self.depth if d is None else d
        if orm is None:
            orm = r.random() < self.orm_ratio
        spec = {"k": "select", "orm": bool(orm)}
        froms = []
        scope = []
        exported = {}
        base = r.choice(["a", "b", "c"])
        c = r.random()
        if orm:
            if c < 0.75:
                froms.append(["ent", base])
                scope.append((base, TABLE_COLS[base]))
            else:
                nm = self.fresh("al")
                froms.append(["aliased", base, nm])
                scope.append((nm, TABLE_COLS[base]))
        elif simple or c < 0.6:
            froms.append(["table", base])
            scope.append((base, TABLE_COLS[base]))
        elif c < 0.72:
            nm = self.fresh("al")
            froms.append(["alias", base, nm])
            scope.append((nm, TABLE_COLS[base]))
        elif c < 0.86 and d > 0:
            nm = self.fresh("sub")
            inner, cm = self.select(d=d - 1, orm=False, simple=True, want_names=True)
            froms.append(["subq", inner, nm])
            scope.append((nm, cm))
        elif d > 0:
            nm = self.fresh("cte")
            inner, cm = self.select(d=d - 1, orm=False, simple=True, want_names=True)
            flags = {}
            if r.random() < 0.2:
                flags["nesting"] = True
            froms.append(["cte", inner, nm, flags])
            scope.append((nm, cm))
        else:
            froms.append(["table", base])
            scope.append((base, TABLE_COLS[base]))
        spec["from"] = froms
        # joins
        joins = []
        first = froms[0]
        if first[0] in ("table", "ent") and not simple and r.random() < 0.45:
            cands = [j for j in JOINS if j[0] == base]
            if cands:
                lk, rk, lc, rc, rel = r.choice(cands)
                how = r.random()
                j = {"left": base, "right": rk, "on": ["bin", "==", ["col", lk, lc], ["col", rk, rc]],
                     "outer": how < 0.35, "full": how < 0.08}
                if orm and r.random() < 0.5:
                    j["rel"] = rel
                joins.append(j)
                scope.append((rk, TABLE_COLS[rk]))
        spec["joins"] = joins
        # columns
        cols = []
        ncol = r.randint(1, 4)
        if orm and r.random() < 0.6:
            cols.append(["ent", froms[0][1] if froms[0][0] == "ent" else froms[0][2]])
            exported = None
        else:
            for _ in range(ncol):
                if r.random() < 0.55:
                    fk, cm = r.choice(scope)
                    cn = r.choice(sorted(cm))
                    node = ["col", fk, cn]
                    if want_names and cn in (exported or {}):
                        continue
                    cols.append(["c", node])
                    if exported is not None:
                        exported[cn] = cm[cn]
                else:
                    e, t = self.e_any(scope, d)
                    if want_names or r.random() < 0.5:
                        nm = self.fresh("lb")
                        cols.append(["label", nm, e])
                        if exported is not None:
                            exported[nm] = t
                    else:
                        cols.append(["c", e])
            if not cols:
                fk, cm = scope[0]
                cols.append(["c", ["col", fk, "id"]])
                if exported is not None:
                    exported["id"] = "int"
            if not want_names and r.random() < 0.3:
                # an explicitly typed column expression: cast() / type_coerce() to a type with arguments,
                # dialect variants or nested types
                fam = r.choice(["int", "str"])
                src = self.cols_of(scope, fam) or self.cols_of(scope, "int")
                if src:
                    t = random_composite_type(r, fam) if r.random() < 0.65 else random_simple_type(r, fam)
                    cols.append(["label", self.fresh("ty"), [r.choice(["cast", "cast", "type_coerce"]), r.choice(src), t]])
        spec["cols"] = cols
        where = [self.e_bool(scope, d) for _ in range(r.choice([0, 1, 1, 2]))]
        if len(scope) == 1 and scope[0][0] in TABLE_COLS and froms[0][0] == "table" and r.random() < 0.15:
            # tuple IN over untyped column() elements: element types come from the values
            cm = scope[0][1]
            names = r.sample(sorted(cm), 2)
            kinds = [r.choice([cm[x] if cm[x] != "bool" else "int", "int", "str", "date", "num"]) for x in names]
            where.append(["tuple_in_untyped", names, kinds, r.randint(1, 3), r.random() < 0.2])
        if r.random() < 0.3:
            # explicit bind parameter in value or callable form (anonymous or named)
            ic = self.cols_of(scope, "int")
            if ic:
                fl = {"callable": True} if r.random() < 0.5 else {}
                if r.random() < 0.3:
                    fl["type"] = type_arg_variants("Numeric", r)
                elif r.random() < 0.25:
                    fl["type"] = random_composite_type(r, "int")
                b = ["abind", "int", fl] if r.random() < 0.6 else ["bind", self.fresh("bp"), "int", fl]
                where.append(["bin", r.choice(CMP), r.choice(ic), b])
        if orm and froms[0][0] == "ent" and r.random() < 0.2:
            rels = [j for j in JOINS if j[0] == base and j[4] in ("a", "b")]  # many-to-one: rel == instance
            if rels:
                j = r.choice(rels)
                where.append(["rel_eq", base, j[4], ENTITY_OF[j[1]]])
        spec["where"] = where
        is_entity = cols and cols[0][0] == "ent"
        if not is_entity and not want_names and r.random() < 0.18:
            # grouped form: group by plain cols, aggregate the rest
            gcols = [c for c in cols if c[0] == "c" and c[1][0] == "col"]
            if gcols:
                spec["group_by"] = [c[1] for c in gcols]
                fk, cm = scope[0]
                ints = [n for n in sorted(cm) if cm[n] == "int"]
                anyc = "id" if "id" in cm else sorted(cm)[0]
                spec["cols"] = gcols + [["label", self.fresh("ag"), ["func", r.choice(AGG) if ints else "count",
                                                                      [["col", fk, ints[0] if ints else anyc]]]]]
                if r.random() < 0.5:
                    spec["having"] = [["bin", r.choice(CMP), ["func", "count", [["col", fk, anyc]]], ["lit", "int"]]]
        if r.random() < 0.6:
            ob = []
            fk, cm = scope[0]
            if "group_by" in spec:
                ob.append([spec["group_by"][0], r.choice(["asc", "desc"]), None])
            else:
                if r.random() < 0.4:
                    e, _t = self.e_any(scope, 0)
                    ob.append([e, r.choice(["asc", "desc", None]), r.choice([None, None, "first", "last"])])
                if "id" in cm:
                    ob.append([["col", fk, "id"], r.choice(["asc", "desc", None]), None])
            spec["order_by"] = ob
        if r.random() < 0.3:
            spec["limit"] = True
            if r.random() < 0.4:
                spec["offset"] = True
        elif self.rich and r.random() < 0.1:
            spec["fetch"] = {"with_ties": r.random() < 0.3, "percent": r.random() < 0.2}
            if r.random() < 0.5:
                spec["offset"] = True
        if r.random() < 0.15 and "group_by" not in spec:
            spec["distinct"] = True
        if r.random() < 0.08:
            spec["prefixes"] = [[r.choice(["/*p1*/", "/*p2*/"]), "*"]]
        if r.random() < 0.05:
            spec["suffixes"] = [["/*s1*/", "*"]]
        if r.random() < 0.06 and froms[0][0] == "table":
            spec["hints"] = [[froms[0][1], "HINT_%(name)s", r.choice(["*", "oracle", "mssql", "mysql"])]]
        if r.random() < 0.08:
            spec["for_update"] = {}
            if r.random() < 0.5:
                spec["for_update"][r.choice(["nowait", "read", "skip_locked", "key_share"])] = True
        if r.random() < 0.1 and not want_names:
            spec["label_style"] = r.choice(["none", "tablename", "disambiguate"])
        if orm and is_entity:
            opts = []
            ek = froms[0][1]
            if froms[0][0] == "ent":
                rels = [j for j in JOINS if j[0] == ek]
                if rels and r.random() < 0.5:
                    j = r.choice(rels)
                    o = [r.choice(["selectinload", "joinedload", "subqueryload", "lazyload", "noload", "raiseload"]),
                         ENTITY_OF[ek], j[4]]
                    if r.random() < 0.45:
                        # relationship criteria Rel.and_(...) carrying their own bound values
                        fl = {"literal_execute": True} if r.random() < 0.5 else {}
                        rhs = ["abind", "int", fl] if r.random() < 0.7 else ["lit", "int"]
                        o.append(["bin", r.choice(CMP), ["col", j[1], "id"], rhs])
                    opts.append(o)
                if r.random() < 0.25:
                    tgt = r.choice(["a", "b", "c"])
                    opts.append(["loader_criteria", ENTITY_OF[tgt], ["bin", r.choice(CMP), ["col", tgt, "id"], ["lit", "int"]]])
                if r.random() < 0.15:
                    opts.append([r.choice(["defer", "undefer", "load_only"]), ENTITY_OF[ek],
                                 r.choice([c for c in sorted(TABLE_COLS[ek]) if c != "id"])])
            spec["options"] = opts
        if not want_names and r.random() < 0.07:
            spec["params"] = True
        if want_names:
            return spec, (exported or {"id": "int"})
        return spec

    def nested_params(self):
        """a statement whose named parameters get values from .params() on several nesting levels: an embedded
        statement (subquery / CTE / scalar subquery / EXISTS / IN-subquery / compound member / textual subquery)
        gives a value, the enclosing one overrides it, gives another name a value, or leaves it alone; sibling
        embedded statements may also give the same name different values"""
        r = self.rng
        names = ["pv", "pw"]

        def inner(key, alias, name, give=True, extra=None):
            cols = [["c", ["col", alias, "id"]]]
            where = [["bin", r.choice(["<", ">", "!=", "<="]), ["col", alias, r.choice([n for n, t in sorted(TABLE_COLS[key].items()) if t == "int"])],
                      ["bind", name, "int", {"novalue": True} if r.random() < 0.6 else {}]]]
            if extra:
                where.append(extra)
            sp = {"k": "select", "orm": False, "from": [["alias", key, alias]], "joins": [], "cols": cols, "where": where}
            if give:
                sp["params_map"] = {name: "int"}
            return sp

        shape = r.choice(["subq", "cte", "scalar", "exists", "in_sub", "compound", "text_sub", "siblings_from", "siblings_where", "two_level"])
        n1 = r.choice(names)
        n2 = n1 if r.random() < 0.6 else _other(r, names, n1)      # conflicting or not
        okey = r.choice(["a", "b"])
        outer_where = []
        if r.random() < 0.6:   # the enclosing statement uses a named parameter itself
            outer_where.append(["bin", r.choice(["<", ">", "!="]), ["col", okey, "id"], ["bind", n2, "int", {"novalue": True} if r.random() < 0.5 else {}]])
        spec = {"k": "select", "orm": False, "from": [["table", okey]], "joins": [], "cols": [["c", ["col", okey, "id"]]],
                "where": outer_where, "order_by": [[["col", okey, "id"], "asc", None]]}
        ikey = r.choice(["b", "c"])
        if shape in ("subq", "cte"):
            nm = self.fresh("np")
            isp = inner(ikey, self.fresh("ni"), n1)
            spec["from"] = [[shape, isp, nm] + ([{}] if shape == "cte" else [])]
            spec["cols"] = [["c", ["col", nm, "id"]]]
            spec["order_by"] = [[["col", nm, "id"], "asc", None]]
            spec["where"] = [["bin", w[1], ["col", nm, "id"], w[3]] for w in outer_where]
        elif shape == "scalar":
            al = self.fresh("ni")
            isp = inner(ikey, al, n1, extra=["bin", "==", ["col", al, "id"], ["col", okey, "id"]])
            spec["cols"].append(["label", self.fresh("sc"), ["scalar", isp]])
        elif shape == "exists":
            al = self.fresh("ni")
            spec["where"].append(["exists", inner(ikey, al, n1, extra=["bin", "==", ["col", al, "id"], ["col", okey, "id"]])])
        elif shape == "in_sub":
            spec["where"].append(["in_sub", ["col", okey, "id"], inner(ikey, self.fresh("ni"), n1), r.random() < 0.3])
        elif shape == "compound":
            members = [inner(okey, self.fresh("ni"), n1, give=r.random() < 0.8) for _ in range(r.choice([2, 2, 3]))]
            if r.random() < 0.5:
                members[-1]["where"][0][3][1] = n2   # a member using the other / the same name
                if "params_map" in members[-1]:
                    members[-1]["params_map"] = {n2: "int"}
            spec = {"k": "compound", "op": r.choice(["union_all", "union"]), "selects": members}
        elif shape == "text_sub":
            t = {"a": "ta", "b": "tb", "c": "tc"}[ikey]
            spec = {"k": "text", "sql": f"SELECT id FROM {t} WHERE id > :{n1} AND id != :{n2}x ORDER BY id", "binds": [n2 + "x"],
                    "params_map": {n1: "int"}, "columns": [["id", "Integer"]], "wrap": "subquery"}
            if r.random() < 0.7:
                spec["outer_params_map"] = {r.choice([n1, n2 + "x"]): "int"}
            return spec
        elif shape == "siblings_from":
            a1, a2 = self.fresh("np"), self.fresh("np")
            spec["from"] = [["subq", inner(ikey, self.fresh("ni"), n1), a1], [r.choice(["subq", "cte"]), inner(ikey, self.fresh("ni"), n2), a2]]
            if spec["from"][1][0] == "cte":
                spec["from"][1].append({})
            spec["cols"] = [["c", ["col", a1, "id"]], ["label", self.fresh("sb"), ["col", a2, "id"]]]
            spec["where"] = [["bin", "==", ["col", a1, "id"], ["col", a2, "id"]]]
            spec["order_by"] = [[["col", a1, "id"], "asc", None]]
        elif shape == "siblings_where":
            spec["where"].append(["in_sub", ["col", okey, "id"], inner(ikey, self.fresh("ni"), n1), False])
            al = self.fresh("ni")
            spec["where"].append(["exists", inner(ikey, al, n2, extra=["bin", "==", ["col", al, "id"], ["col", okey, "id"]])])
        else:  # two_level: subquery inside a subquery, three levels of .params()
            nm, nm2 = self.fresh("np"), self.fresh("np")
            innermost = inner(ikey, self.fresh("ni"), n1)
            mid = {"k": "select", "orm": False, "from": [["subq", innermost, nm2]], "joins": [], "cols": [["c", ["col", nm2, "id"]]],
                   "where": [["bin", "!=", ["col", nm2, "id"], ["bind", n2, "int", {"novalue": True}]]]}
            if r.random() < 0.7:
                mid["params_map"] = {r.choice([n1, n2]): "int"}
            spec["from"] = [["subq", mid, nm]]
            spec["cols"] = [["c", ["col", nm, "id"]]]
            spec["order_by"] = [[["col", nm, "id"], "asc", None]]
            spec["where"] = [["bin", w[1], ["col", nm, "id"], w[3]] for w in outer_where]
        # the enclosing level: override, give the other name, both, or nothing
        c = r.random()
        if c < 0.4:
            spec["params_map"] = {n1: "int"}
        elif c < 0.6:
            spec["params_map"] = {n2: "int"}
        elif c < 0.8:
            spec["params_map"] = {n1: "int", n2: "int"}
        return spec

    def orm_eager(self):
        """ORM entity select with an eager / lazy loader option whose relationship carries criteria
        (``Rel.and_(...)``) with bound values of every form (plain literal, anonymous bind, literal_execute
        bind, callable bind)"""
        r = self.rng
        lk, rk, lc, rc, rel = r.choice(JOINS)
        scope = [(lk, TABLE_COLS[lk])]
        fl = r.choice([{}, {"literal_execute": True}, {"literal_execute": True}, {"callable": True}])
        rhs = ["abind", "int", fl] if r.random() < 0.8 else ["lit", "int"]
        crit = ["bin", r.choice(CMP), ["col", rk, r.choice([n for n, t in sorted(TABLE_COLS[rk].items()) if t == "int"])], rhs]
        loader = r.choice(["selectinload", "subqueryload", "joinedload", "lazyload", "immediateload"])
        where = []
        c = r.random()
        if c < 0.5:
            where.append(["bin", r.choice(["<", ">", "!=", "=="]), ["col", lk, "id"], ["lit", "posint"]])
        elif c < 0.7:
            where.append(self.e_bool(scope, 1))
        spec = {"k": "select", "orm": True, "from": [["ent", lk]], "joins": [], "cols": [["ent", lk]], "where": where,
                "options": [[loader, ENTITY_OF[lk], rel, crit]], "order_by": [[["col", lk, "id"], "asc", None]]}
        if r.random() < 0.3:
            spec["limit"] = True
        return spec

    def compound(self, d=1):
        r = self.rng
        key = r.choice(["a", "b"])
        n = r.randint(2, 3)
        sels = []
        for _ in range(n):
            scope = [(key, TABLE_COLS[key])]
            sels.append({"k": "select", "orm": False, "from": [["table", key]],
                         "cols": [["c", ["col", key, "id"]], ["label", "v", self.e_int(scope, 1)]],
                         "where": [self.e_bool(scope, d)]})
        spec = {"k": "compound", "op": r.choice(["union", "union_all", "intersect", "except_"]), "selects": sels}
        if r.random() < 0.6:
            spec["order_by"] = [r.choice(["id", "v"]), r.choice(["asc", "desc"])]
        if r.random() < 0.3:
            spec["limit"] = True
        if r.random() < 0.3:
            spec["wrap"] = r.choice(["subquery", "cte"])
        return spec

    def insert(self):
        r = self.rng
        key = r.choice(["a", "b", "c"])
        cm = TABLE_COLS[key]
        spec = {"k": "insert", "table": key}
        c = r.random()
        names = [n for n in sorted(cm) if n != "id"]
        if c < 0.65:
            chosen = [n for n in names if r.random() < 0.6] or names[:1]
            vals = {}
            for n in chosen:
                t = cm[n]
                if t == "int" and r.random() < 0.25:
                    vals[n] = ["bin", "+", ["lit", "int"], ["lit", "int"]]
                elif t == "str" and r.random() < 0.2:
                    vals[n] = ["func", "lower", [["lit", "str"]]]
                elif t == "int" and r.random() < 0.1:
                    vals[n] = ["scalar", self.simple_scalar([])]
                else:
                    vals[n] = ["lit", t]
            spec["values"] = vals
            if r.random() < 0.12:
                spec["multi"] = r.randint(2, 3)
        elif c < 0.8:
            src = key
            scope = [(src, cm)]
            chosen = [n for n in names if r.random() < 0.6] or names[:1]
            sel = {"k": "select", "orm": False, "from": [["table", src]],
                   "cols": [["c", ["col", src, n]] for n in chosen], "where": [self.e_bool(scope, 1)]}
            spec["from_select"] = [chosen, sel]
        else:
            spec["values"] = {}
            spec["param_keys"] = [n for n in names if r.random() < 0.6] or names[:1]
        if r.random() < 0.4:
            spec["returning"] = [["col", key, n] for n in r.sample(sorted(cm), r.randint(1, 2))]
        if r.random() < 0.1:
            spec["inline"] = True
        if r.random() < 0.08:
            spec["prefixes"] = [["/*ip*/", "*"]]
        return spec

    def update(self):
        r = self.rng
        key = r.choice(["a", "b", "c"])
        cm = TABLE_COLS[key]
        scope = [(key, cm)]
        names = [n for n in sorted(cm) if n not in ("id", "a_id", "b_id")]
        vals = {}
        for n in [n for n in names if r.random() < 0.5] or names[:1]:
            t = cm[n]
            if t == "int" and r.random() < 0.5:
                vals[n] = ["bin", r.choice(ARITH), ["col", key, n], ["lit", "int"]]
            elif t == "str" and r.random() < 0.3:
                vals[n] = ["bin", "||", ["col", key, n], ["lit", "str"]]
            else:
                vals[n] = ["lit", t]
        spec = {"k": "update", "table": key, "values": vals, "where": [self.e_bool(scope, 1) for _ in range(r.choice([0, 1, 2]))]}
        if r.random() < 0.4:
            spec["returning"] = [["col", key, n] for n in r.sample(sorted(cm), r.randint(1, 2))]
        if r.random() < 0.15:
            spec["ordered"] = True
        if r.random() < 0.1 and key == "b":
            spec["where"].append(["bin", "==", ["col", "b", "a_id"], ["col", "a", "id"]])  # UPDATE .. FROM
        return spec

    def delete(self):
        r = self.rng
        key = r.choice(["b", "c"])
        cm = TABLE_COLS[key]
        scope = [(key, cm)]
        spec = {"k": "delete", "table": key, "where": [self.e_bool(scope, 1) for _ in range(r.choice([1, 1, 2]))]}
        if r.random() < 0.4:
            spec["returning"] = [["col", key, n] for n in r.sample(sorted(cm), r.randint(1, 2))]
        return spec

    def text(self):
        r = self.rng
        key = r.choice(["a", "b"])
        t = {"a": "ta", "b": "tb"}[key]
        col = {"a": "x", "b": "q"}[key]
        op = r.choice(["<", ">", "<>"])
        spec = {"k": "text", "sql": f"SELECT id, {col} FROM {t} WHERE {col} {op} :p1 AND id > :p2 ORDER BY id",
                "binds": ["p1", "p2"]}
        if r.random() < 0.5:
            spec["columns"] = [["id", "Integer"], [col, random_composite_type(r, "int") if r.random() < 0.35 else
                                                   r.choice(["Integer", ["Numeric", [10], {}], ["Numeric", [10, 0], {}], ["Float", [], {}]])]]
            if r.random() < 0.5:
                spec["wrap"] = "subquery"
        return spec

    def stmt(self, kinds=None):
        r = self.rng
        k = r.choice(kinds or ["select"] * 10 + ["compound"] * 2 + ["insert"] * 3 + ["update"] * 3 + ["delete"] * 2 + ["text"] * 2 + ["nested_params"] * 3
                     + (["orm_eager"] * 3 if self.orm_ratio > 0 else []))
        if k == "select":
            return self.select()
        return getattr(self, k)()


# --------------------------------------------------------------------------------------
# spec -> construct
# --------------------------------------------------------------------------------------
class Builder:
    def __init__(self, env, vals):
        self.env = env
        self.sa = env.sa
        self.vals = vals
        self.named = {}  # explicit bindparam name -> value (for .params / execution)

    # ---- helpers
    def type_(self, t):
        sa = self.sa
        name = type_name(t)
        if name == "with_variant":
            base, variants = t[1]
            typ = self.type_(base)
            for dn, vt in variants:
                typ = typ.with_variant(self.type_(vt), dn)
            return typ
        if name in USER_TYPES or name == "Wrap":
            cls = self.env.custom_types[name]
        else:
            cls = {"Integer": sa.Integer, "String": sa.String, "Float": sa.Float, "Numeric": sa.Numeric,
                   "BigInteger": sa.BigInteger, "Text": sa.Text, "Boolean": sa.Boolean, "Date": sa.Date,
                   "ARRAY": sa.ARRAY, "PickleType": sa.PickleType, "LargeBinary": sa.LargeBinary}[name]
        if isinstance(t, str):
            return cls()
        args = [self.type_(a) if (name in ("ARRAY", "Wrap") and _is_typespec(a)) else a for a in t[1]]
        kw = {k: (self.type_(v) if k == "impl" and _is_typespec(v) else v) for k, v in t[2].items()}
        return cls(*args, **kw)

    def tag_type(self, tag):
        sa = self.sa
        return {"int": sa.Integer, "posint": sa.Integer, "str": sa.String, "float": sa.Float, "num": sa.Numeric,
                "date": sa.Date, "bool": sa.Boolean, "like": sa.String}[tag]()

    def col(self, scope, fk, cn):
        obj = scope[fk]
        c = getattr(obj, "c", None)
        if c is not None and not isinstance(obj, type):
            try:
                return c[cn]
            except KeyError:
                raise Inapplicable(f"no column {fk}.{cn}")
        try:
            return getattr(obj, cn)
        except AttributeError:
            raise Inapplicable(f"no attribute {fk}.{cn}")

    def lit(self, kind):
        return self.vals.next(kind)

    def operand(self, node, scope):
        """like expr() but a bare literal stays a Python value (coerced by its peer)"""
        if node[0] == "lit":
            return self.lit(node[1])
        return self.expr(node, scope)

    def expr(self, node, scope):
        sa = self.sa
        h = node[0]
        if h == "col":
            return self.col(scope, node[1], node[2])
        if h == "lit":
            return sa.literal(self.lit(node[1]), self.tag_type(node[1]))
        if h == "bind":
            _, name, kind, flags = node
            v = self.lit(kind)
            self.named[name] = v
            kw = {}
            if flags.get("literal_execute"):
                kw["literal_execute"] = True
            typ = self.type_(flags["type"]) if flags.get("type") else self.tag_type(kind)
            if flags.get("novalue"):
                # a named parameter without a value of its own: it gets one from .params() / execute()
                self.vals.log.pop()
                self.named.pop(name, None)
                return sa.bindparam(name, type_=typ, **kw)
            if flags.get("callable"):
                # value supplied by a callable evaluated at execution time (the form the ORM lazy loader uses)
                return sa.bindparam(name, callable_=(lambda v=v: v), type_=typ, **kw)
            if flags.get("notype"):
                return sa.bindparam(name, v, **kw)
            return sa.bindparam(name, v, type_=typ, **kw)
        if h == "abind":
            # anonymous (unique) bind parameter, value form or callable form: both forms of one statement
            # shape share a cache key
            _, kind, flags = node
            v = self.lit(kind)
            typ = self.type_(flags["type"]) if flags.get("type") else self.tag_type(kind)
            kw = {"literal_execute": True} if flags.get("literal_execute") else {}
            if flags.get("callable"):
                return sa.bindparam(None, callable_=(lambda v=v: v), type_=typ, **kw)
            return sa.bindparam(None, v, type_=typ, **kw)
        if h == "rel_eq":
            # relationship == instance: the ORM renders bind parameters whose callables read the instance
            _, fk, rel, target = node
            ent = scope[fk]
            try:
                attr = getattr(ent, rel)
            except AttributeError:
                raise Inapplicable(f"no relationship {fk}.{rel}")
            obj = self.env.entities[target]()
            obj.id = self.lit("posint")
            return attr == obj
        if h == "bin":
            _, op, l, r = node
            if op in ("and", "or"):
                le, re_ = self.expr(l, scope), self.expr(r, scope)
                return sa.and_(le, re_) if op == "and" else sa.or_(le, re_)
            le = self.expr(l, scope)
            ro = self.operand(r, scope)
            if op == "+":
                return le + ro
            if op == "-":
                return le - ro
            if op == "*":
                return le * ro
            if op == "/":
                return le / ro
            if op == "%":
                return le % ro
            if op == "||":
                return le.concat(ro)
            if op == "==":
                return le == ro
            if op == "!=":
                return le != ro
            if op == "<":
                return le < ro
            if op == "<=":
                return le <= ro
            if op == ">":
                return le > ro
            if op == ">=":
                return le >= ro
            if op == "is_distinct_from":
                return le.is_distinct_from(ro)
            if op == "is_not_distinct_from":
                return le.is_not_distinct_from(ro)
            raise KeyError(op)
        if h == "not":
            return sa.not_(self.expr(node[1], scope))
        if h == "neg":
            return -self.expr(node[1], scope)
        if h == "in":
            _, e, n, neg, kind = node
            le = self.expr(e, scope)
            vals = [self.lit(kind) for _ in range(n)]
            return le.not_in(vals) if neg else le.in_(vals)
        if h == "in_sub":
            _, e, sub, neg = node
            le = self.expr(e, scope)
            s = self.select(sub, scope)
            return le.not_in(s) if neg else le.in_(s)
        if h == "between":
            _, e, lo, hi, sym = node
            return self.expr(e, scope).between(self.operand(lo, scope), self.operand(hi, scope), symmetric=bool(sym))
        if h == "isnull":
            e = self.expr(node[1], scope)
            return e.is_not(None) if node[2] else e.is_(None)
        if h == "like":
            _, how, e, auto = node
            le = self.expr(e, scope)
            if how == "like":
                return le.like(self.lit("like"))
            if how == "ilike":
                return le.ilike(self.lit("like"))
            if how == "startswith":
                return le.startswith(self.lit("str")[:2], autoescape=bool(auto))
            if how == "endswith":
                return le.endswith(self.lit("str")[-2:], autoescape=bool(auto))
            return le.contains(self.lit("str")[1:3], autoescape=bool(auto))
        if h == "case":
            _, whens, else_ = node
            ws = [(self.expr(c, scope), self.operand(v, scope)) for c, v in whens]
            return sa.case(*ws, else_=self.operand(else_, scope) if else_ is not None else None)
        if h == "cast":
            return sa.cast(self.expr(node[1], scope), self.type_(node[2]))
        if h == "type_coerce":
            return sa.type_coerce(self.expr(node[1], scope), self.type_(node[2]))
        if h == "func":
            _, name, args = node
            return getattr(sa.func, name)(*[self.expr(a, scope) for a in args])
        if h == "label":
            return self.expr(node[2], scope).label(node[1])
        if h == "scalar":
            return self.select(node[1], scope).scalar_subquery()
        if h == "exists":
            return self.select(node[1], scope).exists()
        if h == "over":
            _, f, part, order = node
            return self.expr(f, scope).over(
                partition_by=[self.expr(p, scope) for p in part] or None,
                order_by=[self.expr(o, scope) for o in order] or None)
        if h == "filter":
            return self.expr(node[1], scope).filter(self.expr(node[2], scope))
        if h == "textfrag":
            return sa.text(node[1])
        if h == "literal_column":
            return sa.literal_column(node[1])
        if h == "null":
            return sa.null()
        if h == "true":
            return sa.true()
        if h == "false":
            return sa.false()
        if h == "tuple_in_untyped":
            # tuple_() of lightweight, *untyped* column() elements against a list of tuples: the element types of
            # the IN parameter are inferred from the Python values
            _, names, kinds, n, neg = node
            tup = sa.tuple_(*[sa.column(x) for x in names])
            vals = [tuple(self.lit(k) for k in kinds) for _ in range(n)]
            return tup.not_in(vals) if neg else tup.in_(vals)
        if h == "tuple_in":
            _, es, n = node
            tup = sa.tuple_(*[self.expr(e, scope) for e in es])
            return tup.in_([tuple(self.lit("int") for _ in es) for _ in range(n)])
        if h == "collate":
            return sa.collate(self.expr(node[1], scope), node[2])
        if h == "extract":
            return sa.extract(node[1], self.expr(node[2], scope))
        if h == "any":
            _, e, sub = node
            return self.expr(e, scope) == sa.any_(self.select(sub, scope).scalar_subquery())
        if h == "custom_op":
            return self.expr(node[2], scope).op(node[1])(self.operand(node[3], scope))
        if h == "bool_op":
            return self.expr(node[2], scope).bool_op(node[1])(self.operand(node[3], scope))
        raise KeyError(f"unknown expr node {h}")

    # ---- FROM items
    def from_item(self, item, outer_scope):
        env = self.env
        h = item[0]
        if h == "table":
            return item[1], env.tables[item[1]]
        if h == "alias":
            return item[2], alias_of(env, "alias", item[1], item[2])
        if h == "ent":
            return item[1], env.entities[ENTITY_OF[item[1]]]
        if h == "aliased":
            return item[2], alias_of(env, "aliased", item[1], item[2])
        if h == "subq":
            return item[2], self.select(item[1], outer_scope).subquery(item[2])
        if h == "cte":
            flags = item[3] if len(item) > 3 else {}
            s = self.select(item[1], outer_scope)
            return item[2], s.cte(item[2], nesting=bool(flags.get("nesting")), recursive=bool(flags.get("recursive")))
        if h == "lateral":
            return item[2], self.select(item[1], outer_scope).lateral(item[2])
        raise KeyError(h)

    def select(self, spec, outer_scope=None):
        sa = self.sa
        if spec["k"] == "compound":
            return self.compound(spec)
        scope = dict(outer_scope or {})
        froms = []
        for item in spec["from"]:
            k, obj = self.from_item(item, outer_scope)
            scope[k] = obj
            froms.append((k, obj))
        for j in spec.get("joins", ()):
            rk = j["right"]
            if spec.get("orm"):
                scope[rk] = self.env.entities[ENTITY_OF[rk]]
            else:
                scope[rk] = self.env.tables[rk]
        cols = []
        for c in spec["cols"]:
            if c[0] == "ent":
                cols.append(scope[c[1]])
            elif c[0] == "label":
                cols.append(self.expr(c[2], scope).label(c[1]))
            else:
                cols.append(self.expr(c[1], scope))
        s = sa.select(*cols)
        if spec.get("joins") or any(c[0] != "ent" for c in spec["cols"]):
            if not spec.get("joins") and len(froms) == 1 and froms[0][1] is not None and spec["from"][0][0] in ("subq", "cte", "alias", "aliased"):
                s = s.select_from(froms[0][1])
        for j in spec.get("joins", ()):
            right = scope[j["right"]]
            if j.get("rel") and spec.get("orm"):
                target = getattr(scope[j["left"]], j["rel"])
                s = s.select_from(scope[j["left"]]).join(target, isouter=j.get("outer", False), full=j.get("full", False))
            else:
                on = self.expr(j["on"], scope) if j.get("on") is not None else None
                s = s.select_from(scope[j["left"]]).join(right, on, isouter=j.get("outer", False), full=j.get("full", False))
        for w in spec.get("where", ()):
            s = s.where(self.expr(w, scope))
        if spec.get("group_by"):
            s = s.group_by(*[self.expr(g, scope) for g in spec["group_by"]])
        for hv in spec.get("having", ()):
            s = s.having(self.expr(hv, scope))
        if spec.get("order_by"):
            obs = []
            for e, direction, nulls in spec["order_by"]:
                x = self.expr(e, scope)
                if direction == "asc":
                    x = x.asc()
                elif direction == "desc":
                    x = x.desc()
                if nulls == "first":
                    x = x.nulls_first()
                elif nulls == "last":
                    x = x.nulls_last()
                obs.append(x)
            s = s.order_by(*obs)
        if spec.get("limit"):
            s = s.limit(self.lit("posint"))
        if spec.get("offset"):
            s = s.offset(self.lit("posint"))
        if spec.get("fetch") is not None:
            f = spec["fetch"]
            s = s.fetch(self.lit("posint"), with_ties=bool(f.get("with_ties")), percent=bool(f.get("percent")))
        d = spec.get("distinct")
        if d is True:
            s = s.distinct()
        elif d:
            from sqlalchemy.dialects.postgresql import distinct_on  # 2.1 extension form

            s = s.ext(distinct_on(*[self.expr(e, scope) for e in d]))
        for p, dn in spec.get("prefixes", ()):
            s = s.prefix_with(p, dialect=dn)
        for p, dn in spec.get("suffixes", ()):
            s = s.suffix_with(p, dialect=dn)
        for fk, text, dn in spec.get("hints", ()):
            s = s.with_hint(scope[fk], text, dn)
        for text, dn in spec.get("statement_hints", ()):
            s = s.with_statement_hint(text, dn)
        fu = spec.get("for_update")
        if fu is not None:
            kw = {k: True for k in ("nowait", "read", "skip_locked", "key_share") if fu.get(k)}
            if fu.get("of"):
                kw["of"] = scope[fu["of"]]
            s = s.with_for_update(**kw)
        ls = spec.get("label_style")
        if ls:
            s = s.set_label_style({"none": sa.LABEL_STYLE_NONE, "tablename": sa.LABEL_STYLE_TABLENAME_PLUS_COL,
                                   "disambiguate": sa.LABEL_STYLE_DISAMBIGUATE_ONLY}[ls])
        for cor in spec.get("correlate", ()):
            s = s.correlate(scope[cor]) if cor in scope else s
        if spec.get("options"):
            s = s.options(*[self.option(o, scope) for o in spec["options"]])
        if spec.get("exec_opts"):
            s = s.execution_options(**spec["exec_opts"])
        if spec.get("params") and self.named:
            s = s.params(**{k: self.lit("int") for k in sorted(self.named)})
        if spec.get("params_map"):
            # .params() on *this* nesting level (inner statements may carry their own, also for the same names)
            s = s.params(**{k: self.lit(kind) for k, kind in sorted(spec["params_map"].items())})
        return s

    def option(self, o, scope):
        orm = self.env.orm
        ents = self.env.entities
        h = o[0]
        if h in ("selectinload", "joinedload", "subqueryload", "lazyload", "noload", "raiseload", "immediateload",
                 "defaultload", "contains_eager"):
            attr = getattr(ents[o[1]], o[2])
            if len(o) > 3 and o[3] is not None:
                tkey = [j[1] for j in JOINS if ENTITY_OF[j[0]] == o[1] and j[4] == o[2]][0]
                attr = attr.and_(self.expr(o[3], {tkey: ents[ENTITY_OF[tkey]]}))
            return getattr(orm, h)(attr)
        if h in ("defer", "undefer", "load_only"):
            return getattr(orm, h)(getattr(ents[o[1]], o[2]))
        if h == "loader_criteria":
            ent = ents[o[1]]
            key = {v: k for k, v in ENTITY_OF.items()}[o[1]]
            crit = self.expr(o[2], {key: ent})
            return orm.with_loader_criteria(ent, crit, include_aliases=bool(o[3]) if len(o) > 3 else False)
        raise KeyError(h)

    def compound(self, spec):
        sa = self.sa
        sels = [self.select(s) for s in spec["selects"]]
        u = getattr(sa, spec["op"])(*sels)
        if spec.get("order_by"):
            name, direction = spec["order_by"]
            try:
                c = u.selected_columns[name]
            except KeyError:
                raise Inapplicable(f"compound has no column {name}")
            u = u.order_by(c.desc() if direction == "desc" else c.asc())
        if spec.get("limit"):
            u = u.limit(self.lit("posint"))
        if spec.get("params_map"):
            u = u.params(**{k: self.lit(kind) for k, kind in sorted(spec["params_map"].items())})
        w = spec.get("wrap")
        if w and ("id" not in u.selected_columns or "v" not in u.selected_columns):
            raise Inapplicable("compound columns renamed")
        if w == "subquery":
            sq = u.subquery("u1")
            return sa.select(sq.c.id, sq.c.v).where(sq.c.v != self.lit("int")).order_by(sq.c.id, sq.c.v)
        if w == "cte":
            ct = u.cte("u2")
            return sa.select(ct.c.id, ct.c.v).where(ct.c.v != self.lit("int")).order_by(ct.c.id, ct.c.v)
        return u

    def dml_common(self, s, spec, scope):
        if spec.get("returning"):
            s = s.returning(*[self.expr(e, scope) for e in spec["returning"]])
        for p, dn in spec.get("prefixes", ()):
            s = s.prefix_with(p, dialect=dn)
        if spec.get("exec_opts"):
            s = s.execution_options(**spec["exec_opts"])
        return s

    def insert(self, spec):
        sa = self.sa
        key = spec["table"]
        t = self.env.tables[key]
        scope = {key: t}
        flavor = spec.get("flavor")
        if flavor == "postgresql":
            from sqlalchemy.dialects.postgresql import insert as ins
        elif flavor == "sqlite":
            from sqlalchemy.dialects.sqlite import insert as ins
        elif flavor == "mysql":
            from sqlalchemy.dialects.mysql import insert as ins
        else:
            ins = sa.insert
        s = ins(t)
        if spec.get("from_select"):
            names, sel = spec["from_select"]
            s = s.from_select(names, self.select(sel))
        elif spec.get("multi"):
            rows = []
            for _ in range(spec["multi"]):
                rows.append({n: self.operand(e, scope) for n, e in spec["values"].items()})
            s = s.values(rows)
        elif spec.get("values"):
            s = s.values({n: self.operand(e, scope) for n, e in spec["values"].items()})
        if spec.get("inline"):
            s = s.inline()
        up = spec.get("upsert")
        if up:
            s = self.upsert(s, up, t, scope)
        return self.dml_common(s, spec, scope)

    def upsert(self, s, up, t, scope):
        how = up["how"]
        if how == "do_nothing":
            kw = {}
            if up.get("index_elements"):
                kw["index_elements"] = [t.c[n] for n in up["index_elements"]]
            return s.on_conflict_do_nothing(**kw)
        if how == "do_update":
            set_ = {}
            for n, src in up["set"].items():
                set_[n] = s.excluded[n] if src == "excluded" else self.operand(src, scope)
            kw = {"index_elements": [t.c[n] for n in up.get("index_elements", ["id"])], "set_": set_}
            if up.get("where") is not None:
                kw["where"] = self.expr(up["where"], scope)
            return s.on_conflict_do_update(**kw)
        if how == "on_duplicate":
            set_ = {}
            for n, src in up["set"].items():
                set_[n] = s.inserted[n] if src == "excluded" else self.operand(src, scope)
            return s.on_duplicate_key_update(**set_)
        raise KeyError(how)

    def update(self, spec):
        sa = self.sa
        key = spec["table"]
        t = self.env.tables[key]
        scope = dict(self.env.tables)
        s = sa.update(t)
        for w in spec.get("where", ()):
            s = s.where(self.expr(w, scope))
        vals = [(t.c[n], self.operand(e, scope)) for n, e in spec["values"].items()]
        if spec.get("ordered"):
            s = s.ordered_values(*vals)
        else:
            s = s.values({c.key: v for c, v in vals})
        return self.dml_common(s, spec, scope)

    def delete(self, spec):
        sa = self.sa
        key = spec["table"]
        t = self.env.tables[key]
        scope = dict(self.env.tables)
        s = sa.delete(t)
        for w in spec.get("where", ()):
            s = s.where(self.expr(w, scope))
        return self.dml_common(s, spec, scope)

    def text(self, spec):
        sa = self.sa
        s = sa.text(spec["sql"])
        if spec.get("binds"):
            s = s.bindparams(**{n: self.lit("int") for n in spec["binds"]})
        if spec.get("params_map"):
            s = s.params(**{k: self.lit(kind) for k, kind in sorted(spec["params_map"].items())})
        if spec.get("columns"):
            s = s.columns(*[sa.column(n, self.type_(t)) for n, t in spec["columns"]])
            if spec.get("wrap") == "subquery":
                sq = s.subquery("tx")
                out = sa.select(sq).where(sq.c.id != self.lit("int")).order_by(sq.c.id)
                if spec.get("outer_params_map"):
                    out = out.params(**{k: self.lit(kind) for k, kind in sorted(spec["outer_params_map"].items())})
                return out
        return s

    def build(self, spec):
        k = spec["k"]
        if k == "select":
            return self.select(spec)
        return getattr(self, k)(spec)


def build(env, spec, vals=None):
    b = Builder(env, vals or Vals(0))
    try:
        stmt = b.build(spec)
    except NotImplementedError as e:
        # the library refuses the construct when it is BUILT, with its documented message
        # (e.g. "ARRAY.contains() not implemented for the base ARRAY type"): not a statement
        raise Inapplicable(str(e)) from e
    return stmt, b


def exec_params(spec, vals):
    """parameters to pass at execution time for specs that declare ``param_keys``"""
    if spec.get("param_keys"):
        kinds = TABLE_COLS[spec["table"]]
        return {n: vals.next(kinds[n]) for n in spec["param_keys"]}
    return None


# --------------------------------------------------------------------------------------
# perturbation operator
# --------------------------------------------------------------------------------------
def _walk(node, path=()):
    """yield (path, node) for every dict / head-tagged list inside a spec"""
    if isinstance(node, dict):
        yield path, node
        for k in sorted(node):
            yield from _walk(node[k], path + (k,))
    elif isinstance(node, list):
        if node and isinstance(node[0], str):
            yield path, node
        for i, x in enumerate(node):
            if isinstance(x, (list, dict)):
                yield from _walk(x, path + (i,))


def _set(spec, path, value):
    new = copy.deepcopy(spec)
    if not path:
        return copy.deepcopy(value)
    cur = new
    for p in path[:-1]:
        cur = cur[p]
    cur[path[-1]] = copy.deepcopy(value)
    return new


def _other(rng, seq, cur):
    c = [x for x in seq if x != cur]
    return rng.choice(c)


def _frommap(spec):
    """fromkey -> table key for plain tables / aliases / entities named in a spec"""
    m = {k: k for k in TABLE_COLS}
    for _p, node in _walk(spec):
        if isinstance(node, list) and node[0] in ("alias", "aliased") and len(node) >= 3:
            m[node[2]] = node[1]
    return m


def _node_mutations(node, rng, frommap=None, top=True):
    """(tag, replacement) candidates for one node; each changes exactly one attribute"""
    out = []
    if isinstance(node, list):
        h = node[0]
        if h == "bin":
            op = node[1]
            for fam in (ARITH, CMP, BOOLOPS, ["is_distinct_from", "is_not_distinct_from"]):
                if op in fam and len(fam) > 1:
                    out.append(("op", ["bin", _other(rng, fam, op), node[2], node[3]]))
            if op in ARITH + CMP:
                out.append(("operand_swap", ["bin", op, node[3], node[2]]) if node[3][0] != "lit" else ("op", ["bin", op, node[2], node[3]]))
        elif h == "lit":
            alt = {"int": "float", "float": "int", "str": "like", "num": "int"}.get(node[1])
            if alt:
                out.append(("littype", ["lit", alt]))
        elif h == "in":
            out.append(("inlen", ["in", node[1], node[2] + 1, node[3], node[4]]))
            out.append(("negate", ["in", node[1], node[2], not node[3], node[4]]))
        elif h == "tuple_in_untyped":
            kinds = list(node[2])
            i = rng.randrange(len(kinds))
            kinds[i] = _other(rng, ["int", "str", "date", "num", "float"], kinds[i])
            out.append(("tuplekinds", ["tuple_in_untyped", node[1], kinds, node[3], node[4]]))
            out.append(("inlen", ["tuple_in_untyped", node[1], node[2], node[3] + 1, node[4]]))
        elif h == "between":
            out.append(("symmetric", ["between", node[1], node[2], node[3], not node[4]]))
        elif h == "isnull":
            out.append(("negate", ["isnull", node[1], not node[2]]))
        elif h == "like":
            out.append(("likekind", ["like", _other(rng, ["like", "ilike", "startswith", "contains", "endswith"], node[1]), node[2], node[3]]))
            if node[1] in ("startswith", "contains", "endswith"):
                out.append(("autoescape", ["like", node[1], node[2], not node[3]]))
        elif h == "func":
            fam = None
            for f in (["lower", "upper"], ["max", "min", "sum", "count"], ["abs", "length"]):
                if node[1] in f:
                    fam = f
            if fam and node[1] not in ("length", "abs"):
                out.append(("func", ["func", _other(rng, fam, node[1]), node[2]]))
        elif h == "label":
            out.append(("labelname", ["label", node[1] + "z", node[2]]))
        elif h == "cast":
            out.append(("casttype", ["cast", node[1], _other(rng, CAST_TYPES, type_name(node[2]))]))
            if type_name(node[2]) not in COMPOSITE_TYPES + USER_TYPES:
                out.append(("typewrap", ["cast", node[1], normalize_type(rng.choice([
                    ["with_variant", [node[2], [[rng.choice(VARIANT_DIALECTS), random_simple_type(rng, "int")]]], {}],
                    ["ARRAY", [node[2]], {}], ["Wrap", [node[2]], {}]]))]))
            alt = type_arg_variants(node[2], rng)
            if alt:
                out.append(("typearg", ["cast", node[1], alt]))
        elif h == "type_coerce":
            out.append(("casttype", ["type_coerce", node[1], _other(rng, ["Integer", "Float", "Numeric"], type_name(node[2]))]))
            alt = type_arg_variants(node[2], rng)
            if alt:
                out.append(("typearg", ["type_coerce", node[1], alt]))
        elif h == "col":
            fk, cn = node[1], node[2]
            key = (frommap or {}).get(fk)
            cm = TABLE_COLS.get(key)
            if cm and cn in cm:
                same = [n for n, t in cm.items() if t == cm[cn] and n != cn]
                if same:
                    out.append(("colswap", ["col", fk, rng.choice(sorted(same))]))
        elif h == "bind":
            fl = dict(node[3])
            fl["literal_execute"] = not fl.get("literal_execute")
            out.append(("bindflag", ["bind", node[1], node[2], fl]))
            fl2 = dict(node[3])
            fl2["notype"] = not fl2.get("notype")
            out.append(("bindtype", ["bind", node[1], node[2], fl2]))
            out.append(("bindname", ["bind", node[1] + "q", node[2], node[3]]))
            fl3 = dict(node[3])
            fl3["callable"] = not fl3.get("callable")
            fl3.pop("notype", None)
            out.append(("bindcallable", ["bind", node[1], node[2], fl3]))
            alt = type_arg_variants(node[3].get("type") or {"int": "Numeric", "str": "String", "float": "Float"}.get(node[2], "Numeric"), rng)
            if alt and not node[3].get("notype"):
                fl4 = dict(node[3])
                fl4["type"] = alt
                out.append(("typearg", ["bind", node[1], node[2], fl4]))
        elif h == "abind":
            fl = dict(node[2])
            fl["callable"] = not fl.get("callable")
            out.append(("bindcallable", ["abind", node[1], fl]))
            alt = type_arg_variants(node[2].get("type") or {"int": "Numeric", "str": "String", "float": "Float"}.get(node[1], "Numeric"), rng)
            if alt:
                fl4 = dict(node[2])
                fl4["type"] = alt
                out.append(("typearg", ["abind", node[1], fl4]))
            fl5 = dict(node[2])
            fl5["literal_execute"] = not fl5.get("literal_execute")
            out.append(("bindflag", ["abind", node[1], fl5]))
            out.append(("littype", ["abind", {"int": "float", "str": "like", "float": "int"}.get(node[1], "int"), node[2]]))
        elif h == "not":
            out.append(("unwrap_not", node[1]))
        elif h == "neg":
            out.append(("unwrap_neg", node[1]))
        elif h in ("selectinload", "joinedload", "subqueryload", "lazyload", "noload", "raiseload", "immediateload"):
            out.append(("loader", [_other(rng, ["selectinload", "joinedload", "subqueryload", "lazyload", "raiseload"], h)] + node[1:]))
            if len(node) > 3:
                out.append(("criteria_drop", node[:3]))
        elif h in ("defer", "undefer", "load_only"):
            out.append(("colopt", [_other(rng, ["defer", "undefer", "load_only"], h)] + node[1:]))
        elif h == "loader_criteria":
            out.append(("lc_aliases", node[:3] + [not (node[3] if len(node) > 3 else False)]))
        elif h == "cte":
            fl = dict(node[3]) if len(node) > 3 else {}
            fl["nesting"] = not fl.get("nesting")
            out.append(("cte_nesting", node[:3] + [fl]))
            out.append(("cte_to_subq", ["subq", node[1], node[2]]))
        elif h == "subq":
            out.append(("subq_to_cte", ["cte", node[1], node[2], {}]))
    elif isinstance(node, dict):
        k = node.get("k")
        if node.get("params_map") is not None and k in ("select", "compound", "text"):
            pm = node["params_map"]
            n = dict(node)
            n.pop("params_map")
            out.append(("params_level_drop", n))
            n = dict(node)
            n["params_map"] = dict(pm, **{("pw" if "pv" in pm else "pv"): "int"})
            out.append(("params_level_name", n))
        elif k in ("select", "compound") and not top and rng.random() < 0.5:
            n = dict(node)
            n["params_map"] = {rng.choice(["pv", "pw"]): "int"}
            out.append(("params_level_add", n))
        if k == "select":
            def w(tag, **kv):
                n = dict(node)
                for a, b in kv.items():
                    if b is None:
                        n.pop(a, None)
                    else:
                        n[a] = b
                out.append((tag, n))

            w("distinct", distinct=None if node.get("distinct") else True)
            w("limit_presence", limit=None if node.get("limit") else True)
            w("offset_presence", offset=None if node.get("offset") else True)
            if node.get("fetch") is not None:
                f = dict(node["fetch"])
                f["with_ties"] = not f.get("with_ties")
                w("fetch_with_ties", fetch=f)
                f = dict(node["fetch"])
                f["percent"] = not f.get("percent")
                w("fetch_percent", fetch=f)
            if node.get("prefixes"):
                w("prefix_text", prefixes=[[node["prefixes"][0][0] + "x", node["prefixes"][0][1]]])
                w("prefix_dialect", prefixes=[[node["prefixes"][0][0], _other(rng, ["*", "mysql", "sqlite"], node["prefixes"][0][1])]])
                w("prefix_drop", prefixes=None)
            else:
                w("prefix_add", prefixes=[["/*pa*/", "*"]])
            if node.get("suffixes"):
                w("suffix_text", suffixes=[[node["suffixes"][0][0] + "x", "*"]])
            else:
                w("suffix_add", suffixes=[["/*sa*/", "*"]])
            if node.get("hints"):
                hh = node["hints"][0]
                w("hint_text", hints=[[hh[0], hh[1] + "_2", hh[2]]])
                w("hint_dialect", hints=[[hh[0], hh[1], _other(rng, ["*", "oracle", "mssql", "mysql"], hh[2])]])
            elif node["from"][0][0] == "table":
                w("hint_add", hints=[[node["from"][0][1], "HINTA", "*"]])
            if node.get("statement_hints"):
                w("stmt_hint_text", statement_hints=[[node["statement_hints"][0][0] + "2", "*"]])
            else:
                w("stmt_hint_add", statement_hints=[["STMTHINT", "*"]])
            fu = node.get("for_update")
            if fu is None:
                w("for_update", for_update={})
            else:
                w("for_update", for_update=None)
                for flag in ("nowait", "read", "skip_locked", "key_share"):
                    f2 = dict(fu)
                    f2[flag] = not f2.get(flag)
                    w("for_update_" + flag, for_update=f2)
                if node["from"][0][0] == "table":
                    f2 = dict(fu)
                    f2["of"] = None if fu.get("of") else node["from"][0][1]
                    w("for_update_of", for_update=f2)
            if len(node["cols"]) >= 2:
                cc = list(node["cols"])
                cc[0], cc[1] = cc[1], cc[0]
                if cc != node["cols"]:
                    w("col_order", cols=cc)
            if node.get("joins"):
                j = dict(node["joins"][0])
                j["outer"] = not j.get("outer")
                w("join_outer", joins=[j] + node["joins"][1:])
                j = dict(node["joins"][0])
                j["full"] = not j.get("full")
                w("join_full", joins=[j] + node["joins"][1:])
            if node.get("order_by"):
                ob = copy.deepcopy(node["order_by"])
                ob[0][1] = _other(rng, ["asc", "desc", None], ob[0][1])
                w("order_dir", order_by=ob)
                ob = copy.deepcopy(node["order_by"])
                ob[0][2] = _other(rng, ["first", "last", None], ob[0][2])
                w("order_nulls", order_by=ob)
                if len(node["order_by"]) > 1:
                    w("order_swap", order_by=list(reversed(node["order_by"])))
            if top:
                w("label_style", label_style=_other(rng, ["none", "tablename", "disambiguate", None], node.get("label_style")))
            if node.get("where"):
                w("where_drop", where=node["where"][1:])
                if len(node["where"]) > 1:
                    w("where_swap", where=list(reversed(node["where"])))
            if node.get("having"):
                w("having_drop", having=None)
            if node.get("options"):
                w("option_drop", options=node["options"][1:])
            w("params", params=None if node.get("params") else True)
        elif k == "compound":
            n = dict(node)
            n["op"] = _other(rng, ["union", "union_all", "intersect", "except_", "intersect_all", "except_all"], node["op"])
            out.append(("compound_op", n))
            n = dict(node)
            if n.get("limit"):
                n.pop("limit")
            else:
                n["limit"] = True
            out.append(("limit_presence", n))
            if node.get("order_by"):
                n = dict(node)
                n["order_by"] = [node["order_by"][0], _other(rng, ["asc", "desc"], node["order_by"][1])]
                out.append(("order_dir", n))
            n = dict(node)
            n["selects"] = list(reversed(node["selects"]))
            out.append(("select_order", n))
        elif k in ("insert", "update", "delete"):
            key = node["table"]
            n = dict(node)
            if n.get("returning"):
                n.pop("returning")
                out.append(("returning_drop", n))
                n2 = dict(node)
                n2["returning"] = list(reversed(node["returning"])) if len(node["returning"]) > 1 else node["returning"] + [["col", key, "id"]]
                out.append(("returning_cols", n2))
            else:
                n["returning"] = [["col", key, "id"]]
                out.append(("returning_add", n))
            if k == "insert":
                n = dict(node)
                n["inline"] = not node.get("inline")
                out.append(("inline", n))
                if node.get("values") and len(node["values"]) > 1:
                    n = dict(node)
                    vv = dict(node["values"])
                    vv.pop(sorted(vv)[0])
                    n["values"] = vv
                    out.append(("values_cols", n))
                n = dict(node)
                if n.get("prefixes"):
                    n.pop("prefixes")
                else:
                    n["prefixes"] = [["/*ipa*/", "*"]]
                out.append(("prefix_add", n))
                if node.get("param_keys"):
                    names = [x for x in sorted(TABLE_COLS[key]) if x != "id"]
                    n = dict(node)
                    if len(node["param_keys"]) > 1:
                        n["param_keys"] = node["param_keys"][1:]
                    else:
                        n["param_keys"] = sorted(set(node["param_keys"]) | {_other(rng, names, node["param_keys"][0])})
                    out.append(("param_keys", n))
            if k == "update":
                n = dict(node)
                n["ordered"] = not node.get("ordered")
                out.append(("ordered_values", n))
                if len(node["values"]) > 1:
                    n = dict(node)
                    vv = dict(node["values"])
                    vv.pop(sorted(vv)[0])
                    n["values"] = vv
                    out.append(("values_cols", n))
            if k in ("update", "delete") and node.get("where"):
                n = dict(node)
                n["where"] = node["where"][1:]
                out.append(("where_drop", n))
        elif k == "text":
            n = dict(node)
            n["sql"] = node["sql"].replace("ORDER BY id", "ORDER BY id DESC") if "DESC" not in node["sql"] else node["sql"].replace(" DESC", "")
            out.append(("text_sql", n))
            if node.get("columns"):
                n = dict(node)
                n["columns"] = [[node["columns"][0][0], _other(rng, ["Integer", "BigInteger", "String"], type_name(node["columns"][0][1]))]] + node["columns"][1:]
                out.append(("text_coltype", n))
                last = node["columns"][-1]
                alt = type_arg_variants(last[1] if not isinstance(last[1], str) or last[1] in ("Numeric", "Float", "String") else "Numeric", rng)
                if alt:
                    n = dict(node)
                    n["columns"] = node["columns"][:-1] + [[last[0], alt]]
                    out.append(("typearg", n))
    return out


def perturb(spec, rng, n=8, prefer=("tuplekinds", "params_level_drop", "params_level_name", "typearg", "typewrap", "bindcallable", "param_keys", "bindflag", "for_update_skip_locked", "prefix_dialect", "inlen")):
    """up to ``n`` (tag, spec') near-copies, each differing from ``spec`` in one attribute;
    rare tags listed in ``prefer`` are taken first when available"""
    cands = []
    fm = _frommap(spec)
    for path, node in _walk(spec):
        for tag, repl in _node_mutations(node, rng, fm, top=not path):
            if repl != node:
                cands.append((tag, path, repl))
    rng.shuffle(cands)
    out = []
    seen_tags = {}
    # prefer tag diversity
    cands.sort(key=lambda c: seen_tags.setdefault(c[0], len(seen_tags)))
    by_tag = {}
    for c in cands:
        by_tag.setdefault(c[0], []).append(c)
    tags = list(by_tag)
    rng.shuffle(tags)
    tags.sort(key=lambda t: 0 if t in prefer else 1)
    i = 0
    while len(out) < n and tags:
        t = tags[i % len(tags)]
        lst = by_tag[t]
        tag, path, repl = lst.pop()
        out.append((tag, _set(spec, path, repl)))
        if not lst:
            tags.remove(t)
        else:
            i += 1
    return out


def describe(spec):
    """short stable description of a spec (evidence / digests)"""
    import json

    return json.dumps(spec, sort_keys=True, default=str)


def spec_features(spec):
    """set of feature tags found in a spec (coverage evidence)"""
    feats = set()
    for _p, node in _walk(spec):
        if isinstance(node, dict):
            feats.add("stmt:" + str(node.get("k")))
            for k in ("distinct", "limit", "offset", "fetch", "prefixes", "hints", "for_update", "group_by", "having",
                      "options", "returning", "from_select", "multi", "upsert", "params", "joins", "label_style", "inline"):
                if node.get(k):
                    feats.add(k)
            if node.get("orm"):
                feats.add("orm")
        else:
            feats.add("e:" + node[0])
    return feats


# --------------------------------------------------------------------------------------
# generative-method chains (C03, also food for C22)
# --------------------------------------------------------------------------------------
def _tables_in(env, stmt):
    """keys of fixture tables that appear in the FROM list of a select"""
    out = []
    try:
        froms = stmt.get_final_froms()
    except Exception:
        froms = []
    from sqlalchemy.sql import visitors

    seen = set()
    for f in froms:
        for el in visitors.iterate(f):
            for k, t in env.tables.items():
                if el is t and k not in seen:
                    seen.add(k)
                    out.append(k)
    return out


def chain_ops(env, kind):
    """list of (name, fn(stmt, rng, vals) -> new statement).  Every fn calls exactly one
    public generative method of ``stmt`` (arguments are built beforehand)."""
    sa = env.sa
    T = env.tables
    E = env.entities

    def anycol(stmt, rng, t=None):
        keys = _tables_in(env, stmt) if getattr(stmt, "is_select", False) else []
        if not keys:
            tab = getattr(stmt, "table", None)
            keys = [k for k, tt in T.items() if tt is tab] or ["a"]
        k = rng.choice(keys)
        names = [n for n, tt in TABLE_COLS[k].items() if t is None or tt == t]
        if not names:
            names = ["id"]
        return k, T[k].c[rng.choice(sorted(names))]

    def cmp(stmt, rng, vals):
        k, c = anycol(stmt, rng, "int")
        op = rng.choice(["<", ">", "!=", "==", "in", "between", "isnull"])
        if op == "<":
            return c < vals.next("int")
        if op == ">":
            return c > vals.next("int")
        if op == "!=":
            return c != vals.next("int")
        if op == "==":
            return c == vals.next("int")
        if op == "in":
            return c.in_([vals.next("int") for _ in range(rng.randint(1, 3))])
        if op == "between":
            return c.between(vals.next("int"), vals.next("int"))
        return c.is_not(None)

    sel = []

    def op(lst, name):
        def deco(fn):
            lst.append((name, fn))
            return fn
        return deco

    @op(sel, "where")
    def _(s, rng, v):
        return s.where(cmp(s, rng, v))

    @op(sel, "where")
    def _(s, rng, v):
        return s.where(cmp(s, rng, v), cmp(s, rng, v))

    @op(sel, "filter")
    def _(s, rng, v):
        return s.filter(cmp(s, rng, v))

    @op(sel, "filter_by")
    def _(s, rng, v):
        keys = _tables_in(env, s)
        if not keys:
            raise Inapplicable()
        try:
            return s.filter_by(id=v.next("int"))
        except AttributeError:  # "This SQL expression has no entity namespace with which to filter from"
            raise Inapplicable()

    @op(sel, "join")
    def _(s, rng, v):
        keys = _tables_in(env, s)
        cands = [j for j in JOINS if j[0] in keys and j[1] not in keys]
        if not cands:
            raise Inapplicable()
        lk, rk, lc, rc, _rel = rng.choice(cands)
        return s.join(T[rk], T[lk].c[lc] == T[rk].c[rc])

    @op(sel, "outerjoin")
    def _(s, rng, v):
        keys = _tables_in(env, s)
        cands = [j for j in JOINS if j[0] in keys and j[1] not in keys]
        if not cands:
            raise Inapplicable()
        lk, rk, lc, rc, _rel = rng.choice(cands)
        return s.outerjoin(T[rk], T[lk].c[lc] == T[rk].c[rc], full=rng.random() < 0.2)

    @op(sel, "join_from")
    def _(s, rng, v):
        keys = _tables_in(env, s)
        cands = [j for j in JOINS if j[0] in keys and j[1] not in keys]
        if not cands:
            raise Inapplicable()
        lk, rk, lc, rc, _rel = rng.choice(cands)
        return s.join_from(T[lk], T[rk], T[lk].c[lc] == T[rk].c[rc], isouter=rng.random() < 0.3)

    @op(sel, "order_by")
    def _(s, rng, v):
        k, c = anycol(s, rng)
        return s.order_by(rng.choice([c, c.desc(), c.asc().nulls_last()]))

    @op(sel, "order_by_none")
    def _(s, rng, v):
        return s.order_by(None)

    @op(sel, "group_by")
    def _(s, rng, v):
        k, c = anycol(s, rng)
        return s.group_by(c)

    @op(sel, "having")
    def _(s, rng, v):
        k, c = anycol(s, rng, "int")
        return s.having(sa.func.count(c) > v.next("int"))

    @op(sel, "limit")
    def _(s, rng, v):
        return s.limit(v.next("posint"))

    @op(sel, "offset")
    def _(s, rng, v):
        return s.offset(v.next("posint"))

    @op(sel, "fetch")
    def _(s, rng, v):
        return s.fetch(v.next("posint"), with_ties=rng.random() < 0.3)

    @op(sel, "fetch_oracle_approx")
    def _(s, rng, v):
        return s.fetch(v.next("posint"), oracle_fetch_approximate=rng.random() < 0.7)

    @op(sel, "slice")
    def _(s, rng, v):
        a = v.next("posint")
        return s.slice(a, a + v.next("posint"))

    @op(sel, "distinct")
    def _(s, rng, v):
        return s.distinct()

    @op(sel, "with_only_columns")
    def _(s, rng, v):
        k, c = anycol(s, rng)
        k2, c2 = anycol(s, rng)
        return s.with_only_columns(c, (c2 + v.next("int")).label("woc") if TABLE_COLS[k2].get(c2.name) == "int" else c2,
                                   maintain_column_froms=rng.random() < 0.5)

    @op(sel, "add_columns")
    def _(s, rng, v):
        k, c = anycol(s, rng)
        return s.add_columns(c, sa.literal(v.next("int")).label("addc"))

    @op(sel, "prefix_with")
    def _(s, rng, v):
        return s.prefix_with(rng.choice(["/*cp*/", "SQL_NO_CACHE"]), dialect=rng.choice(["*", "mysql"]))

    @op(sel, "suffix_with")
    def _(s, rng, v):
        return s.suffix_with("/*cs*/")

    @op(sel, "with_hint")
    def _(s, rng, v):
        keys = _tables_in(env, s)
        if not keys:
            raise Inapplicable()
        return s.with_hint(T[rng.choice(keys)], "CHINT(%(name)s)", rng.choice(["*", "oracle", "mssql"]))

    @op(sel, "with_statement_hint")
    def _(s, rng, v):
        return s.with_statement_hint("CSTMT", rng.choice(["*", "postgresql"]))

    @op(sel, "with_for_update")
    def _(s, rng, v):
        return s.with_for_update(nowait=rng.random() < 0.3, read=rng.random() < 0.3, skip_locked=rng.random() < 0.2)

    @op(sel, "select_from")
    def _(s, rng, v):
        keys = _tables_in(env, s)
        return s.select_from(T[rng.choice(keys or ["a"])])

    @op(sel, "correlate")
    def _(s, rng, v):
        return s.correlate(T[rng.choice(["a", "b", "c"])])

    @op(sel, "correlate_except")
    def _(s, rng, v):
        return s.correlate_except(T[rng.choice(["a", "b", "c"])])

    @op(sel, "execution_options")
    def _(s, rng, v):
        return s.execution_options(**{rng.choice(["foo", "stream_results", "yield_per"]): v.next("posint")})

    @op(sel, "params")
    def _(s, rng, v):
        return s.params(zz=v.next("int"))

    @op(sel, "set_label_style")
    def _(s, rng, v):
        return s.set_label_style(rng.choice([sa.LABEL_STYLE_NONE, sa.LABEL_STYLE_TABLENAME_PLUS_COL, sa.LABEL_STYLE_DISAMBIGUATE_ONLY]))

    @op(sel, "reduce_columns")
    def _(s, rng, v):
        return s.reduce_columns()

    @op(sel, "add_cte")
    def _(s, rng, v):
        c = sa.select(T["c"].c.id).where(T["c"].c.id > v.next("int")).cte("addcte%d" % rng.randint(1, 3))
        return s.add_cte(c)

    @op(sel, "union")
    def _(s, rng, v):
        n = len(s.selected_columns)
        other = sa.select(*[sa.literal(v.next("int")) for _ in range(n)])
        return getattr(s, rng.choice(["union", "union_all", "except_", "intersect"]))(other)

    @op(sel, "wrap_subquery")
    def _(s, rng, v):
        sq = s.subquery("w%d" % rng.randint(1, 3))
        return sa.select(sq).where(sa.literal(v.next("int")) != v.next("int"))

    @op(sel, "wrap_cte")
    def _(s, rng, v):
        ct = s.cte("wc%d" % rng.randint(1, 3))
        return sa.select(ct).limit(v.next("posint"))

    @op(sel, "wrap_exists")
    def _(s, rng, v):
        return sa.select(T["a"].c.id).where(s.exists())

    @op(sel, "options")
    def _(s, rng, v):
        ents = [d["entity"] for d in s.column_descriptions if d.get("entity") is not None and isinstance(d["entity"], type)]
        if not ents:
            raise Inapplicable()
        ent = ents[0]
        rels = {"A": ["bs"], "B": ["a", "cs"], "C": ["b"]}[ent.__name__]
        loader = rng.choice(["selectinload", "joinedload", "lazyload", "subqueryload", "defer"])
        if loader == "defer":
            key = {v_: k for k, v_ in ENTITY_OF.items()}[ent.__name__]
            return s.options(env.orm.defer(getattr(ent, rng.choice([c for c in sorted(TABLE_COLS[key]) if c != "id"]))))
        return s.options(getattr(env.orm, loader)(getattr(ent, rng.choice(rels))))

    @op(sel, "options_criteria")
    def _(s, rng, v):
        if not s._propagate_attrs:
            raise Inapplicable()
        ent = E[rng.choice(["A", "B", "C"])]
        return s.options(env.orm.with_loader_criteria(ent, ent.id != v.next("int")))

    comp = [(n, f) for n, f in sel if n in ("order_by", "limit", "offset", "fetch", "slice", "execution_options", "params",
                                             "add_cte", "wrap_subquery", "wrap_cte", "order_by_none", "with_for_update", "fetch_oracle_approx",
                                             "set_label_style", "wrap_exists", "group_by")]

    @op(comp, "set_label_style")
    def _(s, rng, v):
        return s.set_label_style(rng.choice([sa.LABEL_STYLE_NONE, sa.LABEL_STYLE_TABLENAME_PLUS_COL, sa.LABEL_STYLE_DISAMBIGUATE_ONLY]))

    @op(comp, "wrap_scalar_subquery")
    def _(s, rng, v):
        return sa.select(T["a"].c.id, s.scalar_subquery().label("ssq")).where(T["a"].c.id > v.next("int"))

    @op(comp, "wrap_alias")
    def _(s, rng, v):
        return sa.select(s.alias("cal%d" % rng.randint(1, 3)))

    @op(comp, "wrap_in_subquery")
    def _(s, rng, v):
        return sa.select(T["a"].c.id).where(T["a"].c.id.in_(s))

    @op(comp, "nest_in_compound")
    def _(s, rng, v):
        n = len(s.selected_columns)
        other = sa.select(*[sa.literal(v.next("int")) for _ in range(n)])
        return getattr(sa, rng.choice(["union", "union_all", "except_", "intersect"]))(s, other)

    def dml_ops(which):
        lst = []

        @op(lst, "returning")
        def _(s, rng, v):
            k, c = anycol(s, rng)
            return s.returning(c)

        @op(lst, "prefix_with")
        def _(s, rng, v):
            return s.prefix_with("/*dp*/", dialect=rng.choice(["*", "mysql"]))

        @op(lst, "with_hint")
        def _(s, rng, v):
            return s.with_hint("DHINT", dialect_name=rng.choice(["*", "mssql"]))

        @op(lst, "execution_options")
        def _(s, rng, v):
            return s.execution_options(foo=v.next("int"))

        @op(lst, "add_cte")
        def _(s, rng, v):
            c = sa.select(T["c"].c.id).where(T["c"].c.id > v.next("int")).cte("dcte%d" % rng.randint(1, 3))
            return s.add_cte(c)

        if which in ("update", "delete"):
            @op(lst, "with_dialect_options")
            def _(s, rng, v):
                return s.with_dialect_options(mysql_limit=v.next("posint"))

            @op(lst, "where")
            def _(s, rng, v):
                return s.where(cmp(s, rng, v))

        if which in ("insert", "update"):
            @op(lst, "values")
            def _(s, rng, v):
                k, c = anycol(s, rng)
                if c.name == "id":
                    raise Inapplicable()
                return s.values({c.name: v.next(TABLE_COLS[k][c.name])})

            @op(lst, "return_defaults")
            def _(s, rng, v):
                return s.return_defaults()

            @op(lst, "inline")
            def _(s, rng, v):
                return s.inline()

        if which == "update":
            @op(lst, "ordered_values")
            def _(s, rng, v):
                k, c = anycol(s, rng)
                if c.name == "id":
                    raise Inapplicable()
                return s.ordered_values((c, v.next(TABLE_COLS[k][c.name])))

        if which == "insert":
            @op(lst, "from_select")
            def _(s, rng, v):
                t = s.table
                names = [c.name for c in t.c if c.name != "id"][:2]
                return s.from_select(names, sa.select(*[t.c[n] for n in names]).where(t.c.id > v.next("int")))

        return lst

    txt = []

    @op(txt, "bindparams")
    def _(s, rng, v):
        return s.bindparams(**{rng.choice(["p1", "p2"]): v.next("int")})

    @op(txt, "bindparams")
    def _(s, rng, v):
        return s.bindparams(p1=v.next("int"), p2=v.next("int"))

    @op(txt, "bindparams_typed")
    def _(s, rng, v):
        t = rng.choice([sa.Integer(), sa.Numeric(10, 2), sa.String(), sa.Float()])
        val = v.next("str") if isinstance(t, sa.String) else v.next("int")
        return s.bindparams(sa.bindparam(rng.choice(["p1", "p2"]), val, type_=t))

    @op(txt, "columns")
    def _(s, rng, v):
        if not hasattr(s, "columns") or type(s).__name__ != "TextClause":
            raise Inapplicable()
        return s.columns(sa.column("id", sa.Integer), sa.column(rng.choice(["x", "q"]), rng.choice([sa.Integer, sa.Numeric(10, 0)])))

    @op(txt, "execution_options")
    def _(s, rng, v):
        return s.execution_options(foo=v.next("int"))

    @op(txt, "wrap_subquery")
    def _(s, rng, v):
        if type(s).__name__ != "TextualSelect":
            raise Inapplicable()
        sq = s.subquery("tw%d" % rng.randint(1, 3))
        return sa.select(sq).where(sa.literal(v.next("int")) != v.next("int"))

    return {"select": sel, "compound": comp, "insert": dml_ops("insert"), "update": dml_ops("update"),
            "delete": dml_ops("delete"), "text": txt, "ddl": []}[kind]


def stmt_kind(stmt):
    if getattr(stmt, "is_insert", False):
        return "insert"
    if getattr(stmt, "is_update", False):
        return "update"
    if getattr(stmt, "is_delete", False):
        return "delete"
    if getattr(stmt, "is_text", False) or type(stmt).__name__ in ("TextClause", "TextualSelect"):
        return "text"
    if type(stmt).__name__ == "CompoundSelect":
        return "compound"
    if getattr(stmt, "is_select", False):
        return "select"
    if getattr(stmt, "is_ddl", False) or not hasattr(stmt, "bindparams"):
        return "ddl"  # DDL elements have no generative chain operations here
    return "text"


def query_ops(env):
    """(name, fn(query, rng, vals) -> Query) for legacy ``Session.query()`` generative chains"""
    sa = env.sa
    orm = env.orm
    E = env.entities
    A, B, C = E["A"], E["B"], E["C"]
    ops = []

    def op(name):
        def deco(fn):
            ops.append((name, fn))
            return fn
        return deco

    def ents(q):
        out = []
        for d in q.column_descriptions:
            e = d.get("entity")
            if isinstance(e, type) and e not in out:
                out.append(e)
        return out or [A]

    def icol(q, rng):
        e = rng.choice(ents(q))
        return getattr(e, rng.choice(["id"] + {"A": ["x", "y"], "B": ["q", "a_id"], "C": ["b_id"]}[e.__name__]))

    @op("filter")
    def _(q, rng, v):
        c = icol(q, rng)
        return q.filter(rng.choice([c > v.next("int"), c != v.next("int"), c.in_([v.next("int"), v.next("int")]), c.is_not(None)]))

    @op("filter_by")
    def _(q, rng, v):
        return q.filter_by(id=v.next("int"))

    @op("where")
    def _(q, rng, v):
        return q.where(icol(q, rng) < v.next("int"))

    @op("join")
    def _(q, rng, v):
        e = ents(q)[0]
        rel = {"A": ["bs"], "B": ["a", "cs"], "C": ["b"]}[e.__name__]
        return q.join(getattr(e, rng.choice(rel)), isouter=rng.random() < 0.3)

    @op("outerjoin")
    def _(q, rng, v):
        e = ents(q)[0]
        rel = {"A": ["bs"], "B": ["a", "cs"], "C": ["b"]}[e.__name__]
        return q.outerjoin(getattr(e, rng.choice(rel)))

    @op("add_entity")
    def _(q, rng, v):
        return q.add_entity(rng.choice([A, B, C, orm.aliased(rng.choice([A, B]))]))

    @op("add_columns")
    def _(q, rng, v):
        return q.add_columns(icol(q, rng), sa.literal(v.next("int")).label("qlit"))

    @op("with_entities")
    def _(q, rng, v):
        e = rng.choice(ents(q))
        return q.with_entities(e.id, e) if rng.random() < 0.5 else q.with_entities(e)

    @op("options")
    def _(q, rng, v):
        e = ents(q)[0]
        rel = {"A": ["bs"], "B": ["a", "cs"], "C": ["b"]}[e.__name__]
        loader = rng.choice([orm.selectinload, orm.joinedload, orm.lazyload, orm.subqueryload])
        return q.options(loader(getattr(e, rng.choice(rel))))

    @op("order_by")
    def _(q, rng, v):
        c = icol(q, rng)
        return q.order_by(rng.choice([c, c.desc()]))

    @op("order_by_none")
    def _(q, rng, v):
        return q.order_by(None)

    @op("group_by")
    def _(q, rng, v):
        return q.group_by(icol(q, rng))

    @op("having")
    def _(q, rng, v):
        return q.having(sa.func.count(icol(q, rng)) > v.next("int"))

    @op("limit")
    def _(q, rng, v):
        return q.limit(v.next("posint"))

    @op("offset")
    def _(q, rng, v):
        return q.offset(v.next("posint"))

    @op("slice")
    def _(q, rng, v):
        a = v.next("posint")
        return q.slice(a, a + v.next("posint"))

    @op("distinct")
    def _(q, rng, v):
        return q.distinct()

    @op("select_from")
    def _(q, rng, v):
        return q.select_from(rng.choice(ents(q)))

    @op("enable_eagerloads")
    def _(q, rng, v):
        return q.enable_eagerloads(rng.random() < 0.5)

    @op("populate_existing")
    def _(q, rng, v):
        return q.populate_existing()

    @op("execution_options")
    def _(q, rng, v):
        return q.execution_options(foo=v.next("int"))

    @op("params")
    def _(q, rng, v):
        return q.params(zz=v.next("int"))

    @op("with_for_update")
    def _(q, rng, v):
        return q.with_for_update(nowait=rng.random() < 0.5)

    @op("correlate")
    def _(q, rng, v):
        return q.correlate(rng.choice([A, B]))

    @op("union")
    def _(q, rng, v):
        return q.union(q.filter(icol(q, rng) > v.next("int")))

    @op("from_subquery_aliased")
    def _(q, rng, v):
        e = ents(q)[0]
        sub = q.with_entities(e).subquery()
        return q.session.query(orm.aliased(e, sub)).filter(sa.literal(v.next("int")) != v.next("int"))

    @op("reset_joinpoint")
    def _(q, rng, v):
        return q.reset_joinpoint()

    # methods that rebuild the entity list are the ones holding mutable collections: sample them more often
    ops.extend([o for o in ops if o[0] in ("add_entity", "add_columns", "with_entities", "join", "options")])

    @op("set_label_style")
    def _(q, rng, v):
        return q.set_label_style(rng.choice([sa.LABEL_STYLE_TABLENAME_PLUS_COL, sa.LABEL_STYLE_DISAMBIGUATE_ONLY]))

    return ops


def query_bases(env, session, rng, vals):
    E = env.entities
    A, B, C = E["A"], E["B"], E["C"]
    c = rng.random()
    if c < 0.35:
        return "query(E)", session.query(rng.choice([A, B, C]))
    if c < 0.5:
        return "query(E).filter", session.query(A).filter(A.x > vals.next("int"))
    if c < 0.65:
        return "query(E, E)", session.query(B, A).join(B.a)
    if c < 0.8:
        return "query(cols)", session.query(A.id, A.x)
    if c < 0.9:
        return "query(aliased)", session.query(env.orm.aliased(A))
    return "query(E).options", session.query(B).options(env.orm.joinedload(B.a))
