"""Transcript of operations on the in-library *Python subclasses* of the dual-implemented
classes (C55).  The subclasses (ColumnSet over OrderedSet, Row / RowMapping over BaseRow, the
Result family over BaseResultInternal, anything else found by walking ``__subclasses__()``
at run time) live in ordinary ``.py`` files but inherit from a class that exists in a
compiled and a pure flavour: an override or attribute that one flavour honours and the
other bypasses makes behaviour depend on whether the extensions are installed.

``transcript(seed)`` returns lines ``SUB:<Class>.<op> <outcome>``; outcomes carry the value
(normalised), the *type name* of the result, and the exception class.  The caller compares
the list produced in a compiled process with the one of a ``purepy`` process.
"""
from __future__ import annotations

import operator
import pickle
import random
import warnings


def walk(cls, seen=None):
    seen = seen if seen is not None else []
    for s in cls.__subclasses__():
        if s not in seen:
            seen.append(s)
            walk(s, seen)
    return seen


def _nm(x):
    """stable name of an element / value"""
    n = getattr(x, "name", None)
    if isinstance(n, str) and not isinstance(x, (str, bytes)):
        return f"<{type(x).__name__} {n}>"
    if isinstance(x, (list, tuple)):
        return type(x).__name__ + "(" + ", ".join(_nm(e) for e in x) + ")"
    if isinstance(x, (set, frozenset)):
        return type(x).__name__ + "{" + ", ".join(sorted(_nm(e) for e in x)) + "}"
    if isinstance(x, dict):
        return type(x).__name__ + "{" + ", ".join(f"{_nm(k)}: {_nm(v)}" for k, v in x.items()) + "}"
    if isinstance(x, (int, float, str, bytes, bool, type(None))):
        return repr(x)
    if isinstance(x, type):
        return f"<class {x.__name__}>"
    try:
        it = list(x)
    except Exception:  # noqa: BLE001
        return f"<{type(x).__name__}>"
    return type(x).__name__ + "[" + ", ".join(_nm(e) for e in it) + "]"


def outcome(fn):
    with warnings.catch_warnings():
        warnings.simplefilter("ignore")
        try:
            r = fn()
        except Exception as e:  # noqa: BLE001 - the exception class is the observation
            return "raises " + type(e).__name__
    return "-> " + _nm(r)


def describe(obj):
    """type-sensitive facts about a result object"""
    facts = [type(obj).__name__]
    facts.append("hash:" + outcome(lambda: isinstance(hash(obj), int)))
    facts.append("eqself:" + outcome(lambda: bool(obj == obj)))
    facts.append("eqset:" + outcome(lambda: bool(obj == set(obj))))
    for attr in ("contains_column", "extend", "union", "_mapping", "_fields", "keys"):
        facts.append(f"{attr}:{hasattr(obj, attr)}")
    facts.append("items:" + outcome(lambda: list(obj)))
    return " | ".join(facts)


def set_like(out, cls, label, elems, rng):
    """every public + inherited operation of an OrderedSet / IdentitySet subclass"""
    tag = f"SUB:{label}"

    def mk(idx):
        return cls([elems[i] for i in idx])

    out.append(f"{tag}.construct " + outcome(lambda: describe(mk([0, 1, 2]))))
    out.append(f"{tag}.construct-empty " + outcome(lambda: describe(cls())))
    try:
        mk([0])
    except Exception:  # noqa: BLE001
        return
    inits = [[], [0], [2, 0, 1]]
    argidx = [[], [1], [1, 3], [0, 0, 3], [2, 1, 0]]
    kinds = {
        "list": lambda ix: [elems[i] for i in ix],
        "tuple": lambda ix: tuple(elems[i] for i in ix),
        "gen": lambda ix: (elems[i] for i in ix),
        "same": lambda ix: mk(ix),
    }
    # an AbstractSet operand with a process-independent iteration order (a plain set of
    # id-hashed objects iterates in address order, which differs between processes)
    kinds["keysview"] = lambda ix: dict.fromkeys(elems[i] for i in ix).keys()
    un = [("copy", lambda s: s.copy()), ("__copy__", lambda s: __import__("copy").copy(s)),
          ("pickle", lambda s: pickle.loads(pickle.dumps(s))), ("len", len), ("repr-type", lambda s: repr(s).split("(")[0]),
          ("pop", lambda s: s.pop()), ("clear", lambda s: s.clear())]
    for init in inits:
        for name, f in un:
            def run(init=init, f=f):
                s = mk(init)
                r = f(s)
                res = describe(r) if hasattr(r, "__iter__") and not isinstance(r, (str, bytes)) and type(r).__module__.startswith("sqlalchemy") else _nm(r)
                return f"{res} ;; after {describe(s)}"
            out.append(f"{tag}.{name} init={init} " + outcome(run))
        for e in (0, 3):
            for name in ("add", "remove", "discard", "__contains__"):
                def run(init=init, name=name, e=e):
                    s = mk(init)
                    r = getattr(s, name)(elems[e])
                    return f"{_nm(r)} ;; after {describe(s)}"
                out.append(f"{tag}.{name} init={init} e={e} " + outcome(run))
        if hasattr(cls, "insert"):
            out.append(f"{tag}.insert init={init} " + outcome(lambda init=init: (lambda s: (s.insert(1, elems[3]), describe(s))[1])(mk(init))))
        if hasattr(cls, "__getitem__"):
            out.append(f"{tag}.getitem init={init} " + outcome(lambda init=init: mk(init)[0]))
    meths = ["union", "intersection", "difference", "symmetric_difference", "update", "intersection_update",
             "difference_update", "symmetric_difference_update", "issubset", "issuperset", "isdisjoint",
             "extend", "contains_column"]
    ops = {"or": operator.or_, "and": operator.and_, "sub": operator.sub, "xor": operator.xor, "add": operator.add,
           "ior": operator.ior, "iand": operator.iand, "isub": operator.isub, "ixor": operator.ixor,
           "le": operator.le, "lt": operator.lt, "ge": operator.ge, "gt": operator.gt}
    for init in inits:
        for ix in argidx:
            for kname, kf in kinds.items():
                for m in meths:
                    if not hasattr(cls, m):
                        continue
                    def run(init=init, ix=ix, kf=kf, m=m):
                        s = mk(init)
                        a = kf(ix) if m != "contains_column" else elems[ix[0] if ix else 0]
                        r = getattr(s, m)(a)
                        res = describe(r) if type(r).__module__.startswith("sqlalchemy") else _nm(r)
                        return f"{res} ;; after {describe(s)}"
                    out.append(f"{tag}.{m} init={init} arg={kname}{ix} " + outcome(run))
                if kname in ("same", "keysview"):
                    for oname, of in ops.items():
                        def run(init=init, ix=ix, kf=kf, of=of):
                            s = mk(init)
                            r = of(s, kf(ix))
                            res = describe(r) if type(r).__module__.startswith("sqlalchemy") else _nm(r)
                            return f"{res} same-object:{r is s} ;; after {describe(s)}"
                        out.append(f"{tag}.op-{oname} init={init} arg={kname}{ix} " + outcome(run))


def dict_like(out, cls, label):
    tag = f"SUB:{label}"
    out.append(f"{tag}.construct " + outcome(lambda: (type(cls({"a": 1})).__name__, dict(cls({"a": 1})))))
    try:
        d = cls({"a": 1, "b": 2})
    except Exception:  # noqa: BLE001
        return
    for name, f in [("union", lambda: d.union({"c": 3})), ("merge_with", lambda: d.merge_with({"a": 9}, None, {})),
                    ("or", lambda: d | {"c": 3}), ("ror", lambda: {"c": 3} | d), ("copy", lambda: d.copy()),
                    ("pickle", lambda: pickle.loads(pickle.dumps(d))), ("union-empty", lambda: d.union()),
                    ("union-self-empty", lambda: cls().union(d))]:
        out.append(f"{tag}.{name} " + outcome(lambda f=f: (lambda r: f"{type(r).__name__} {_nm(dict(r))}")(f())))
    for name, f in [("setitem", lambda: d.__setitem__("z", 1)), ("delitem", lambda: d.__delitem__("a")),
                    ("clear", d.clear), ("pop", lambda: d.pop("a")), ("popitem", d.popitem),
                    ("setdefault", lambda: d.setdefault("q", 1)), ("update", lambda: d.update({"q": 1})),
                    ("ior", lambda: operator.ior(d, {"q": 1})), ("setattr", lambda: setattr(d, "foo", 1))]:
        out.append(f"{tag}.{name} " + outcome(f) + f" ;; after {_nm(dict(d))}")


def row_like(out, rng):
    """Row and RowMapping (and whatever else subclasses BaseRow): attribute-, key- and
    index-style access, mapping protocol, comparisons, pickling, immutability."""
    from sqlalchemy.engine import result as R
    from sqlalchemy.engine import row as row_mod
    from sqlalchemy.engine._row_cy import BaseRow

    keys = ["id", "name", "count", "_private", "keys", "x y"]
    md = R.SimpleResultMetaData(keys)
    data = (1, "n", 7, "p", "k", None)
    res = R.IteratorResult(md, iter([data, data]))
    row = res.fetchone()
    objs = {"Row": row, "RowMapping": row._mapping}
    res2 = R.IteratorResult(md, iter([data]))
    objs["RowMapping-from-mappings()"] = res2.mappings().first()
    known = {"Row", "RowMapping"}
    for c in walk(BaseRow):
        if c.__name__ not in known:
            out.append(f"SUB:BaseRow-subclass {c.__module__}.{c.__qualname__} " + outcome(
                lambda c=c: describe(c(md, None, md._key_to_index, data))))
    names = keys + ["missing", "_data", "_parent", "_key_to_index", "_mapping", "_fields", "__len__", "items", "values",
                    "get", "index", "_asdict", "_t", ""]
    for label, o in objs.items():
        tag = f"SUB:{label}"
        out.append(f"{tag}.type " + type(o).__name__ + " mro=" + ",".join(c.__name__ for c in type(o).__mro__[:4]))
        for n in names:
            def val(o=o, n=n):
                v = getattr(o, n)
                return _nm(v) if not callable(v) else "<callable>"
            out.append(f"{tag}.getattr {n!r} " + outcome(val))
            out.append(f"{tag}.getattr-default {n!r} " + outcome(lambda o=o, n=n: (lambda v: _nm(v) if not callable(v) else "<callable>")(getattr(o, n, "DFLT"))))
            out.append(f"{tag}.hasattr {n!r} " + outcome(lambda o=o, n=n: hasattr(o, n)))
            out.append(f"{tag}.attrgetter {n!r} " + outcome(lambda o=o, n=n: (lambda v: _nm(v) if not callable(v) else "<callable>")(operator.attrgetter(n)(o)) if n else "skip"))
            out.append(f"{tag}.getitem {n!r} " + outcome(lambda o=o, n=n: o[n]))
            out.append(f"{tag}.contains {n!r} " + outcome(lambda o=o, n=n: n in o))
            out.append(f"{tag}.setattr {n!r} " + outcome(lambda o=o, n=n: setattr(o, n, 1)))
            out.append(f"{tag}.delattr {n!r} " + outcome(lambda o=o, n=n: delattr(o, n)))
        for i in (0, 1, -1, 6, slice(0, 2)):
            out.append(f"{tag}.getitem {i!r} " + outcome(lambda o=o, i=i: o[i]))
        for name, f in [("len", len), ("iter", list), ("dict", dict), ("tuple", tuple), ("hash", lambda o: isinstance(hash(o), int)),
                        ("repr", repr), ("str", str), ("eq-self", lambda o: o == o), ("eq-tuple", lambda o: o == data),
                        ("eq-dict", lambda o: o == dict(zip(keys, data))), ("lt", lambda o: o < data),
                        ("keys", lambda o: list(o.keys())), ("values", lambda o: list(o.values())),
                        ("items", lambda o: list(o.items())), ("get", lambda o: o.get("id", "d")),
                        ("pickle", lambda o: (lambda q: (type(q).__name__, _nm(list(q))))(pickle.loads(pickle.dumps(o)))),
                        ("dir-has-id", lambda o: "id" in dir(o)), ("bool", bool),
                        ("vars", lambda o: sorted(vars(o))), ("copy", lambda o: type(__import__("copy").copy(o)).__name__)]:
            out.append(f"{tag}.{name} " + outcome(lambda o=o, f=f: f(o)))


def result_like(out):
    from sqlalchemy.engine import result as R
    from sqlalchemy.engine._result_cy import BaseResultInternal

    out.append("SUB:BaseResultInternal-subclasses " + ", ".join(sorted(f"{c.__module__}.{c.__qualname__}" for c in walk(BaseResultInternal))))
    md = R.SimpleResultMetaData(["a", "b"])
    rows = [(1, "x"), (1, "x"), (2, "y")]

    def mk():
        return R.IteratorResult(md, iter(rows))

    views = {"Result": lambda: mk(), "ScalarResult": lambda: mk().scalars(1), "MappingResult": lambda: mk().mappings(),
             "TupleResult": lambda: mk().tuples(), "Unique": lambda: mk().unique(), "Columns": lambda: mk().columns("b")}
    calls = ["all", "first", "one", "one_or_none", "fetchall", "fetchone", "scalar", "scalar_one", "keys", "closed",
             "_soft_closed", "_generate_rows", "_unique_filter_state", "_post_creational_filter", "_real_result",
             "_row_getter", "_iterator_getter", "_allrows", "_onerow_getter", "_manyrow_getter", "_metadata", "__next__"]
    for vn, vf in views.items():
        for c in calls:
            def run(vf=vf, c=c):
                v = vf()
                a = getattr(v, c)
                r = a() if callable(a) and c not in ("_row_getter", "_iterator_getter", "_onerow_getter", "_manyrow_getter") else a
                if callable(r) or isinstance(r, tuple) and r and callable(r[0]):
                    return "<callable(s)>"
                return (type(r).__name__, _nm(r) if not type(r).__module__.startswith("sqlalchemy.engine.result") else "")
            out.append(f"SUB:{vn}.{c} " + outcome(run))


def transcript(seed):
    import sqlalchemy as sa
    import sqlalchemy.ext.asyncio  # noqa: F401  (registers the async result subclasses)
    import sqlalchemy.orm  # noqa: F401
    from sqlalchemy import util

    rng = random.Random(seed)
    out = []
    cols = [sa.column(f"c{i}") for i in range(4)]
    for base, label in ((util.OrderedSet, "OrderedSet"), (util.IdentitySet, "IdentitySet")):
        subs = walk(base)
        out.append(f"SUB:{label}-subclasses " + ", ".join(sorted(f"{c.__module__}.{c.__qualname__}" for c in subs)))
        for c in subs:
            set_like(out, c, c.__name__, cols, rng)
    # the same instances the library itself hands out
    t = sa.table("t", sa.column("id"), sa.column("k"))
    md = sa.MetaData()
    tt = sa.Table("tt", md, sa.Column("id", sa.Integer, primary_key=True), sa.Column("k", sa.Integer, primary_key=True), sa.Column("v", sa.Integer))
    for name, pk in [("Table.primary_key.columns", lambda: tt.primary_key.columns), ("subquery.primary_key", lambda: sa.select(tt).subquery().primary_key),
                     ("alias.primary_key", lambda: tt.alias().primary_key), ("join.primary_key", lambda: tt.join(tt.alias(), sa.true()).primary_key),
                     ("select.selected_columns", lambda: sa.select(tt).selected_columns), ("table.foreign_keys", lambda: tt.foreign_keys)]:
        for opn, f in [("copy", lambda s: s.copy()), ("union", lambda s: s.union([tt.c.v])), ("or", lambda s: s | {tt.c.v}),
                       ("and", lambda s: s & set(s)), ("sub", lambda s: s - {tt.c.v}), ("xor", lambda s: s ^ {tt.c.v}),
                       ("add", lambda s: s + [tt.c.v]), ("intersection", lambda s: s.intersection(list(s))),
                       ("difference", lambda s: s.difference([])), ("symmetric_difference", lambda s: s.symmetric_difference([tt.c.v]))]:
            def run(pk=pk, f=f):
                s = pk()
                r = f(s)
                return f"{type(s).__name__} => {describe(r)}"
            out.append(f"SUB:library-instance {name}.{opn} " + outcome(run))
    subs = walk(util.immutabledict)
    out.append("SUB:immutabledict-subclasses " + ", ".join(sorted(f"{c.__module__}.{c.__qualname__}" for c in subs)))
    for c in subs:
        dict_like(out, c, c.__name__)
    row_like(out, rng)
    result_like(out)
    return out
