"""A deterministic whole-library workload whose transcript must be identical with and
without the compiled extensions (C55, "results never depend on whether the extensions are
installed").  Compact versions of the C02 / C09 / C11 / C21 workloads: statement
compilation (+ compiled cache reuse), typed round trips on SQLite, row lookup by column
object / name / index / attribute, long-name truncation and anonymous labels.

``transcript(seed, n)`` returns a list of strings; the caller compares the list produced
in-process (compiled) with the one produced by a ``purepy`` subprocess.
"""
from __future__ import annotations

import datetime
import decimal
import random


def _hash_probe(row):
    try:
        return repr(hash(row) == hash(tuple(row)))
    except TypeError as e:  # JSON columns hold lists / dicts
        return "unhashable:" + type(e).__name__


def transcript(seed, n):
    import sqlalchemy as sa
    from sqlalchemy import util
    from sqlalchemy.dialects import postgresql

    rng = random.Random(seed)
    out = []
    md = sa.MetaData()
    long_a = "a_rather_long_table_name_that_goes_on_and_on_to_trigger_truncation_abcdefghijkl"
    t = sa.Table(
        "t", md,
        sa.Column("id", sa.Integer, primary_key=True),
        sa.Column("i", sa.Integer),
        sa.Column("s", sa.String(30)),
        sa.Column("n", sa.Numeric(12, 4)),
        sa.Column("f", sa.Float),
        sa.Column("b", sa.Boolean),
        sa.Column("d", sa.Date),
        sa.Column("dt", sa.DateTime),
        sa.Column("tm", sa.Time),
        sa.Column("j", sa.JSON),
        sa.Column("bin", sa.LargeBinary),
        sa.Column("e", sa.Enum("x", "y", "z", name="en")),
    )
    u = sa.Table(long_a, md, sa.Column("id", sa.Integer, primary_key=True),
                 sa.Column("a_rather_long_column_name_that_goes_on_and_on_to_trigger_truncation_abcdefghijkl", sa.Integer),
                 sa.Column("t_id", sa.ForeignKey("t.id")))
    eng = sa.create_engine("sqlite://")
    rows = []
    for k in range(1, 25):
        rows.append(dict(
            id=k, i=rng.choice([None, 0, -1, 2 ** 40, k]), s=rng.choice([None, "", "x", "é%_'\"", "y" * 20]),
            n=rng.choice([None, decimal.Decimal("0"), decimal.Decimal("12345.6789"), decimal.Decimal("-0.0001")]),
            f=rng.choice([None, 0.0, 1.5, -2.25e10]), b=rng.choice([None, True, False]),
            d=rng.choice([None, datetime.date(1, 1, 1), datetime.date(2024, 2, 29)]),
            dt=rng.choice([None, datetime.datetime(2020, 1, 2, 3, 4, 5, 678), datetime.datetime(9999, 12, 31, 23, 59, 59)]),
            tm=rng.choice([None, datetime.time(0, 0), datetime.time(23, 59, 59, 999999)]),
            j=rng.choice([None, {"a": [1, 2, {"b": None}]}, [1, "x"], "str", 5]),
            bin=rng.choice([None, b"", b"\x00\xff"]), e=rng.choice([None, "x", "z"]),
        ))
    with eng.connect() as c:
        md.create_all(c)
        c.execute(t.insert(), rows)
        c.execute(u.insert(), [{"id": k, u.c[1].name: k * 2, "t_id": (k % 24) + 1} for k in range(1, 9)])
        c.commit()
        cols = [t.c.i, t.c.s, t.c.n, t.c.f, t.c.b, t.c.d, t.c.dt, t.c.tm, t.c.j, t.c.bin, t.c.e]
        for k in range(n):
            sel = rng.sample(cols, rng.randint(1, 5))
            kind = k % 6
            if kind == 0:
                stmt = sa.select(t.c.id, *sel).where(t.c.id <= rng.randint(1, 24)).order_by(t.c.id)
            elif kind == 1:
                stmt = sa.select(t.c.id, *[c_.label(f"l{n_}") for n_, c_ in enumerate(sel)]).where(
                    t.c.i.in_([0, -1, rng.randint(1, 24)])).order_by(t.c.id)
            elif kind == 2:
                stmt = sa.select(u, t.c.s).join_from(u, t).order_by(u.c.id).limit(rng.randint(1, 8))
            elif kind == 3:
                sub = sa.select(t.c.id, (t.c.i + rng.randint(1, 3)).label(None)).subquery()
                stmt = sa.select(sub).order_by(sub.c.id).limit(5)
            elif kind == 4:
                stmt = sa.select(sa.func.count(t.c.id), sa.func.max(t.c.n), sa.literal(rng.choice(["p", 1, 2.5]))).where(
                    sa.or_(t.c.b.is_(True), t.c.s.like("%" + rng.choice(["x", "y", "%"]) + "%", escape="/")))
            else:
                stmt = sa.union_all(sa.select(t.c.id, t.c.s).where(t.c.id < 3), sa.select(u.c.id, sa.literal("u"))).order_by("id")
            comp = stmt.compile(eng)
            out.append("SQL " + str(comp) + " :: " + repr(sorted(comp.params.items(), key=repr)))
            pg = stmt.compile(dialect=postgresql.dialect())
            out.append("PG " + str(pg) + " :: " + repr(sorted(pg.params.items(), key=repr)) + " :: " + repr(pg.positiontup))
            res = c.execute(stmt)
            out.append("KEYS " + repr(list(res.keys())))
            how = k % 5
            if how == 0:
                data = [tuple(r) for r in res]
            elif how == 1:
                data = [dict(m) for m in res.mappings().all()]
            elif how == 2:
                data = res.scalars().unique().all()
            elif how == 3:
                data = [list(p) for p in res.partitions(3)]
            else:
                first = res.fetchone()
                data = [tuple(first) if first is not None else None, [tuple(r) for r in res.fetchmany(2)], [tuple(r) for r in res.all()]]
            out.append("ROWS " + repr(data))
            if kind in (0, 1):
                res = c.execute(stmt)
                r0 = res.first()
                if r0 is not None:
                    probes = []
                    for n_, c_ in enumerate(stmt.selected_columns):
                        probes.append((r0._mapping[c_], r0[n_], getattr(r0, c_.key, "n/a"), r0._mapping[c_.key]))
                    out.append("LOOKUP " + repr(probes) + " " + repr(r0._asdict()) + " " + _hash_probe(r0))
        # OrderedSet / immutabledict / cache key plumbing used by the compiler
        ck = sa.select(t.c.id).where(t.c.i == 5)._generate_cache_key()
        out.append("CK " + repr(len(ck.key)) + " " + repr([b.value for b in ck.bindparams]))
        out.append("UTIL " + repr(util.OrderedSet([3, 1, 3, 2]).union([9, 1])) + repr(util.immutabledict(a=1).union({"b": 2})))
    eng.dispose()
    return out
