"""Strict-catalog reference model (C14): what a backend that enforces referenced-table
existence (PostgreSQL, MySQL/InnoDB, SQL Server, Oracle) accepts from a DDL stream.

It is a *specification model*, not a re-implementation of SQLAlchemy: it only knows
  CREATE TABLE t (...)                     t must not exist; every FOREIGN KEY must reference
                                           an existing table (or t itself) and existing columns
  ALTER TABLE t ADD [CONSTRAINT n] FOREIGN KEY (..) REFERENCES r (..)
  ALTER TABLE t DROP CONSTRAINT n | DROP FOREIGN KEY n
  CREATE [UNIQUE] INDEX n ON t (..)        t and the columns must exist
  DROP INDEX n [ON t] | DROP INDEX t.n
  DROP TABLE t                             t must exist and no *other* table may still hold
                                           a foreign key that references it
The workloads use plain lower-case names, so the statements SQLAlchemy renders for every
dialect can be read with a few regular expressions; anything else is ``Unparsed`` (the
caller counts it and treats the case as inconclusive, never as a violation).
"""
from __future__ import annotations

import re


class Rejected(Exception):
    def __init__(self, reason, msg):
        super().__init__(msg)
        self.reason = reason


class Unparsed(Exception):
    pass


_ID = r"[A-Za-z_][A-Za-z0-9_]*"
_FK = re.compile(
    rf"(?:CONSTRAINT\s+({_ID})\s+)?FOREIGN\s+KEY\s*\(([^)]*)\)\s*REFERENCES\s+({_ID})\s*\(([^)]*)\)", re.I | re.S)


def _cols(s):
    return [x.strip() for x in s.split(",") if x.strip()]


def _split_top(body):
    parts, depth, cur = [], 0, []
    for ch in body:
        if ch == "(":
            depth += 1
        elif ch == ")":
            depth -= 1
        if ch == "," and depth == 0:
            parts.append("".join(cur).strip())
            cur = []
        else:
            cur.append(ch)
    if "".join(cur).strip():
        parts.append("".join(cur).strip())
    return parts


class StrictCatalog:
    def __init__(self):
        self.tables = {}   # name -> {"cols": [...], "fks": [(name|None, cols, ref, refcols)], "idx": {name: cols}}
        self.applied = 0

    # ---- queries ---------------------------------------------------------
    def has_table(self, name):
        return name in self.tables

    def has_index(self, table, name):
        return table in self.tables and name in self.tables[table]["idx"]

    def fk_set(self):
        return {(t, tuple(c), r, tuple(rc)) for t, d in self.tables.items() for (_, c, r, rc) in d["fks"]}

    def index_set(self):
        return {(t, n) for t, d in self.tables.items() for n in d["idx"]}

    # ---- statements --------------------------------------------------------
    def _add_fk(self, table, name, cols, ref, refcols, creating=None):
        """creating: (name, cols) of the table being created (self reference allowed)."""
        if creating is not None and ref == creating[0]:
            target_cols = creating[1]
        else:
            if ref not in self.tables:
                raise Rejected("references-missing-table", f"{table}: FOREIGN KEY references table {ref!r} which does not exist yet")
            target_cols = self.tables[ref]["cols"]
        for c in refcols:
            if c not in target_cols:
                raise Rejected("references-missing-column", f"{table}: referenced column {ref}.{c} does not exist")
        own = creating[1] if creating is not None and table == creating[0] else self.tables[table]["cols"]
        for c in cols:
            if c not in own:
                raise Rejected("fk-column-missing", f"{table}: constrained column {c} does not exist")
        if len(cols) != len(refcols) or not cols:
            raise Rejected("fk-arity", f"{table}: FOREIGN KEY arity mismatch {cols} -> {refcols}")
        return (name, cols, ref, refcols)

    def apply(self, sql):
        s = " ".join(sql.split())
        self.applied += 1
        m = re.match(rf"CREATE TABLE ({_ID}) \((.*)\)\s*$", s, re.I | re.S)
        if m:
            t, body = m.group(1), m.group(2)
            if t in self.tables:
                raise Rejected("table-exists", f"CREATE TABLE {t}: already exists")
            cols, fkparts = [], []
            for part in _split_top(body):
                up = part.upper()
                if up.startswith(("PRIMARY KEY", "UNIQUE", "CHECK")):
                    continue
                if up.startswith("CONSTRAINT") or up.startswith("FOREIGN KEY"):
                    fm = _FK.match(part)
                    if fm:
                        fkparts.append(fm)
                        continue
                    if re.match(rf"CONSTRAINT\s+{_ID}\s+(PRIMARY KEY|UNIQUE|CHECK)", part, re.I):
                        continue
                    raise Unparsed(part)
                cm = re.match(rf"({_ID})\s+\S", part)
                if not cm:
                    raise Unparsed(part)
                cols.append(cm.group(1))
            fks = []
            for fm in fkparts:
                fks.append(self._add_fk(t, fm.group(1), _cols(fm.group(2)), fm.group(3), _cols(fm.group(4)), creating=(t, cols)))
            self.tables[t] = {"cols": cols, "fks": fks, "idx": {}}
            return "create-table"
        m = re.match(rf"ALTER TABLE ({_ID}) ADD (.*)$", s, re.I | re.S)
        if m:
            t = m.group(1)
            fm = _FK.match(m.group(2).strip())
            if not fm:
                raise Unparsed(s)
            if t not in self.tables:
                raise Rejected("alter-missing-table", f"ALTER TABLE {t}: table does not exist")
            fk = self._add_fk(t, fm.group(1), _cols(fm.group(2)), fm.group(3), _cols(fm.group(4)))
            if fk[0] is not None and any(f[0] == fk[0] for f in self.tables[t]["fks"]):
                raise Rejected("constraint-exists", f"ALTER TABLE {t}: constraint {fk[0]} already exists")
            self.tables[t]["fks"].append(fk)
            return "add-fk"
        m = re.match(rf"ALTER TABLE ({_ID}) DROP (?:CONSTRAINT|FOREIGN KEY) ({_ID})$", s, re.I)
        if m:
            t, n = m.group(1), m.group(2)
            if t not in self.tables:
                raise Rejected("alter-missing-table", f"ALTER TABLE {t}: table does not exist")
            keep = [f for f in self.tables[t]["fks"] if f[0] != n]
            if len(keep) == len(self.tables[t]["fks"]):
                raise Rejected("drop-missing-constraint", f"ALTER TABLE {t} DROP {n}: no such constraint")
            self.tables[t]["fks"] = keep
            return "drop-fk"
        m = re.match(rf"CREATE (?:UNIQUE )?INDEX ({_ID}) ON ({_ID}) \(([^)]*)\)$", s, re.I)
        if m:
            n, t, cols = m.group(1), m.group(2), _cols(m.group(3))
            if t not in self.tables:
                raise Rejected("index-missing-table", f"CREATE INDEX {n}: table {t} does not exist")
            if any(c not in self.tables[t]["cols"] for c in cols):
                raise Rejected("index-missing-column", f"CREATE INDEX {n}: column missing in {t}")
            if n in self.tables[t]["idx"]:
                raise Rejected("index-exists", f"CREATE INDEX {n}: already exists")
            self.tables[t]["idx"][n] = cols
            return "create-index"
        m = re.match(rf"DROP INDEX (?:({_ID})\.)?({_ID})(?: ON ({_ID}))?$", s, re.I)
        if m:
            t = m.group(1) or m.group(3)
            n = m.group(2)
            owners = [tt for tt, d in self.tables.items() if n in d["idx"] and (t is None or tt == t)]
            if not owners:
                raise Rejected("drop-missing-index", f"DROP INDEX {n}: no such index")
            del self.tables[owners[0]]["idx"][n]
            return "drop-index"
        m = re.match(rf"DROP TABLE ({_ID})$", s, re.I)
        if m:
            t = m.group(1)
            if t not in self.tables:
                raise Rejected("drop-missing-table", f"DROP TABLE {t}: does not exist")
            for other, d in self.tables.items():
                if other == t:
                    continue
                for f in d["fks"]:
                    if f[2] == t:
                        raise Rejected("drop-referenced-table", f"DROP TABLE {t}: still referenced by a foreign key of {other}")
            del self.tables[t]
            return "drop-table"
        raise Unparsed(s)
