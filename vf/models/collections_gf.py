"""Reference models (specifications) for the utility collections of C54 / C55.

They are deliberately naive: an ordered set is a ``dict`` used as an ordered key set,
an identity set is a ``dict`` keyed on ``id()``, an immutable dict is a ``dict`` whose
mutators raise ``TypeError``.  They expose the same Python-level interface as the
classes in ``sqlalchemy.util`` so one lock-step driver (``vf/gen/collops_gf.py``) can
run the same operation on the real object and on the model and compare observations.
"""
from __future__ import annotations


class MOrderedSet:
    """set semantics + iteration order == first-insertion order."""

    def __init__(self, d=None):
        self._d = {}
        if d is not None:
            for e in d:
                self._d.setdefault(e, None)

    # -- plumbing
    def __iter__(self):
        return iter(list(self._d))

    def __len__(self):
        return len(self._d)

    def __contains__(self, e):
        return e in self._d

    def __getitem__(self, i):
        return list(self._d)[i]

    def _new(self, seq):
        return MOrderedSet(seq)

    # -- element ops
    def add(self, e):
        self._d.setdefault(e, None)

    def remove(self, e):
        del self._d[e]

    def discard(self, e):
        hash(e)  # a set hashes the element even when empty (dict.pop would not)
        self._d.pop(e, None)

    def pop(self):
        if not self._d:
            raise KeyError("pop from an empty set")
        k = list(self._d)[-1]
        del self._d[k]
        return k

    def insert(self, pos, e):
        if e in self._d:
            return
        lst = list(self._d)
        lst.insert(pos, e)
        self._d = dict.fromkeys(lst)

    def clear(self):
        self._d = {}

    def copy(self):
        return self._new(self._d)

    # -- set algebra
    def update(self, *its):
        for it in its:
            for e in it:
                self._d.setdefault(e, None)

    def union(self, *its):
        r = self.copy()
        r.update(*its)
        return r

    def _others(self, its):
        return [dict.fromkeys(list(it)) for it in its]

    def intersection(self, *its):
        os_ = self._others(its)
        return self._new([a for a in self._d if all(a in o for o in os_)])

    def difference(self, *its):
        os_ = self._others(its)
        return self._new([a for a in self._d if not any(a in o for o in os_)])

    def symmetric_difference(self, it):
        mine = dict(self._d)
        other = dict.fromkeys(list(it))
        return self._new([a for a in mine if a not in other] + [a for a in other if a not in mine])

    def intersection_update(self, *its):
        self._d = self.intersection(*its)._d

    def difference_update(self, *its):
        self._d = self.difference(*its)._d

    def symmetric_difference_update(self, it):
        self._d = self.symmetric_difference(it)._d

    # -- operators
    def __or__(self, o):
        return self.union(o)

    __add__ = __or__

    def __and__(self, o):
        return self.intersection(o)

    def __sub__(self, o):
        return self.difference(o)

    def __xor__(self, o):
        return self.symmetric_difference(o)

    def __ior__(self, o):
        self.update(o)
        return self

    def __iand__(self, o):
        self.intersection_update(o)
        return self

    def __isub__(self, o):
        self.difference_update(o)
        return self

    def __ixor__(self, o):
        self.symmetric_difference_update(o)
        return self


class MIdentitySet:
    """a set keyed on object identity."""

    def __init__(self, iterable=None):
        self._m = {}
        if iterable is not None:
            for o in iterable:
                self._m[id(o)] = o

    def __iter__(self):
        return iter(list(self._m.values()))

    def __len__(self):
        return len(self._m)

    def __contains__(self, o):
        return id(o) in self._m

    def __hash__(self):
        raise TypeError("set objects are unhashable")

    def _ids(self, it):
        if isinstance(it, MIdentitySet):
            return dict(it._m)
        return {id(o): o for o in it}

    def add(self, o):
        self._m[id(o)] = o

    def remove(self, o):
        del self._m[id(o)]

    def discard(self, o):
        self._m.pop(id(o), None)

    def pop(self):
        if not self._m:
            raise KeyError("pop from an empty set")
        return self._m.popitem()[1]

    def clear(self):
        self._m = {}

    def copy(self):
        r = MIdentitySet()
        r._m = dict(self._m)
        return r

    __copy__ = copy

    def __eq__(self, o):
        return isinstance(o, MIdentitySet) and set(self._m) == set(o._m)

    def __ne__(self, o):
        return not self.__eq__(o)

    def issubset(self, it):
        return set(self._m) <= set(self._ids(it))

    def issuperset(self, it):
        return set(self._m) >= set(self._ids(it))

    def _only(self, o):
        return isinstance(o, MIdentitySet)

    def __le__(self, o):
        return self.issubset(o) if self._only(o) else NotImplemented

    def __lt__(self, o):
        return (len(self) < len(o) and self.issubset(o)) if self._only(o) else NotImplemented

    def __ge__(self, o):
        return self.issuperset(o) if self._only(o) else NotImplemented

    def __gt__(self, o):
        return (len(self) > len(o) and self.issuperset(o)) if self._only(o) else NotImplemented

    def union(self, it):
        r = self.copy()
        r._m.update(self._ids(it))
        return r

    def update(self, it):
        self._m.update(self._ids(it))

    def difference(self, it):
        o = self._ids(it)
        r = MIdentitySet()
        r._m = {k: v for k, v in self._m.items() if k not in o}
        return r

    def intersection(self, it):
        o = self._ids(it)
        r = MIdentitySet()
        r._m = {k: v for k, v in self._m.items() if k in o}
        return r

    def symmetric_difference(self, it):
        o = self._ids(it)
        r = MIdentitySet()
        r._m = {k: v for k, v in self._m.items() if k not in o}
        r._m.update({k: v for k, v in o.items() if k not in self._m})
        return r

    def difference_update(self, it):
        self._m = self.difference(it)._m

    def intersection_update(self, it):
        self._m = self.intersection(it)._m

    def symmetric_difference_update(self, it):
        self._m = self.symmetric_difference(it)._m

    def __or__(self, o):
        return self.union(o) if self._only(o) else NotImplemented

    def __and__(self, o):
        return self.intersection(o) if self._only(o) else NotImplemented

    def __sub__(self, o):
        return self.difference(o) if self._only(o) else NotImplemented

    def __xor__(self, o):
        return self.symmetric_difference(o) if self._only(o) else NotImplemented

    def __ior__(self, o):
        if not self._only(o):
            return NotImplemented
        self.update(o)
        return self

    def __iand__(self, o):
        if not self._only(o):
            return NotImplemented
        self.intersection_update(o)
        return self

    def __isub__(self, o):
        if not self._only(o):
            return NotImplemented
        self.difference_update(o)
        return self

    def __ixor__(self, o):
        if not self._only(o):
            return NotImplemented
        self.symmetric_difference_update(o)
        return self


class MImmutableDict:
    """an unmodifiable mapping; union/merge_with return a correct mapping."""

    def __init__(self, *a, **kw):
        object.__setattr__(self, "_d", dict(*a, **kw))

    def _ro(self, *a, **kw):
        raise TypeError("immutable")

    __setitem__ = __delitem__ = clear = pop = popitem = setdefault = update = __ior__ = _ro

    def __setattr__(self, k, v):
        raise TypeError("immutable")

    def __getitem__(self, k):
        return self._d[k]

    def get(self, k, default=None):
        return self._d.get(k, default)

    def __contains__(self, k):
        return k in self._d

    def __len__(self):
        return len(self._d)

    def __iter__(self):
        return iter(dict(self._d))

    def keys(self):
        return dict(self._d).keys()

    def values(self):
        return dict(self._d).values()

    def items(self):
        return dict(self._d).items()

    def copy(self):
        return self

    def union(self, *dicts):
        d = dict(self._d)
        for o in dicts:
            if o:
                d.update(o if not isinstance(o, MImmutableDict) else o._d)
        return MImmutableDict(d)

    merge_with = union

    def __or__(self, o):
        if isinstance(o, MImmutableDict):
            o = o._d
        if not isinstance(o, dict):
            raise TypeError("unsupported")
        return MImmutableDict({**self._d, **o})

    def __ror__(self, o):
        if not isinstance(o, dict):
            raise TypeError("unsupported")
        return MImmutableDict({**o, **self._d})


class MLRU:
    """What the property demands of LRUCache, nothing more: a mapping; which keys were
    stored / deleted; a recency order of *uses* (set / get / [])."""

    def __init__(self, capacity, threshold):
        self.capacity = capacity
        self.threshold = threshold
        self.data = {}        # key -> value, keys that may still be present
        self.recency = []     # least recent ... most recent (keys of self.data)

    def touch(self, k):
        if k in self.recency:
            self.recency.remove(k)
        self.recency.append(k)

    def store(self, k, v):
        self.data[k] = v
        self.touch(k)

    def delete(self, k):
        self.data.pop(k, None)
        if k in self.recency:
            self.recency.remove(k)

    def bound(self):
        return self.capacity * (1 + self.threshold)

    def must_retain(self):
        return self.recency[-self.capacity:] if self.capacity > 0 else []
