"""Reference model of nested-transaction semantics on one Connection (C23).

A *specification*, not a re-implementation: a stack of frames, each frame a list of the
unique ids inserted while it was the innermost open (sub)transaction.

    begin / autobegin      push the root frame
    begin_nested           push a savepoint frame
    savepoint release      merge the frame (and everything above it) into its parent
    savepoint rollback     discard the frame and everything above it
    outer commit           publish every frame, empty the stack
    outer rollback/close   discard every frame, empty the stack

Handles (the Transaction objects the application holds) are ``active`` until the
(sub)transaction they stand for has ended, then ``ended`` for ever.  A handle whose
savepoint was destroyed by an *out-of-order* release / rollback of an enclosing
savepoint handle is a ``zombie``: it is gone at the SQL level although nobody called
its own commit/rollback.  After such an out-of-order operation the model is
``tainted`` until the next outer commit / rollback / close: the data transitions stay
exact, but whether an operation raises, and the in_transaction flags, are not
prescribed (the library documents this misuse as "tolerated with a warning").

``expect(op)`` -> (expectation, apply) where expectation is one of

    OK      must succeed
    RAISE   must raise (a SQLAlchemy error) and emit no state-changing DBAPI call
    NOACT   may raise or not, but must emit no state-changing DBAPI call
    EITHER  may raise or not (tainted); ``apply(raised)`` gives the transition
    SKIP    not applicable in this state (the driver does not perform it)
    FAIL    the op's COMMIT / RELEASE / ROLLBACK is going to fail: it must raise

Failure at a transaction boundary.  A failed *outer commit* leaves the root "failed": the
database transaction is still open (everything pending stays pending), every savepoint is
gone as far as the application is concerned (handles ended, in_nested_transaction False),
nothing works until rollback()/close().  A failed savepoint RELEASE / ROLLBACK TO ends that
handle and dissolves its frame into the parent (tainted).  A failed *outer rollback* is
terminal for the model (what the database still holds is undefined): only the view of the
handles right after it is prescribed - no savepoint survives its enclosing transaction.
Ids < 0 stand for rows that violate a deferred foreign key: an outer COMMIT fails while one
is pending.

and ``apply(raised: bool)`` performs the model transition.
"""
from __future__ import annotations

OK, RAISE, NOACT, EITHER, SKIP = "ok", "raise", "noact", "either", "skip"
# FAIL: the DBAPI call this op makes is going to fail (injected fault, or a deferred constraint
# reported at COMMIT): the op must raise; apply(raised) gives the state a *failed* op leaves.
FAIL = "fail"


class Handle:
    __slots__ = ("kind", "state", "gen", "ids", "n")

    def __init__(self, kind, gen, n):
        self.kind = kind        # "root" | "nested"
        self.state = "active"   # "active" | "ended" | "zombie"
        self.gen = gen          # connection generation
        self.ids = []
        self.n = n

    def __repr__(self):
        return f"<{self.kind}#{self.n} {self.state} {self.ids}>"


class TxnModel:
    def __init__(self, autocommit=False):
        self.autocommit = autocommit
        self.committed = set()
        self.frames = []      # [root, sp, sp, ...] Handle objects
        self.slots = []       # user visible handle slots (None = creation failed)
        self.ctx = []         # context-manager stack of the current connection
        self.ctx_base = 0     # entries below this index are owned by engine.begin()
        self.closed = True    # no connection yet
        self.tainted = False
        self.failed = False     # outer commit failed: root inactive but current, needs rollback
        self.terminal = False   # outer rollback failed: the model stops here
        self.gen = 0
        self.nh = 0

    # ---- views -----------------------------------------------------------
    def pending(self):
        out = []
        for f in self.frames:
            out.extend(f.ids)
        return out

    def txn_view(self):
        return self.committed | {i for i in self.pending() if i > 0}

    def has_bad(self):
        return any(i < 0 for i in self.pending())

    def in_transaction(self):
        return bool(self.frames) and not self.failed

    def in_nested(self):
        return len(self.frames) > 1

    def depth(self):
        return len(self.frames)

    def ended_handles(self):
        """user visible handles of this connection that must be dead"""
        return [(i, h) for i, h in enumerate(self.slots)
                if h is not None and h.gen == self.gen and h.state == "ended"]

    def status_of(self, h):
        if h is None:
            return "none"
        if h.gen != self.gen:
            return "oldconn-" + h.kind
        return h.state + "-" + h.kind

    # ---- helpers ---------------------------------------------------------
    def _ctx_blocked(self):
        return bool(self.ctx) and self.ctx[-1].state == "ended"

    def _new(self, kind):
        self.nh += 1
        return Handle(kind, self.gen, self.nh)

    def _autobegin(self):
        if not self.frames:
            self.frames.append(self._new("root"))

    def _end_all(self, publish):
        if publish:
            for f in self.frames:
                self.committed.update(f.ids)
        for h in self._all_live():
            h.state = "ended"
        self.frames = []
        self.tainted = False
        self.failed = False

    def _fail_commit(self):
        """the outer COMMIT failed"""
        root = self.frames[0]
        ids = self.pending()
        for h in self._all_live():
            if h is not root:
                h.state = "ended"
        root.ids = ids
        root.state = "failed"
        self.frames = [root]
        self.tainted = False
        self.failed = True

    def _fail_rollback(self):
        """the outer ROLLBACK failed"""
        self._end_all(False)
        self.terminal = True

    def _all_live(self):
        out = list(self.frames)
        out += [h for h in self.slots if h is not None and h.gen == self.gen and h.state != "ended"]
        out += [h for h in self.ctx if h.state != "ended"]
        return out

    def _zombify_above(self, idx):
        for f in self.frames[idx + 1:]:
            f.state = "zombie"

    # ---- operations ------------------------------------------------------
    def expect(self, op, arg=None):
        """op in: connect close begin nested cmb cmn ins commit rollback hc hr hx xo xe"""
        m = getattr(self, "_op_" + op)
        return m(arg) if arg is not None else m()

    def _op_connect(self):
        if not self.closed:
            return SKIP, None

        def apply(raised):
            self.gen += 1
            self.closed = False
            self.ctx = []
            self.ctx_base = 0
        return OK, apply

    def _op_close(self):
        def apply(raised):
            self._end_all(False)
            self.closed = True
        return OK, apply

    def _creating(self, kind, as_ctx):
        def fail(raised):
            self.slots.append(None)

        if self.closed or self._ctx_blocked() or self.failed:
            return RAISE, fail
        if kind == "root" and self.frames:
            return RAISE, fail

        def apply(raised):
            if raised:
                self.slots.append(None)
                return
            if kind == "nested":
                self._autobegin()
            h = self._new(kind)
            self.frames.append(h)
            self.slots.append(h)
            if as_ctx:
                self.ctx.append(h)
        return (EITHER if self.tainted else OK), apply

    def _op_begin(self):
        return self._creating("root", False)

    def _op_nested(self):
        return self._creating("nested", False)

    def _op_cmb(self):
        return self._creating("root", True)

    def _op_cmn(self):
        return self._creating("nested", True)

    def _op_bad(self, ident):
        return self._op_ins(-ident)

    def _op_ins(self, ident):
        if self.closed or self._ctx_blocked() or self.failed:
            return RAISE, (lambda raised: None)

        def apply(raised):
            if raised:
                return
            self._autobegin()
            if self.autocommit:
                self.committed.add(ident)
            else:
                self.frames[-1].ids.append(ident)
        return (EITHER if self.tainted else OK), apply

    def _outer_commit(self, fault):
        if self.failed:
            return RAISE, (lambda raised: None)
        if self.frames and (fault or self.has_bad()):
            if self.tainted:
                return SKIP, None

            def apply_f(raised):
                if raised:
                    self._fail_commit()
                else:
                    self._end_all(True)
            return FAIL, apply_f

        def apply(raised):
            if self.frames:
                self._end_all(True)
        return OK, apply

    def _outer_rollback(self, fault):
        if self.frames and fault:
            if self.tainted:
                return SKIP, None

            def apply_f(raised):
                if raised:
                    self._fail_rollback()
                else:
                    self._end_all(False)
            return FAIL, apply_f

        def apply(raised):
            if self.frames:
                self._end_all(False)
        return OK, apply

    def _op_commit(self):
        return self._outer_commit(False)

    def _op_fc(self):
        return self._outer_commit(True)

    def _op_rollback(self):
        return self._outer_rollback(False)

    def _op_fr(self):
        return self._outer_rollback(True)

    def _handle_end(self, h, how, fault=False):
        """how: 'commit' | 'rollback' (close == rollback for the data)"""
        if h is None:
            return SKIP, None
        if h.gen == self.gen and h.state == "failed":
            if how == "commit":
                return RAISE, (lambda raised: None)
            return self._outer_rollback(fault)
        if h.gen != self.gen or h.state == "ended":
            return (RAISE if how == "commit" else NOACT), (lambda raised: None)
        if h.state == "zombie":
            def apply_z(raised):
                h.state = "ended"
            return EITHER, apply_z
        # active
        if h.kind == "root":
            return self._outer_commit(fault) if how == "commit" else self._outer_rollback(fault)
        idx = self.frames.index(h)
        top = idx == len(self.frames) - 1
        if fault and self.tainted:
            return SKIP, None

        def apply(raised):
            if raised:
                # the library ends the handle whenever its RELEASE / ROLLBACK TO could not be
                # emitted (inside an ended context manager, or while another savepoint
                # demands a rollback): the SQL savepoint stays open but can no longer be
                # addressed, i.e. the frame dissolves into its parent.
                self.frames[idx - 1].ids.extend(h.ids)
                del self.frames[idx]
                h.state = "ended"
                self.tainted = True
                return
            if not top:
                self.tainted = True
                self._zombify_above(idx)
            if how == "commit":
                parent = self.frames[idx - 1]
                for f in self.frames[idx:]:
                    parent.ids.extend(f.ids)
            del self.frames[idx:]
            h.state = "ended"
        clean = top and not self.tainted and not self._ctx_blocked()
        if fault and not self._ctx_blocked():
            return FAIL, apply
        return (OK if clean else EITHER), apply

    def _slot(self, i):
        return self.slots[i] if i < len(self.slots) else None

    def _op_hc(self, i):
        return self._handle_end(self._slot(i), "commit")

    def _op_hr(self, i):
        return self._handle_end(self._slot(i), "rollback")

    def _op_hx(self, i):
        return self._handle_end(self._slot(i), "rollback")

    def _op_fhc(self, i):
        return self._handle_end(self._slot(i), "commit", fault=True)

    def _op_fhr(self, i):
        return self._handle_end(self._slot(i), "rollback", fault=True)

    def _exit(self, how):
        if len(self.ctx) <= self.ctx_base:
            return SKIP, None
        h = self.ctx[-1]
        if self.failed:
            return SKIP, None       # (what __exit__ does with a failed root is not prescribed)
        if how == "commit" and h.state == "active" and h.kind == "root" and self.has_bad():
            if self.tainted:
                return SKIP, None

            # __exit__: commit() fails, so it rolls back and re-raises
            def apply_x(raised):
                self._end_all(raised is False)
                self.ctx.pop()
            return FAIL, apply_x
        exp, inner = self._handle_end(h, how)
        if exp == RAISE:
            # __exit__ on an ended transaction never commits: it is a no-op
            exp = NOACT

        def apply(raised):
            inner(raised)
            self.ctx.pop()
        return exp, apply

    def _op_xo(self):
        return self._exit("commit")

    def _op_xe(self):
        return self._exit("rollback")
