"""Plain-list reference model of sqlalchemy.engine.Result and its filtered views (C10).

A *base* is the underlying row stream: a list of row tuples and a position.  A *handle*
is a Result / ScalarResult / MappingResult looking at a base through a column projection
and an optional uniqueness filter.  Every fetch consumes the minimal prefix of the base
needed to produce what was asked ("every row is delivered once, in order, projected and
de-duplicated as requested").

The model also encodes the *guards*: which operations have documented behaviour in the
current state (``allowed``).  Generators only emit allowed operations, so the oracle never
demands more than the documentation states.
"""
from __future__ import annotations

CLOSED_ERR = "ResourceClosedError"

ONLY_ONE = {
    # name: (raise_for_second_row, raise_for_none, scalar)
    "first": (False, False, False),
    "one": (True, True, False),
    "one_or_none": (True, False, False),
    "scalar": (False, False, True),
    "scalar_one": (True, True, True),
    "scalar_one_or_none": (True, False, True),
}
FETCH_OPS = {"fetchone", "next", "fetchmany", "fetchall", "all", "iter_take", "iter_all", "partitions"} | set(ONLY_ONE)


def norm(v):
    """type-strict, hash-free normal form of a value"""
    if isinstance(v, (list, tuple)):
        return (type(v).__name__, tuple(norm(x) for x in v))
    if isinstance(v, dict):
        return ("dict", tuple((norm(k), norm(x)) for k, x in v.items()))
    return (type(v).__name__, repr(v))


STRATEGIES = {
    None: None,
    "const": lambda x: 0,
    "ident": lambda x: x,
    "first": lambda x: x[0],
}


class MUnique:
    def __init__(self, strategy):
        self.strategy = strategy
        self.seen = set()
        self.owner = None  # first handle that fetched through this state

    def key(self, prow, scalar_source=False):
        if self.strategy is None or self.strategy == "ident":
            k = prow[0] if scalar_source else tuple(prow)
        elif self.strategy == "const":
            k = 0
        elif self.strategy == "first":
            k = prow[0]
        else:
            raise AssertionError(self.strategy)
        hash(k)  # TypeError for unhashable values, as set membership would raise
        return k


class MBase:
    def __init__(self, rows, kind, scalars_source=False, dynamic=False, keys_full=None):
        self.rows = [tuple(r) for r in rows]
        self.keys_full = list(keys_full) if keys_full is not None else None
        self.pos = 0
        self.closed = False  # True / False / None (= not documented, resolved by observation)
        self.yield_per = None
        self.fetched = False
        self.kind = kind
        self.scalars_source = scalars_source
        self.dynamic = dynamic
        self.dead = False
        self.broken = False  # after a TypeError from the unique filter the state is undefined

    def exhausted(self):
        return self.pos >= len(self.rows)


class MHandle:
    def __init__(self, name, base, kind, proj, keys, uniq=None):
        self.name = name
        self.base = base
        self.kind = kind  # row | scalar | map | frozen
        self.proj = list(proj)
        self.keys = list(keys)
        self.uniq = uniq
        self.children = 0
        self.frozen_rows = None
        self.fetches = 0            # fetching calls made through this handle
        self.unique_after_fetch = False  # view.unique() called after this view already fetched

    def project(self, raw):
        return tuple(raw[i] for i in self.proj)

    def item(self, prow):
        if self.kind == "row":
            return ("R", tuple(norm(v) for v in prow))
        if self.kind == "map":
            return ("M", tuple((k, norm(v)) for k, v in zip(self.keys, prow)))
        return ("S", norm(prow[0]))


class ResultModel:
    """model of one sequence: handles by name; 'r' is the main Result."""

    def __init__(self, rows, keys, kind, scalars_source=False, dynamic=False):
        self.handles = {}
        base = MBase(rows, kind, scalars_source, dynamic, keys_full=keys)
        self.handles["r"] = MHandle("r", base, "row", range(len(keys)), keys)
        self.nviews = 0

    # ------------------------------------------------------------------ guards
    def allowed(self, hname, op):
        h = self.handles.get(hname)
        if h is None or h.base.dead or h.base.broken:
            return False
        b = h.base
        name = op[0]
        if h.kind == "frozen":
            return name == "thaw"
        if name == "thaw":
            return False
        if name in FETCH_OPS:
            # a unique state shared between a Result and its views: only the first user
            # may fetch through it (sharing of the seen-set is undocumented)
            if h.uniq is not None and h.uniq.owner not in (None, h.name):
                return False
            if b.dynamic and name in ("fetchone", "next", "iter_take", "iter_all"):
                return False  # dynamic_yield_per re-creates the chunk iterator per fetchmany
            if name in ("fetchmany", "partitions"):
                n = op[1]
                if n is None and b.yield_per is None and h.uniq is not None:
                    return False  # default batch size is backend specific: consumption undefined
            if name in ONLY_ONE:
                if ONLY_ONE[name][2] and h.kind != "row":
                    return False  # scalar*() exist on Result only
                if h.uniq is not None and self._unhashable_ahead(h):
                    return False  # one()/first() compare rows with ==, never hash: parity undefined
            if name == "fetchone" and h.kind == "scalar":
                return False
            return True
        if name == "unique":
            if h.kind == "row" and h.children:
                return False
            if op[1] == "first" and (h.kind == "scalar" or b.scalars_source):
                return False  # whether the strategy sees the Row or the scalar is undocumented
            return True
        if name == "columns":
            if h.kind == "scalar" or (h.kind == "row" and h.children):
                return False
            idx = self._resolve_cols(h, op[1])
            if idx is None or len(set(idx)) != len(idx) or not idx:
                return False
            if b.scalars_source:
                return False
            return True
        if name == "yield_per":
            return (not b.fetched) and op[1] >= 1 and b.kind != "merged"
        if name in ("scalars", "mappings"):
            if h.kind != "row":
                return False
            if name == "scalars":
                return self._resolve_cols(h, [op[1]]) is not None
            return True
        if name == "freeze":
            return (h.kind == "row" and not b.fetched and b.closed is False and h.uniq is None and not h.children
                    and not b.dynamic)
        if name == "merge":
            return (h.kind == "row" and h.uniq is None and not h.children and b.kind in ("iter", "chunked", "thawed", "cursor-default", "cursor-fully", "cursor-buffered")
                    and b.closed is False and not b.dynamic and b.yield_per is None)
        if name in ("close", "closed", "keys", "tuples"):
            if name == "keys" and h.kind == "scalar":
                return False
            if name == "tuples" and h.kind != "row":
                return False
            return True
        raise AssertionError(op)

    def _unhashable_ahead(self, h):
        for raw in h.base.rows[h.base.pos:]:
            try:
                hash(h.project(raw))
            except TypeError:
                return True
        return False

    def _resolve_cols(self, h, cols):
        out = []
        for c in cols:
            if isinstance(c, int):
                if not -len(h.proj) <= c < len(h.proj):
                    return None
                out.append(c % len(h.proj))
            else:
                if h.keys.count(c) != 1:
                    return None
                out.append(h.keys.index(c))
        return out

    # ------------------------------------------------------------------ stream
    def _next(self, h):
        b = h.base
        while b.pos < len(b.rows):
            raw = b.rows[b.pos]
            b.pos += 1
            prow = h.project(raw)
            if h.uniq is not None:
                k = h.uniq.key(prow, b.scalars_source and h.kind == "scalar")
                if k in h.uniq.seen:
                    continue
                h.uniq.seen.add(k)
            return prow
        return None

    def _many(self, h, n):
        out = []
        while n is None or len(out) < n:
            p = self._next(h)
            if p is None:
                break
            out.append(p)
        return out

    # -------------------------------------------------------------------- apply
    def apply(self, hname, op, robs=None):
        """execute op on the model; returns the expected observation.  ``robs`` (the real
        observation) is consulted only where the documentation leaves the outcome open."""
        h = self.handles[hname]
        b = h.base
        name = op[0]
        if name in FETCH_OPS:
            if h.uniq is not None and h.uniq.owner is None:
                h.uniq.owner = h.name
            h.fetches += 1
            if b.closed is None:
                b.closed = bool(robs is not None and _is_closed_obs(robs))
            b.fetched = True
            try:
                return self._fetch(h, op, robs)
            except TypeError:
                b.broken = True
                return ("exc", "TypeError")
        if name == "unique":
            h.uniq = MUnique(op[1])
            if h.kind in ("scalar", "map") and h.fetches:
                h.unique_after_fetch = True
            return ("self",)
        if name == "columns":
            idx = self._resolve_cols(h, op[1])
            h.proj = [h.proj[i] for i in idx]
            h.keys = [h.keys[i] for i in idx]
            return ("self",)
        if name == "yield_per":
            b.yield_per = op[1]
            return ("self",)
        if name == "tuples":
            return ("self",)
        if name == "scalars":
            i = self._resolve_cols(h, [op[1]])[0]
            self.nviews += 1
            v = MHandle(op[2], b, "scalar", [h.proj[i]], [h.keys[i]], h.uniq)
            h.children += 1
            self.handles[op[2]] = v
            return ("view",)
        if name == "mappings":
            v = MHandle(op[1], b, "map", h.proj, h.keys, h.uniq)
            h.children += 1
            self.handles[op[1]] = v
            return ("view",)
        if name == "close":
            b.closed = True
            b.fetched = True
            b.pos = len(b.rows)
            return ("none",)
        if name == "closed":
            return ("bool", b.closed)
        if name == "keys":
            return ("keys", tuple(h.keys))
        if name == "freeze":
            rows = [h.project(r) for r in b.rows[b.pos:]]
            b.pos = len(b.rows)
            b.fetched = True
            f = MHandle(op[1], b, "frozen", [], h.keys)
            f.frozen_rows = rows
            f.scalars_source = b.scalars_source
            self.handles[op[1]] = f
            return ("frozen",)
        if name == "thaw":
            nb = MBase(h.frozen_rows, "thawed", scalars_source=h.scalars_source, keys_full=h.keys)
            self.handles[op[1]] = MHandle(op[1], nb, "row", range(len(h.keys)), h.keys)
            return ("result",)
        if name == "merge":
            others = op[1]  # list of row lists
            rows = b.rows[b.pos:]
            for o in others:
                rows = rows + [tuple(r) for r in o]
            nb = MBase(rows, "merged", scalars_source=b.scalars_source, keys_full=b.keys_full)
            nb.fetched = b.fetched
            b.dead = True
            self.handles[op[2]] = MHandle(op[2], nb, "row", h.proj, h.keys)
            return ("result",)
        raise AssertionError(op)

    def _fetch(self, h, op, robs):
        b = h.base
        name = op[0]
        if b.closed:
            if name in ("iter_take", "iter_all", "partitions"):
                return ("iter", (), ("exc", CLOSED_ERR))
            return ("exc", CLOSED_ERR)
        if name == "fetchone":
            p = self._next(h)
            return ("none",) if p is None else ("item", h.item(p))
        if name == "next":
            p = self._next(h)
            return ("exc", "StopIteration") if p is None else ("item", h.item(p))
        if name == "fetchmany":
            n = op[1]
            if n is None:
                n = b.yield_per
            if n is None:
                # backend-specific default batch: any non-empty prefix of what remains
                k = len(robs[1]) if robs is not None and robs[0] == "items" else 0
                rest_before = len(b.rows) - b.pos
                got = self._many(h, k)
                return ("items-prefix", tuple(h.item(p) for p in got), rest_before > 0)
            return ("items", tuple(h.item(p) for p in self._many(h, n)))
        if name in ("fetchall", "all"):
            return ("items", tuple(h.item(p) for p in self._many(h, None)))
        if name in ("iter_all", "iter_take"):
            k = op[1] if name == "iter_take" else None
            out = []
            try:
                while k is None or len(out) < k:
                    p = self._next(h)
                    if p is None:
                        return ("iter", tuple(h.item(q) for q in out), ("stop",))
                    out.append(p)
            except TypeError:
                b.broken = True
                return ("iter", tuple(h.item(q) for q in out), ("exc", "TypeError"))
            return ("iter", tuple(h.item(q) for q in out), ("more",))
        if name == "partitions":
            n, k = op[1], op[2]
            if n is None:
                n = b.yield_per
            parts = []
            try:
                while len(parts) < k:
                    if n is None:
                        # default batch size unknown: follow the observed partition sizes
                        want = None
                        if robs is not None and robs[0] == "iter" and len(robs[1]) > len(parts):
                            want = len(robs[1][len(parts)])
                        if want is None:
                            got = self._many(h, 1)
                            if got:  # real stopped although rows remain
                                return ("iter", tuple(parts) + (tuple(h.item(p) for p in got),), ("more",))
                            return ("iter", tuple(parts), ("stop",))
                        got = self._many(h, max(want, 1))
                    else:
                        got = self._many(h, n)
                    if not got:
                        return ("iter", tuple(parts), ("stop",))
                    parts.append(tuple(h.item(p) for p in got))
            except TypeError:
                b.broken = True
                return ("iter", tuple(parts), ("exc", "TypeError"))
            return ("iter", tuple(parts), ("more",))
        if name in ONLY_ONE:
            second, for_none, scalar = ONLY_ONE[name]
            was_exhausted = b.exhausted()
            p = self._next(h)
            if p is None:
                b.closed = None if was_exhausted else True
                b.pos = len(b.rows)
                return ("exc", "NoResultFound") if for_none else ("none",)
            extra = self._next(h) if second else None
            b.closed = True
            b.pos = len(b.rows)
            if extra is not None:
                return ("exc", "MultipleResultsFound")
            if scalar:
                return ("item", ("S", norm(p[0])))
            return ("item", h.item(p))
        raise AssertionError(op)


def _is_closed_obs(robs):
    if robs[0] == "exc" and robs[1] == CLOSED_ERR:
        return True
    if robs[0] == "iter" and robs[2] == ("exc", CLOSED_ERR):
        return True
    return False
