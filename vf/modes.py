"""Import modes for the repository under test.

* repo path: VERIF_REPO (default /repo) -- ``<repo>/lib`` is put first on sys.path so the
  checks always run the *current working tree*.
* cext   : as installed (the shipped ``*_cy.*.so`` shadow ``*_cy.py``).
* purepy : a ``sys.meta_path`` finder forces the seven ``sqlalchemy.*_cy`` modules to
  load from their ``.py`` source in the current tree (no Cython in this sandbox, so
  this is the only way an edit to a ``*_cy.py`` file becomes observable).

``activate()`` must be called before ``import sqlalchemy``.
"""
from __future__ import annotations

import importlib.abc
import importlib.machinery
import importlib.util
import os
import sys

CY_MODULES = (
    "sqlalchemy.util._collections_cy",
    "sqlalchemy.util._immutabledict_cy",
    "sqlalchemy.engine._processors_cy",
    "sqlalchemy.engine._result_cy",
    "sqlalchemy.engine._row_cy",
    "sqlalchemy.engine._util_cy",
    "sqlalchemy.sql._util_cy",
)


def repo_root() -> str:
    return os.environ.get("VERIF_REPO", "/repo")


def repo_lib() -> str:
    return os.path.join(repo_root(), "lib")


class _PurePyFinder(importlib.abc.MetaPathFinder):
    def find_spec(self, fullname, path, target=None):
        if fullname in CY_MODULES:
            rel = fullname.replace(".", os.sep) + ".py"
            fn = os.path.join(repo_lib(), rel)
            if os.path.exists(fn):
                loader = importlib.machinery.SourceFileLoader(fullname, fn)
                return importlib.util.spec_from_file_location(
                    fullname, fn, loader=loader
                )
        return None


_active_mode = None


def activate(mode: str = "cext") -> None:
    """Put the repo first on sys.path and select cext / purepy."""
    global _active_mode
    if "sqlalchemy" in sys.modules and _active_mode != mode:
        raise RuntimeError("modes.activate() after sqlalchemy import")
    lib = repo_lib()
    if not sys.path or sys.path[0] != lib:
        sys.path.insert(0, lib)
    if mode == "purepy":
        if not any(isinstance(f, _PurePyFinder) for f in sys.meta_path):
            sys.meta_path.insert(0, _PurePyFinder())
    elif mode != "cext":
        raise ValueError(mode)
    _active_mode = mode


def current() -> str:
    return _active_mode or "cext"


def verify_active() -> dict:
    """Report which flavour really got imported (evidence, and a guard)."""
    import sqlalchemy
    from sqlalchemy.util import _has_cython

    info = {
        "mode": current(),
        "sqlalchemy_file": sqlalchemy.__file__,
        "has_cyextension": bool(_has_cython.HAS_CYEXTENSION),
        "compiled": {},
    }
    for m in _has_cython._all_cython_modules():
        info["compiled"][m.__name__] = bool(m._is_compiled())
    return info


def load_pure(name: str, alias: str | None = None):
    """Load a ``*_cy`` module from its .py source under a private name (C55)."""
    rel = name.replace(".", os.sep) + ".py"
    fn = os.path.join(repo_lib(), rel)
    alias = alias or (name.replace(".", "_") + "__purepy")
    spec = importlib.util.spec_from_file_location(alias, fn)
    mod = importlib.util.module_from_spec(spec)
    # relative imports inside the module need the package
    mod.__package__ = name.rpartition(".")[0]
    sys.modules[alias] = mod
    spec.loader.exec_module(mod)
    return mod
