"""M-cancel: asyncio cancellation / timeout injector.

``StepDriver(coro, cancel_at=k)`` is an awaitable that steps ``coro`` itself, counts
its suspensions and, at the k-th one, calls ``asyncio.current_task().cancel()`` *before*
handing the awaited future to the event loop - so the loop delivers a **real**
cancellation at exactly that await (Task.__step sees ``_must_cancel`` and cancels the
future the coroutine is about to wait on).  Throwing CancelledError into the coroutine
by hand instead fabricates states real code cannot reach (recorded in DESIGN.md) and is
deliberately not offered.

``extra_yields`` (list of ints) inserts that many ``sleep(0)``-equivalent bare yields
before the n-th suspension to perturb task interleavings.
"""
from __future__ import annotations

import asyncio


class StepDriver:
    def __init__(self, coro, cancel_at=None, second_cancel_at=None, extra_yields=None):
        self.coro = coro
        self.cancel_at = cancel_at
        self.second_cancel_at = second_cancel_at
        self.extra_yields = extra_yields or []
        self.suspensions = 0
        self.cancels_delivered = 0
        self.cancelled_error_seen = 0
        self.tags = []

    def __await__(self):
        coro = self.coro
        value = None
        exc = None
        while True:
            try:
                if exc is not None:
                    e, exc = exc, None
                    fut = coro.throw(e)
                else:
                    fut = coro.send(value)
            except StopIteration as stop:
                return stop.value
            self.suspensions += 1
            n = self.suspensions
            if n - 1 < len(self.extra_yields):
                for _ in range(self.extra_yields[n - 1]):
                    try:
                        yield  # bare yield == asyncio.sleep(0)
                    except BaseException as e:  # cancellation from outside while yielding
                        exc = e
                        break
            if n == self.cancel_at or n == self.second_cancel_at:
                asyncio.current_task().cancel()
                self.cancels_delivered += 1
            try:
                value = yield fut
            except BaseException as e:
                if isinstance(e, asyncio.CancelledError):
                    self.cancelled_error_seen += 1
                exc = e
                value = None


async def run_driven(coro_fn, cancel_at=None, second_cancel_at=None, extra_yields=None):
    """Run ``coro_fn()`` under a StepDriver.  Returns (outcome, value, driver) with
    outcome in {"ok", "cancelled", "error"}."""
    drv = StepDriver(coro_fn(), cancel_at, second_cancel_at, extra_yields)
    try:
        val = await drv
        return "ok", val, drv
    except asyncio.CancelledError:
        # the task was really cancelled: clear the flag so the harness can go on
        t = asyncio.current_task()
        if hasattr(t, "uncancel"):
            while t.cancelling():
                t.uncancel()
        return "cancelled", None, drv
    except Exception as e:  # noqa
        return "error", e, drv
