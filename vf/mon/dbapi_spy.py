"""M-spy: a recording / fault-injecting wrapper around real sqlite3 connections.

Hand ``spy.creator(path)`` to ``create_engine("sqlite://", creator=...)`` (or use
``spy.engine(path, **kw)``).  Every DBAPI call SQLAlchemy makes is appended to
``spy.log`` as an ``Event``; a ledger of open raw connections is kept; ``spy.fault``
may raise at any call; ``spy.row_hook`` may reorder the rows a fetch returns.

The wrapper is thread-safe (one lock around log/ledger updates) and adds no behaviour
of its own: everything else is forwarded to the real sqlite3 objects.
"""
from __future__ import annotations

import itertools
import sqlite3
import threading

DISCONNECT_MSG = "Cannot operate on a closed database."


def disconnect_error():
    """An error the pysqlite dialect classifies as a disconnect."""
    return sqlite3.ProgrammingError(DISCONNECT_MSG)


class Event(dict):
    __getattr__ = dict.get


class Spy:
    def __init__(self):
        self.lock = threading.RLock()
        self.log = []
        self.n = itertools.count()
        self.conn_ids = itertools.count(1)
        self.open = {}      # conn_id -> SpyConnection (raw connections not yet closed)
        self.all = {}       # conn_id -> SpyConnection
        self.fault = None   # callable(Event) -> exception instance | None ; called BEFORE the real call
        self.after = None   # callable(Event) -> exception instance | None ; called AFTER the real call
        self.row_hook = None  # callable(cursor, rows, Event) -> rows
        self.enabled = True

    # -- recording -----------------------------------------------------
    def emit(self, kind, conn, **kw):
        with self.lock:
            ev = Event(kind=kind, n=next(self.n), conn=conn.spy_id if conn is not None else None, **kw)
            if self.enabled:
                self.log.append(ev)
        if self.fault is not None:
            exc = self.fault(ev)
            if exc is not None:
                ev["faulted"] = type(exc).__name__
                raise exc
        return ev

    def post(self, ev):
        if self.after is not None:
            exc = self.after(ev)
            if exc is not None:
                ev["faulted_after"] = type(exc).__name__
                raise exc

    def statements(self, kinds=("execute", "executemany")):
        return [(e.sql, e.params) for e in self.log if e.kind in kinds]

    def clear(self):
        with self.lock:
            del self.log[:]

    def mark(self):
        return len(self.log)

    def since(self, mark, kinds=None):
        return [e for e in self.log[mark:] if kinds is None or e.kind in kinds]

    # -- construction --------------------------------------------------
    def creator(self, path, **connect_kw):
        connect_kw.setdefault("check_same_thread", False)

        def connect():
            self.emit("connect", None, path=path)
            raw = sqlite3.connect(path, **connect_kw)
            return SpyConnection(self, raw)

        return connect

    def engine(self, path, **kw):
        import sqlalchemy as sa

        connect_kw = kw.pop("connect_kw", {})
        return sa.create_engine("sqlite://", creator=self.creator(path, **connect_kw), **kw)


class SpyConnection:
    _own = ("spy", "raw", "spy_id", "closed")

    def __init__(self, spy, raw):
        object.__setattr__(self, "spy", spy)
        object.__setattr__(self, "raw", raw)
        object.__setattr__(self, "closed", False)
        with spy.lock:
            object.__setattr__(self, "spy_id", next(spy.conn_ids))
            spy.open[self.spy_id] = self
            spy.all[self.spy_id] = self

    def __getattr__(self, name):
        return getattr(self.raw, name)

    def __setattr__(self, name, value):
        if name in self._own:
            object.__setattr__(self, name, value)
        else:
            self.spy.emit("setattr", self, name=name, value=value)
            setattr(self.raw, name, value)

    @property
    def in_transaction(self):
        return self.raw.in_transaction

    def cursor(self, *a, **kw):
        self.spy.emit("cursor", self)
        return SpyCursor(self, self.raw.cursor(*a, **kw))

    def execute(self, sql, params=()):
        ev = self.spy.emit("execute", self, sql=sql, params=params, via="connection")
        cur = SpyCursor(self, self.raw.execute(sql, params))
        self.spy.post(ev)
        return cur

    def commit(self):
        ev = self.spy.emit("commit", self, was_in_txn=self.raw.in_transaction)
        self.raw.commit()
        self.spy.post(ev)

    def rollback(self):
        ev = self.spy.emit("rollback", self, was_in_txn=self.raw.in_transaction)
        self.raw.rollback()
        self.spy.post(ev)

    def close(self):
        ev = self.spy.emit("close", self, was_in_txn=(not self.closed) and self.raw.in_transaction)
        self.raw.close()
        with self.spy.lock:
            object.__setattr__(self, "closed", True)
            self.spy.open.pop(self.spy_id, None)
        self.spy.post(ev)

    def __repr__(self):
        return f"<SpyConnection #{self.spy_id}{' closed' if self.closed else ''}>"


class SpyCursor:
    def __init__(self, conn, raw):
        self.__dict__["conn"] = conn
        self.__dict__["raw"] = raw
        self.__dict__["last"] = None

    def __getattr__(self, name):
        return getattr(self.raw, name)

    def __setattr__(self, name, value):
        if name in ("last",):
            self.__dict__[name] = value
        else:
            setattr(self.raw, name, value)

    @property
    def description(self):
        return self.raw.description

    @property
    def rowcount(self):
        return self.raw.rowcount

    @property
    def lastrowid(self):
        return self.raw.lastrowid

    def execute(self, sql, params=()):
        spy = self.conn.spy
        ev = spy.emit("execute", self.conn, sql=sql, params=params)
        self.last = ev
        self.raw.execute(sql, params)
        spy.post(ev)
        return self

    def executemany(self, sql, seq):
        spy = self.conn.spy
        seq = list(seq)
        ev = spy.emit("executemany", self.conn, sql=sql, params=seq)
        self.last = ev
        self.raw.executemany(sql, seq)
        spy.post(ev)
        return self

    def _rows(self, rows, how):
        spy = self.conn.spy
        ev = spy.emit("fetch", self.conn, how=how, nrows=len(rows) if isinstance(rows, list) else (0 if rows is None else 1),
                      sql=self.last.sql if self.last else None)
        if spy.row_hook is not None and isinstance(rows, list):
            rows = spy.row_hook(self, rows, ev)
        return rows

    def fetchone(self):
        return self._rows(self.raw.fetchone(), "one")

    def fetchmany(self, size=None):
        rows = self.raw.fetchmany() if size is None else self.raw.fetchmany(size)
        return self._rows(rows, "many")

    def fetchall(self):
        return self._rows(self.raw.fetchall(), "all")

    def __iter__(self):
        return iter(self.raw)

    def close(self):
        self.conn.spy.emit("cursor_close", self.conn)
        self.raw.close()


def observer(path):
    """M-obs: an independent raw connection that sees only committed state."""
    con = sqlite3.connect(path, timeout=0.2, isolation_level=None)
    return con


def dump_table(path, table, order_by="1"):
    con = sqlite3.connect(path, timeout=1.0)
    try:
        return con.execute(f"SELECT * FROM {table} ORDER BY {order_by}").fetchall()
    finally:
        con.close()
