"""M-fake: a recording, programmable PEP-249 module.

Used (a) to observe the (statement, parameters) stream SQLAlchemy hands to drivers of
dialects that have no server in this sandbox (postgresql, mysql/mariadb, mssql,
oracle) and (b) as a scriptable connection source for pool / disconnect fault
sequences.  It executes nothing: ``responder(sql, params)`` may fabricate
``(description, rows)``.

    fake = FakeDBAPI(paramstyle="pyformat", delegate=real_module_or_None)
    eng = fake.engine("postgresql+psycopg2://u:p@h/db")
    fake.log -> [Event(kind, conn, sql, params)]
"""
from __future__ import annotations

import itertools
import threading


class Event(dict):
    __getattr__ = dict.get


class Error(Exception):
    pass


class Warning(Exception):  # noqa: A001
    pass


class InterfaceError(Error):
    pass


class DatabaseError(Error):
    pass


class DataError(DatabaseError):
    pass


class OperationalError(DatabaseError):
    pass


class IntegrityError(DatabaseError):
    pass


class InternalError(DatabaseError):
    pass


class ProgrammingError(DatabaseError):
    pass


class NotSupportedError(DatabaseError):
    pass


_ERRS = dict(
    Error=Error, Warning=Warning, InterfaceError=InterfaceError, DatabaseError=DatabaseError,
    DataError=DataError, OperationalError=OperationalError, IntegrityError=IntegrityError,
    InternalError=InternalError, ProgrammingError=ProgrammingError, NotSupportedError=NotSupportedError,
)


class FakeDBAPI:
    apilevel = "2.0"
    threadsafety = 1
    __name__ = "fake_dbapi"

    def __init__(self, paramstyle="qmark", delegate=None, name="fake_dbapi", version="9.9.9"):
        self.paramstyle = paramstyle
        self.delegate = delegate
        self.__name__ = name
        self.__version__ = version
        self.version = version
        self.lock = threading.RLock()
        self.log = []
        self.n = itertools.count()
        self.conn_ids = itertools.count(1)
        self.connections = {}     # id -> FakeConnection (all ever opened)
        self.fault = None         # callable(Event) -> exception | None
        self.responder = None     # callable(sql, params, cursor) -> (description, rows) | None
        for k, v in _ERRS.items():
            setattr(self, k, v)

    def __getattr__(self, name):
        # constants / type objects of the real driver, or fabricated sentinels
        if name.startswith("__"):
            raise AttributeError(name)
        d = self.__dict__.get("delegate")
        if d is not None and hasattr(d, name):
            return getattr(d, name)
        if name.isupper() or name in ("Binary", "Date", "Time", "Timestamp"):
            val = _Sentinel(name)
            self.__dict__[name] = val
            return val
        raise AttributeError(name)

    # -- events ----------------------------------------------------------
    def emit(self, kind, conn, **kw):
        with self.lock:
            ev = Event(kind=kind, n=next(self.n), conn=conn.fake_id if conn is not None else None, **kw)
            self.log.append(ev)
        if self.fault is not None:
            exc = self.fault(ev)
            if exc is not None:
                ev["faulted"] = type(exc).__name__
                raise exc
        return ev

    def statements(self):
        return [(e.sql, e.params) for e in self.log if e.kind in ("execute", "executemany")]

    def clear(self):
        del self.log[:]

    def mark(self):
        return len(self.log)

    def since(self, mark, kinds=None):
        return [e for e in self.log[mark:] if kinds is None or e.kind in kinds]

    # -- PEP 249 -----------------------------------------------------------
    def connect(self, *a, **kw):
        self.emit("connect", None, args=a, kwargs=kw)
        c = FakeConnection(self)
        return c

    def engine(self, url, **kw):
        import sqlalchemy as sa
        from sqlalchemy.pool import NullPool

        kw.setdefault("poolclass", NullPool)
        kw.setdefault("_initialize", False)
        return sa.create_engine(url, module=self, **kw)

    def makedsn(self, *a, **kw):  # oracle
        return "dsn:%r:%r" % (a, sorted(kw.items()))

    @property
    def open_connections(self):
        return [c for c in self.connections.values() if not c.closed]


class _Sentinel:
    def __init__(self, name):
        self.name = name

    def __repr__(self):
        return f"<fake {self.name}>"

    def __call__(self, *a, **kw):
        return a[0] if a else None


class FakeConnection:
    def __init__(self, dbapi):
        self.dbapi = dbapi
        with dbapi.lock:
            self.fake_id = next(dbapi.conn_ids)
            dbapi.connections[self.fake_id] = self
        self.closed = False
        self.close_calls = 0
        self.in_txn = False
        self.autocommit = False
        self.used_after_close = 0
        self.info_dict = {}
        self.attrs = {}
        self.notices = []          # psycopg2
        self.encoding = "UTF8"
        self.outputtypehandler = None  # oracle
        self.stmtcachesize = 0

    def _check(self, what):
        if self.closed:
            self.used_after_close += 1
            self.dbapi.emit("use_after_close", self, what=what)

    def cursor(self, *a, **kw):
        self._check("cursor")
        self.dbapi.emit("cursor", self)
        return FakeCursor(self)

    def commit(self):
        self._check("commit")
        self.dbapi.emit("commit", self, was_in_txn=self.in_txn)
        self.in_txn = False

    def rollback(self):
        self._check("rollback")
        self.dbapi.emit("rollback", self, was_in_txn=self.in_txn)
        self.in_txn = False

    def close(self):
        self.close_calls += 1
        self.dbapi.emit("close", self, was_in_txn=self.in_txn)
        self.closed = True
        self.in_txn = False

    # driver-specific odds and ends the dialects poke at
    def set_isolation_level(self, level):
        self.dbapi.emit("set_isolation_level", self, level=level)
        self.attrs["isolation_level"] = level

    def set_session(self, **kw):
        self.dbapi.emit("set_session", self, **kw)
        self.attrs.update(kw)

    def get_autocommit(self):
        return self.autocommit

    def ping(self, *a, **kw):
        self._check("ping")
        self.dbapi.emit("ping", self)
        return True

    def character_set_name(self):
        return "utf8mb4"

    def get_server_info(self):
        return "10.6.0-MariaDB"

    def __repr__(self):
        return f"<FakeConnection #{self.fake_id}{' closed' if self.closed else ''}>"


class FakeCursor:
    arraysize = 1

    def __init__(self, conn):
        self.connection = conn
        self.description = None
        self.rowcount = -1
        self.lastrowid = None
        self._rows = []
        self.closed = False

    def _run(self, kind, sql, params):
        conn = self.connection
        conn._check(kind)
        conn.dbapi.emit(kind, conn, sql=sql, params=params)
        if not conn.autocommit:
            conn.in_txn = True
        self.description = None
        self._rows = []
        self.rowcount = -1
        r = conn.dbapi.responder
        if r is not None:
            out = r(sql, params, self)
            if out is not None:
                self.description, rows = out
                self._rows = list(rows)
                self.rowcount = len(self._rows)

    def execute(self, sql, params=None):
        self._run("execute", sql, params)
        return self

    def executemany(self, sql, seq):
        self._run("executemany", sql, list(seq))
        return self

    def fetchone(self):
        return self._rows.pop(0) if self._rows else None

    def fetchmany(self, size=None):
        size = size or self.arraysize
        out, self._rows = self._rows[:size], self._rows[size:]
        return out

    def fetchall(self):
        out, self._rows = self._rows, []
        return out

    def __iter__(self):
        return iter(self.fetchall())

    def close(self):
        self.closed = True

    def setinputsizes(self, *a, **kw):
        pass

    def setoutputsize(self, *a, **kw):
        pass

    def nextset(self):
        return None

    def callproc(self, *a, **kw):
        return None


def recording_engine(url, **kw):
    """Engine for ``url`` whose DBAPI is a FakeDBAPI delegating constants to the real
    driver module where that is installed.  Returns (engine, fake)."""
    import sqlalchemy as sa
    from sqlalchemy.engine import make_url

    u = make_url(url)
    dialect_cls = u.get_dialect()
    delegate = None
    try:
        delegate = dialect_cls.import_dbapi()
    except Exception:
        delegate = None
    paramstyle = kw.pop("fake_paramstyle", None) or getattr(delegate, "paramstyle", None) or dialect_cls.default_paramstyle
    name = getattr(delegate, "__name__", "fake_dbapi")
    fake = FakeDBAPI(paramstyle=paramstyle, delegate=delegate, name=name,
                     version=getattr(delegate, "__version__", "9.9.9"))
    eng = fake.engine(url, **kw)
    return eng, fake
