"""LineInjector -- run a callback right before the n-th execution of one source line of one
code object (sys.monitoring LINE event, Python 3.12+).

This is the smallest form of a pre-emption point: whatever another thread could do
between two lines of the monitored function is done synchronously by ``callback`` in the
same thread, so the interleaving is deterministic and replayable.  Nothing in the
repository is edited.
"""
from __future__ import annotations

import sys


class LineInjector:
    def __init__(self, code, line, callback, nth=1):
        self.code = code
        self.line = line
        self.callback = callback
        self.nth = nth
        self.hits = 0
        self.fired = 0
        self._busy = False
        self._tool = None

    def _cb(self, code, line):
        if code is not self.code or line != self.line or self._busy:
            return None
        self.hits += 1
        if self.hits == self.nth:
            self._busy = True
            try:
                self.callback()
                self.fired += 1
            finally:
                self._busy = False
        return None

    def __enter__(self):
        mon = sys.monitoring
        for tool in (4, 3):
            if mon.get_tool(tool) is None:
                mon.use_tool_id(tool, "vf-lineinject")
                self._tool = tool
                break
        else:
            raise RuntimeError("no free sys.monitoring tool id")
        mon.register_callback(self._tool, mon.events.LINE, self._cb)
        mon.set_local_events(self._tool, self.code, mon.events.LINE)
        mon.restart_events()
        return self

    def __exit__(self, *exc):
        mon = sys.monitoring
        mon.set_local_events(self._tool, self.code, 0)
        mon.register_callback(self._tool, mon.events.LINE, None)
        mon.free_tool_id(self._tool)
        self._tool = None
        return False
