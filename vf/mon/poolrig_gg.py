"""Pool / disconnect fault rig shared by C26 and C27 (group gg).

* ``VClock``      - virtual clock substituted for the *name* ``time`` inside
                    ``sqlalchemy.pool.base``: every ``time()`` call returns a strictly larger
                    value, so "older than" comparisons are exact and recycle is driven by
                    ``tick()``.
* ``Rig``         - one programmable ``FakeDBAPI`` + engine + *fault points*.  A fault point
                    is a DBAPI call the library makes (connect / cursor / execute / commit /
                    rollback / close / ping) or an invocation of one of the rig's pool event
                    listeners.  ``Rig.plan = {point_index: kind}`` arms faults; a dry run with
                    an empty plan counts the points (fault enumeration = one run per
                    point x kind).
* ledger          - every FakeConnection carries ``created_at`` (virtual time) and
                    ``close_calls``; use of a connection after close() is recorded by the
                    fake (``use_after_close`` events) and, like a real driver, answered with a
                    disconnect-classified error.
"""
from __future__ import annotations

import contextlib

FAULTABLE = ("connect", "cursor", "execute", "executemany", "commit", "rollback", "close", "ping")


class FakeInterrupt(BaseException):
    """KeyboardInterrupt-like: not an Exception."""


class FakeExit(SystemExit):
    """SystemExit-like."""


class VClock:
    def __init__(self, start=1000.0):
        self.now = start

    def time(self):
        self.now += 1.0
        return self.now

    def tick(self, n):
        self.now += n

    def peek(self):
        return self.now

    # anything else the module might ask of ``time`` comes from the real module
    def __getattr__(self, name):
        import time as _t

        return getattr(_t, name)


@contextlib.contextmanager
def virtual_time(clock):
    import sqlalchemy.pool.base as pb

    old = pb.time
    pb.time = clock
    try:
        yield clock
    finally:
        pb.time = old


DIALECTS = {
    "psycopg2": dict(
        url="postgresql+psycopg2://u:p@h/db",
        disconnect=lambda f: f.OperationalError("server closed the connection unexpectedly"),
        error=lambda f: f.OperationalError("deadlock detected"),
        closed=lambda f: f.InterfaceError("connection already closed"),
    ),
    "pymysql": dict(
        url="mysql+pymysql://u:p@h/db",
        disconnect=lambda f: f.OperationalError(2006, "MySQL server has gone away"),
        error=lambda f: f.OperationalError(1213, "Deadlock found when trying to get lock"),
        closed=lambda f: f.InterfaceError(0, "(0, '')"),
    ),
}


class Rig:
    def __init__(self, dialect="psycopg2", plan=None, clock=None, listeners=(), **engine_kw):
        import logging

        import sqlalchemy as sa

        from vf.mon.fake_dbapi import recording_engine

        # the pool logs every injected reset / close failure at ERROR level: keep shard logs small
        logging.getLogger("sqlalchemy.pool").setLevel(logging.CRITICAL + 10)
        self.sa = sa
        self.dname = dialect
        self.spec = DIALECTS[dialect]
        self.plan = dict(plan or {})
        # follow-up faults, armed once a planned fault has fired: [(point description,
        # kind, how many matching points to let pass first), ...] consumed in order - for
        # histories whose later fault positions only exist because of the earlier fault
        # (e.g. the connect() of a transparent reconnect)
        self.chain = []
        self.clock = clock
        self.npoints = 0
        self.points = []          # (index, description)
        self.fired = []           # (index, description, kind)
        self.armed = True
        self.eng, self.fake = recording_engine(self.spec["url"], **engine_kw)
        self.fake.fault = self._dbapi_fault
        self.fake.emit = self._emit
        self.uac = []             # use-after-close events
        self.dead_calls = 0
        self._orig_connect = self.fake.connect
        self.fake.connect = self._connect
        self.listener_calls = 0
        for name in listeners:
            self._listen(name)

        def on_detach(dbapi_connection, rec):
            dbapi_connection.detached = True
        sa.event.listen(self.eng, "detach", on_detach)

    # ---- event emission without a frame <-> exception reference cycle ----------
    def _emit(self, kind, conn, **kw):
        """Same contract as FakeDBAPI.emit.  The stock emit keeps the exception in a local
        of the raising frame (exception -> traceback -> frame -> local -> exception), which
        would keep every object of the failing call stack alive until a cyclic gc run -
        a C driver raising e.g. KeyboardInterrupt has no such cycle, and the pool's
        weakref-based clean-up depends on prompt deallocation."""
        from vf.mon.fake_dbapi import Event

        fake = self.fake
        with fake.lock:
            ev = Event(kind=kind, n=next(fake.n), conn=conn.fake_id if conn is not None else None, **kw)
            fake.log.append(ev)
        if fake.fault is not None:
            self._raise_fault(ev)
        return ev

    def _raise_fault(self, ev):
        exc = self.fake.fault(ev)
        if exc is not None:
            ev["faulted"] = type(exc).__name__
            try:
                raise exc
            finally:
                del exc

    # ---- ledger ------------------------------------------------------------
    def _connect(self, *a, **kw):
        c = self._orig_connect(*a, **kw)
        c.created_at = self.clock.peek() if self.clock else 0
        return c

    def conns(self):
        return list(self.fake.connections.values())

    def kill_all(self):
        """Server restart / network partition: every DBAPI connection open right now is dead
        from here on (idle ones die silently: only using them shows it)."""
        n = 0
        for c in self.open_conns():
            if not getattr(c, "dead", False):
                c.dead = True
                n += 1
        return n

    def open_conns(self):
        return [c for c in self.conns() if c.close_calls == 0]

    # ---- fault points --------------------------------------------------------
    def _point(self, desc, kinds):
        if not self.armed:
            return None
        k = self.npoints
        self.npoints += 1
        self.points.append((k, desc, kinds))
        kind = self.plan.get(k)
        if (kind is None or kind not in kinds) and self.chain and self.fired:
            d0, k0, skip = self.chain[0]
            if desc == d0 and k0 in kinds:
                if skip > 0:
                    self.chain[0] = (d0, k0, skip - 1)
                else:
                    self.chain.pop(0)
                    kind = k0
        if kind is None or kind not in kinds:
            return None
        self.fired.append((k, desc, kind))
        return kind

    def make(self, kind):
        f = self.fake
        if kind == "error":
            return self.spec["error"](f)
        if kind == "disconnect":
            return self.spec["disconnect"](f)
        if kind == "interrupt":
            return FakeInterrupt("interrupt")
        if kind == "exit":
            return FakeExit(3)
        if kind == "DisconnectionError":
            return self.sa.exc.DisconnectionError("listener says stale")
        if kind == "InvalidatePoolError":
            return self.sa.exc.InvalidatePoolError("listener says restart")
        if kind == "RuntimeError":
            return RuntimeError("listener bug")
        raise ValueError(kind)

    DBAPI_KINDS = ("error", "disconnect", "interrupt", "exit")

    def _dbapi_fault(self, ev):
        if ev.kind == "use_after_close":
            self.uac.append((ev.conn, ev.what))
            return self.spec["closed"](self.fake)
        if ev.kind not in FAULTABLE:
            return None
        if ev.conn is not None and ev.kind != "close":
            c = self.fake.connections.get(ev.conn)
            if c is not None and getattr(c, "dead", False):
                # the server side of this connection is gone (kill_all): every call on it
                # fails the way the driver reports a lost connection; not a fault *point*
                self.dead_calls += 1
                return self.spec["disconnect"](self.fake)
        kind = self._point(f"dbapi:{ev.kind}", self.DBAPI_KINDS)
        if kind:
            ev["fault_kind"] = kind
            return self.make(kind)
        return None

    def _listen(self, name):
        # a failing *checkin* listener is not among the faults the property lists (it does
        # leak the pool slot: reported as a side observation, not injected)
        kinds = {"checkout": ("DisconnectionError", "InvalidatePoolError", "RuntimeError", "interrupt"),
                 "checkin": ()}.get(name, ("RuntimeError", "interrupt"))

        def listener(*args):
            self.listener_calls += 1
            kind = self._point(f"listener:{name}", kinds)
            if kind:
                raise self.make(kind)
        self.sa.event.listen(self.eng, name, listener)

    def dispose(self):
        self.armed = False
        self.eng.dispose()
