"""M-shim (group gc): a recording PEP-249 module in front of the real sqlite3 that can
speak any paramstyle.

    shim = ShimDBAPI("pyformat")                # translate -> qmark -> real sqlite3
    eng  = shim.engine("sqlite://", paramstyle="pyformat")

* ``qmark`` / ``named`` / ``numeric`` / ``numeric_dollar`` are handed to sqlite3 unchanged
  (SQLite itself understands ``?``, ``:name``, ``:1`` and ``$1``; for the last two use the
  ``sqlite+pysqlite_numeric`` / ``sqlite+pysqlite_dollar`` test dialects whose connection
  factory (passed through here) does the tuple -> {"1": v} mapping).
* ``format`` / ``pyformat`` statements are rewritten to qmark by the independent lexer
  of ``sqltok_gc`` (placeholders resolved against the delivered parameters, ``%%`` ->
  ``%``), then executed on real sqlite3.

Every ``execute`` / ``executemany`` is appended to ``shim.log`` as
``(kind, sql, params)`` exactly as received from SQLAlchemy.
"""
from __future__ import annotations

import sqlite3

from . import sqltok_gc as tok


class ShimDBAPI:
    apilevel = "2.0"
    threadsafety = 1

    def __init__(self, paramstyle):
        self.paramstyle = paramstyle
        self.translate = paramstyle in ("format", "pyformat")
        self.log = []
        self.recording = True
        self.__name__ = "sqlite3"

    def __getattr__(self, name):
        if name.startswith("__"):
            raise AttributeError(name)
        return getattr(sqlite3, name)

    def connect(self, *a, **kw):
        kw.setdefault("check_same_thread", False)
        return ShimConnection(self, sqlite3.connect(*a, **kw))

    def engine(self, url="sqlite://", **kw):
        import sqlalchemy as sa
        from sqlalchemy.pool import StaticPool

        kw.setdefault("poolclass", StaticPool)
        return sa.create_engine(url, module=self, **kw)

    def clear(self):
        del self.log[:]

    def _run(self, target, kind, sql, params):
        if self.recording:
            self.log.append((kind, sql, params))
        if self.translate:
            try:
                if kind == "execute":
                    sql2, p2 = tok.to_qmark(sql, self.paramstyle, params)
                else:
                    seq = [tok.to_qmark(sql, self.paramstyle, p) for p in params]
            except tok.MissingParam as e:
                # what a real format / pyformat driver does with a placeholder / parameter mismatch
                raise sqlite3.ProgrammingError("paramstyle shim: %s" % e)
            if kind == "execute":
                return target.execute(sql2, p2)
            if not seq:
                return target.executemany(sql, [])
            return target.executemany(seq[0][0], [p for _, p in seq])
        if kind == "execute":
            return target.execute(sql, params)
        return target.executemany(sql, params)


class ShimConnection:
    def __init__(self, shim, raw):
        object.__setattr__(self, "_shim", shim)
        object.__setattr__(self, "_raw", raw)

    def __getattr__(self, name):
        return getattr(self._raw, name)

    def __setattr__(self, name, value):
        setattr(self._raw, name, value)

    def cursor(self, *a, **kw):
        return ShimCursor(self._shim, self._raw.cursor(*a, **kw))

    def execute(self, sql, params=()):
        return ShimCursor(self._shim, self._shim._run(self._raw, "execute", sql, params))

    def executemany(self, sql, seq):
        return ShimCursor(self._shim, self._shim._run(self._raw, "executemany", sql, list(seq)))


class ShimCursor:
    def __init__(self, shim, raw):
        self.__dict__["_shim"] = shim
        self.__dict__["_raw"] = raw

    def __getattr__(self, name):
        return getattr(self._raw, name)

    def __setattr__(self, name, value):
        setattr(self._raw, name, value)

    def execute(self, sql, params=()):
        self._shim._run(self._raw, "execute", sql, params)
        return self

    def executemany(self, sql, seq):
        self._shim._run(self._raw, "executemany", sql, list(seq))
        return self

    def __iter__(self):
        return iter(self._raw)
