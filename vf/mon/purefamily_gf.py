"""Load the pure-Python twins of the seven dual (``*_cy``) modules beside the compiled
ones, plus a parallel copy of ``engine/row.py`` and ``engine/result.py`` bound to the pure
``_row_cy`` / ``_result_cy`` / ``_util_cy`` (so Row / IteratorResult exist in two
flavours inside one process).  Nothing under /repo is touched; ``sys.modules`` entries are
swapped only while the parallel modules execute their imports and then restored.
"""
from __future__ import annotations

import importlib
import importlib.util
import os
import sys

from vf import modes

LEAVES = (
    "sqlalchemy.util._collections_cy",
    "sqlalchemy.util._immutabledict_cy",
    "sqlalchemy.engine._processors_cy",
    "sqlalchemy.engine._util_cy",
    "sqlalchemy.sql._util_cy",
    "sqlalchemy.engine._row_cy",
)


def _load_alias(name, alias):
    fn = os.path.join(modes.repo_lib(), name.replace(".", os.sep) + ".py")
    spec = importlib.util.spec_from_file_location(alias, fn)
    mod = importlib.util.module_from_spec(spec)
    mod.__package__ = name.rpartition(".")[0]
    sys.modules[alias] = mod
    spec.loader.exec_module(mod)
    return mod


class PureSet:
    """compiled[name], pure[name] for the 7 modules; row_c/row_p, result_c/result_p."""


def load():
    import sqlalchemy  # noqa: F401  (normal import first: compiled flavour)

    ps = PureSet()
    ps.compiled = {n: importlib.import_module(n) for n in modes.CY_MODULES}
    ps.pure = {}
    saved = {}

    def swap(name, mod):
        if name not in saved:
            saved[name] = sys.modules.get(name)
        sys.modules[name] = mod

    try:
        for n in LEAVES:
            ps.pure[n] = modes.load_pure(n)
        swap("sqlalchemy.engine._row_cy", ps.pure["sqlalchemy.engine._row_cy"])
        ps.row_p = _load_alias("sqlalchemy.engine.row", "sqlalchemy_engine_row__purepy")
        swap("sqlalchemy.engine.row", ps.row_p)
        ps.pure["sqlalchemy.engine._result_cy"] = modes.load_pure("sqlalchemy.engine._result_cy")
        swap("sqlalchemy.engine._result_cy", ps.pure["sqlalchemy.engine._result_cy"])
        swap("sqlalchemy.engine._util_cy", ps.pure["sqlalchemy.engine._util_cy"])
        ps.result_p = _load_alias("sqlalchemy.engine.result", "sqlalchemy_engine_result__purepy")
    finally:
        for name, mod in saved.items():
            if mod is None:
                sys.modules.pop(name, None)
            else:
                sys.modules[name] = mod
    ps.row_c = importlib.import_module("sqlalchemy.engine.row")
    ps.result_c = importlib.import_module("sqlalchemy.engine.result")
    # sanity: the two flavours are really different implementations
    ps.flavours = {n: (bool(ps.compiled[n]._is_compiled()), bool(ps.pure[n]._is_compiled())) for n in modes.CY_MODULES}
    assert ps.row_p.BaseRow is ps.pure["sqlalchemy.engine._row_cy"].BaseRow
    assert ps.result_p.BaseResultInternal is ps.pure["sqlalchemy.engine._result_cy"].BaseResultInternal
    assert ps.result_p.Row is ps.row_p.Row
    return ps
