"""M-sched: a deterministic scheduler over real threads.

Exactly one managed thread runs at a time (a baton).  Preemption points are
(a) ``sys.monitoring`` LINE events on the code objects of chosen modules and
(b) every acquire / release / wait / notify of the scheduler-aware ``Lock`` / ``RLock`` /
``Condition`` classes, which are substituted for the *name* ``threading`` inside those
modules (they create their locks lazily through that name).  Blocking is modelled,
time is virtual (strictly increasing, jumps to the earliest timer when every thread is
blocked), decisions come from a seeded PRNG or from a forced list, and are logged, so
a schedule replays exactly.  A state in which every thread is blocked and no timer is
pending is reported as a deadlock.

The scheduler never judges anything: it produces interleavings; property monitors
(ledgers updated by the worker while it is the only runnable thread) judge.
"""
from __future__ import annotations

import sys
import threading as _rt
import time as _rtime
import types

TOOL_ID = 3
_ACTIVE = None  # the Scheduler currently running (one per process at a time)


class SchedAbort(BaseException):
    """Raised inside managed threads to unwind them after deadlock / step limit."""


class HarnessStuck(Exception):
    """Wall-clock watchdog fired: the harness itself is stuck (inconclusive)."""


class Task:
    __slots__ = ("idx", "name", "fn", "thread", "gate", "state", "blocked_on", "wake_time",
                 "notified", "abort", "exc", "result", "ident")

    def __init__(self, idx, name, fn):
        self.idx = idx
        self.name = name
        self.fn = fn
        self.gate = _rt.Semaphore(0)
        self.state = "new"
        self.blocked_on = None
        self.wake_time = None
        self.notified = False
        self.abort = False
        self.exc = None
        self.result = None
        self.ident = None
        self.thread = None


class Scheduler:
    def __init__(self, rng, switch_prob=0.15, lock_switch_prob=0.5, forced=None,
                 max_steps=400_000, wall_limit=60.0):
        self.rng = rng
        self.p_line = switch_prob
        self.p_lock = lock_switch_prob
        self.forced = forced  # dict step -> task idx (None = random)
        self.max_steps = max_steps
        self.wall_limit = wall_limit
        self.tasks = []
        self.by_ident = {}
        self.current = None
        self.step = 0
        self.now = 1000.0
        self.trace = []          # (step, from_idx, to_idx, tag)
        self.preemptions = 0
        self.switches = 0
        self.blocks = 0
        self.timeouts_fired = 0
        self.deadlock = False
        self.step_limit_hit = False
        self.main_gate = _rt.Semaphore(0)
        self.busy = False        # inside scheduler code
        self.line_events = 0
        self.on_step = None      # optional callable(sched, tag) run at every yield point by the running task

    # ------------------------------------------------------------ public
    def spawn(self, fn, name=None):
        t = Task(len(self.tasks), name or f"T{len(self.tasks)}", fn)
        self.tasks.append(t)
        return t

    def time(self):
        self.now += 1e-4
        return self.now

    def run(self):
        """Run all spawned tasks to completion under this scheduler."""
        global _ACTIVE
        if _ACTIVE is not None:
            raise RuntimeError("nested scheduler")
        _ACTIVE = self
        # cyclic GC is switched off while managed threads run: a finaliser that runs
        # monitored code (-> a yield) inside some stdlib lock's critical section would
        # park a thread while it holds a real lock.  Refcount finalisers still run, at
        # deterministic points of the workers' own code.
        import gc

        gc_was = gc.isenabled()
        gc.disable()
        try:
            for t in self.tasks:
                t.thread = _rt.Thread(target=self._thread_main, args=(t,), name=t.name, daemon=True)
                t.state = "runnable"
                t.thread.start()
            first = self._choose(self.tasks, "start")
            self.current = first
            first.gate.release()
            if not self.main_gate.acquire(timeout=self.wall_limit):
                import traceback

                frames = sys._current_frames()
                dump = []
                for t in self.tasks:
                    f = frames.get(t.ident)
                    dump.append(f"--- {t.name} state={t.state} current={t is self.current}\n"
                                + ("".join(traceback.format_stack(f)[-8:]) if f else "<no frame>"))
                raise HarnessStuck(f"scheduler wall-clock watchdog after step {self.step}\n" + "\n".join(dump))
            for t in self.tasks:
                t.thread.join(timeout=5)
        finally:
            _ACTIVE = None
            if gc_was:
                gc.enable()
        return self

    def digest(self):
        import hashlib

        h = hashlib.blake2b(digest_size=8)
        for s, a, b, tag in self.trace:
            h.update(f"{s}:{a}>{b};".encode())
        return h.hexdigest()

    # ------------------------------------------------------------ threads
    def _thread_main(self, t):
        t.ident = _rt.get_ident()
        self.by_ident[t.ident] = t
        t.gate.acquire()
        try:
            if not t.abort:
                t.result = t.fn()
        except SchedAbort:
            pass
        except BaseException as e:  # recorded; the property decides what it means
            t.exc = e
        finally:
            self.busy = True
            t.state = "done"
            self._leave(t)

    def _leave(self, t):
        """Current task is done or blocked: hand the baton to somebody else."""
        nxt = self._next_after_block()
        if nxt is None:
            self.current = None
            self.busy = False
            self.main_gate.release()
            return
        self._record(t, nxt, "leave")
        self.current = nxt
        self.busy = False
        nxt.gate.release()

    def _runnable(self):
        return [t for t in self.tasks if t.state == "runnable"]

    def _next_after_block(self):
        while True:
            r = self._runnable()
            if r:
                return self._choose(r, "block")
            timers = [t for t in self.tasks if t.state == "blocked" and t.wake_time is not None]
            if timers:
                t = min(timers, key=lambda x: (x.wake_time, x.idx))
                self.now = max(self.now, t.wake_time) + 1e-4
                t.state = "runnable"
                t.notified = False
                t.wake_time = None
                self.timeouts_fired += 1
                continue
            blocked = [t for t in self.tasks if t.state == "blocked"]
            if not blocked:
                return None  # all done
            # deadlock: unwind everybody
            self.deadlock = True
            for t in blocked:
                t.abort = True
                t.state = "runnable"
            continue

    def _choose(self, cands, why):
        if len(cands) == 1:
            return cands[0]
        if self.forced is not None:
            f = self.forced.get(("pick", self.step))
            if f is not None:
                for c in cands:
                    if c.idx == f:
                        return c
            return cands[0]
        return cands[self.rng.randrange(len(cands))]

    def _record(self, a, b, tag):
        self.switches += 1
        if len(self.trace) < 5000:
            self.trace.append((self.step, a.idx if a else -1, b.idx, tag))

    # ------------------------------------------------------------ yield / block
    def _me(self):
        t = self.by_ident.get(_rt.get_ident())
        if t is None or t is not self.current or self.busy:
            return None
        return t

    def yield_point(self, tag, lock_op=False):
        t = self._me()
        if t is None:
            return
        self.busy = True
        try:
            self.step += 1
            if self.on_step is not None:
                self.on_step(self, tag)
            if self.step > self.max_steps:
                self.step_limit_hit = True
                t.abort = True
            if t.abort:
                raise SchedAbort()
            target = None
            if self.forced is not None:
                f = self.forced.get(self.step)
                if f is not None and f != t.idx:
                    for c in self.tasks:
                        if c.idx == f and c.state == "runnable":
                            target = c
            else:
                p = self.p_lock if lock_op else self.p_line
                if self.rng.random() < p:
                    others = [c for c in self.tasks if c.state == "runnable" and c is not t]
                    if others:
                        target = others[self.rng.randrange(len(others))]
            if target is None:
                return
            self.preemptions += 1
            self._record(t, target, tag)
            self.current = target
        finally:
            self.busy = False
        target.gate.release()
        t.gate.acquire()
        if t.abort:
            raise SchedAbort()

    def block(self, on, timeout=None):
        """Block the current task on resource ``on`` until ``wake`` or the virtual
        timeout.  Returns True when woken by the resource, False on timeout."""
        t = self._me()
        if t is None:
            raise RuntimeError("harness: block() from an unmanaged thread")
        self.busy = True
        self.step += 1
        self.blocks += 1
        t.state = "blocked"
        t.blocked_on = on
        t.notified = False
        t.wake_time = None if timeout is None else self.now + max(timeout, 0.0)
        self._leave(t)
        t.gate.acquire()
        t.blocked_on = None
        if t.abort:
            raise SchedAbort()
        return t.notified

    def wake(self, on, n=None, pred=None):
        """Make up to n tasks blocked on ``on`` runnable (FIFO by task blocking order is
        kept by the resource itself; here order is task index)."""
        k = 0
        for t in self.tasks:
            if t.state == "blocked" and t.blocked_on is on and (pred is None or pred(t)):
                t.state = "runnable"
                t.notified = True
                t.wake_time = None
                k += 1
                if n is not None and k >= n:
                    break
        return k

    def wake_task(self, t):
        if t.state == "blocked":
            t.state = "runnable"
            t.notified = True
            t.wake_time = None


def active():
    return _ACTIVE


# ----------------------------------------------------------------------------
# scheduler-aware synchronisation primitives
# ----------------------------------------------------------------------------
class SLock:
    """threading.Lock replacement.  Outside a scheduler run it degrades to a plain
    non-contended lock (contention from an unmanaged thread is a harness error)."""

    def __init__(self):
        self.owner = None
        self.count = 0

    _reentrant = False

    def _cur(self):
        s = _ACTIVE
        if s is None:
            return None, ("unmanaged", _rt.get_ident())
        t = s._me()
        if t is None:
            return None, ("unmanaged", _rt.get_ident())
        return s, t

    def acquire(self, blocking=True, timeout=-1):
        s, me = self._cur()
        if s is None:
            if self.owner is None or (self._reentrant and self.owner == me):
                self.owner = me
                self.count += 1
                return True
            if not blocking:
                return False
            raise RuntimeError("harness: unmanaged thread would block on a scheduler lock")
        s.yield_point(("acquire", id(self)), lock_op=True)
        while True:
            if self.owner is None:
                self.owner = me
                self.count = 1
                return True
            if self._reentrant and self.owner is me:
                self.count += 1
                return True
            if not blocking:
                return False
            ok = s.block(self, None if timeout is None or timeout < 0 else timeout)
            if not ok and self.owner is not None:
                return False

    def release(self):
        s, me = self._cur()
        if self.owner is None:
            raise RuntimeError("release unlocked lock")
        if self._reentrant:
            if self.owner != me and self.owner is not me:
                raise RuntimeError("cannot release un-acquired lock")
            self.count -= 1
            if self.count:
                return
        self.owner = None
        self.count = 0
        if s is not None:
            s.wake(self)
            s.yield_point(("release", id(self)), lock_op=True)

    def locked(self):
        return self.owner is not None

    def __enter__(self):
        self.acquire()
        return self

    def __exit__(self, *a):
        self.release()


class SRLock(SLock):
    _reentrant = True

    def _release_save(self):
        s, me = self._cur()
        saved = (self.owner, self.count)
        self.owner = None
        self.count = 0
        if s is not None:
            s.wake(self)
        return saved

    def _acquire_restore(self, saved):
        s, me = self._cur()
        while self.owner is not None:
            if s is None:
                raise RuntimeError("harness: unmanaged contended restore")
            s.block(self, None)
        self.owner, self.count = saved

    def _is_owned(self):
        s, me = self._cur()
        return self.owner is me or self.owner == me


class SCondition:
    def __init__(self, lock=None):
        self._lock = lock if lock is not None else SRLock()
        self.waiters = []
        self.acquire = self._lock.acquire
        self.release = self._lock.release

    def __enter__(self):
        self._lock.acquire()
        return self

    def __exit__(self, *a):
        self._lock.release()

    def _save(self):
        lk = self._lock
        if isinstance(lk, SRLock):
            return lk._release_save()
        lk.release()
        return None

    def _restore(self, saved):
        lk = self._lock
        if isinstance(lk, SRLock):
            lk._acquire_restore(saved)
        else:
            lk.acquire()

    def wait(self, timeout=None):
        s = _ACTIVE
        t = s._me() if s is not None else None
        if t is None:
            raise RuntimeError("harness: Condition.wait from an unmanaged thread")
        saved = self._save()
        self.waiters.append(t)
        try:
            ok = s.block(self, timeout)
        finally:
            if t in self.waiters:
                self.waiters.remove(t)
            self._restore(saved)
        return ok

    def notify(self, n=1):
        s = _ACTIVE
        k = 0
        while self.waiters and k < n:
            t = self.waiters.pop(0)
            if s is not None:
                s.wake_task(t)
            k += 1
        if s is not None:
            s.yield_point(("notify", id(self)), lock_op=True)

    def notify_all(self):
        self.notify(len(self.waiters) + 1)


class ThreadingProxy:
    """Stands in for the name ``threading`` inside a monitored module."""

    def __init__(self):
        self.created = 0

    def __getattr__(self, name):
        return getattr(_rt, name)

    def Lock(self):
        self.created += 1
        return SLock()

    def RLock(self):
        self.created += 1
        return SRLock()

    def Condition(self, lock=None):
        self.created += 1
        return SCondition(lock)


class TimeProxy:
    """Stands in for the name ``time`` (module) inside a monitored module."""

    def __getattr__(self, name):
        return getattr(_rtime, name)

    def time(self):
        s = _ACTIVE
        return s.time() if s is not None else _VCLOCK.tick()


class _VClock:
    def __init__(self):
        self.now = 1000.0

    def tick(self):
        self.now += 1e-4
        return self.now


_VCLOCK = _VClock()


def vtime():
    s = _ACTIVE
    return s.time() if s is not None else _VCLOCK.tick()


# ----------------------------------------------------------------------------
# instrumentation
# ----------------------------------------------------------------------------
class Instrumentation:
    """Install LINE-event preemption on modules and substitute threading/time names.
    Use as a context manager; everything is restored on exit."""

    def __init__(self, line_modules=(), threading_modules=(), time_names=(), lock_attrs=()):
        # lock_attrs: (module, attribute name) of module-level locks created at import
        # time (real locks): swapped for scheduler-aware ones while instrumented, so a
        # thread parked inside their critical section cannot block the baton holder.
        self.lock_attrs = [(m, a) for m, a in lock_attrs if hasattr(m, a)]
        self.line_modules = list(line_modules)
        self.threading_modules = list(threading_modules)
        self.time_names = list(time_names)  # (module, attrname, kind) kind in {"module","func"}
        self.saved = []
        self.codes = []
        self.proxy = ThreadingProxy()

    @staticmethod
    def _codes_of(mod):
        seen = set()
        out = []
        fn = getattr(mod, "__file__", None)

        def walk(code):
            if code in seen:
                return
            seen.add(code)
            if code.co_filename == fn:
                out.append(code)
            for c in code.co_consts:
                if isinstance(c, types.CodeType):
                    walk(c)

        def visit(obj, depth=0):
            if isinstance(obj, types.FunctionType):
                walk(obj.__code__)
            elif isinstance(obj, (classmethod, staticmethod)):
                visit(obj.__func__, depth)
            elif isinstance(obj, property):
                for f in (obj.fget, obj.fset, obj.fdel):
                    if f is not None:
                        visit(f, depth)
            elif isinstance(obj, type) and depth < 3 and getattr(obj, "__module__", None) == mod.__name__:
                for v in list(vars(obj).values()):
                    visit(v, depth + 1)
            else:
                f = getattr(obj, "fget", None) or getattr(obj, "__wrapped__", None) or getattr(obj, "fn", None)
                if isinstance(f, types.FunctionType) and depth < 4:
                    visit(f, depth + 1)

        for v in list(vars(mod).values()):
            visit(v)
        return out

    def __enter__(self):
        mon = sys.monitoring
        try:
            mon.use_tool_id(TOOL_ID, "vf-sched")
        except ValueError:
            pass
        mon.register_callback(TOOL_ID, mon.events.LINE, _on_line)
        for m in self.line_modules:
            for code in self._codes_of(m):
                mon.set_local_events(TOOL_ID, code, mon.events.LINE)
                self.codes.append(code)
        for m in self.threading_modules:
            self.saved.append((m, "threading", m.threading))
            m.threading = self.proxy
        for m, attr in self.lock_attrs:
            old = getattr(m, attr)
            self.saved.append((m, attr, old))
            setattr(m, attr, SRLock() if "RLock" in type(old).__name__ else SLock())
        tp = TimeProxy()
        for m, attr, kind in self.time_names:
            self.saved.append((m, attr, getattr(m, attr)))
            setattr(m, attr, tp if kind == "module" else vtime)
        return self

    def __exit__(self, *a):
        mon = sys.monitoring
        for code in self.codes:
            mon.set_local_events(TOOL_ID, code, 0)
        self.codes = []
        mon.register_callback(TOOL_ID, mon.events.LINE, None)
        try:
            mon.free_tool_id(TOOL_ID)
        except ValueError:
            pass
        for m, attr, val in reversed(self.saved):
            setattr(m, attr, val)
        self.saved = []


def _on_line(code, lineno):
    s = _ACTIVE
    if s is None or s.busy:
        return
    t = s.by_ident.get(_rt.get_ident())
    if t is None or t is not s.current:
        return
    s.line_events += 1
    s.yield_point((code.co_name, lineno))
