"""Helpers shared by C09/C12/C13/C56 (group gd).

* ``spy_engine(spy, path, paramstyle, **kw)``: a Spy engine on a SQLite file that runs
  under any of SQLAlchemy's paramstyles sqlite3 can be made to accept: ``qmark``,
  ``named`` (native), ``numeric`` (``:1``) and ``numeric_dollar`` (``$1``).  For the two
  numeric styles the *raw* sqlite3 connection gets a cursor factory that turns the
  positional tuple into ``{"1": v1, "2": v2...}`` - the same adaptation SQLAlchemy's
  own test-only dialects ``pysqlite_numeric`` / ``pysqlite_dollar`` use - so the spy
  still records exactly what SQLAlchemy handed to the DBAPI.
* ``Permuter``: a ``row_hook`` for the spy that applies a seeded non-identity
  permutation to every multi-row fetch of an ``INSERT ... RETURNING`` statement (a
  backend is free to deliver RETURNING rows in any order) and counts what it did.
"""
from __future__ import annotations

import random
import sqlite3

PARAMSTYLES = ("qmark", "named", "numeric", "numeric_dollar")


def _as_numeric_dict(parameters):
    if parameters and isinstance(parameters, (tuple, list)):
        return {str(i): v for i, v in enumerate(parameters, 1)}
    return parameters


def _numeric_factory(first_bind):
    class Cur(sqlite3.Cursor):
        def execute(self, sql, parameters=()):
            if first_bind in sql:
                parameters = _as_numeric_dict(parameters)
            return super().execute(sql, parameters)

        def executemany(self, sql, parameters):
            if first_bind in sql:
                parameters = [_as_numeric_dict(p) for p in parameters]
            return super().executemany(sql, parameters)

    class Conn(sqlite3.Connection):
        def cursor(self, factory=None):
            return super().cursor(factory=Cur if factory is None else factory)

        def execute(self, sql, parameters=()):
            if first_bind in sql:
                parameters = _as_numeric_dict(parameters)
            return super().execute(sql, parameters)

    return Conn


def spy_engine(spy, path, paramstyle="qmark", **kw):
    connect_kw = dict(kw.pop("connect_kw", {}))
    if paramstyle == "numeric":
        connect_kw["factory"] = _numeric_factory(":1")
    elif paramstyle == "numeric_dollar":
        connect_kw["factory"] = _numeric_factory("$1")
    elif paramstyle not in ("qmark", "named"):
        raise ValueError(paramstyle)
    return spy.engine(path, paramstyle=paramstyle, connect_kw=connect_kw, **kw)


class Permuter:
    """spy.row_hook: permute multi-row RETURNING fetches of INSERT statements."""

    def __init__(self, seed, prefixes=("INSERT",)):
        self.rng = random.Random(seed)
        self.prefixes = prefixes
        self.enabled = True
        self.batches = 0        # multi-row INSERT..RETURNING fetches seen
        self.permuted = 0       # ... delivered in a non-identity order
        self.case_permuted = 0  # reset by the workload per case

    def reset_case(self):
        self.case_permuted = 0

    def __call__(self, cursor, rows, ev):
        sql = (ev.sql or "").lstrip()
        if not self.enabled or len(rows) < 2 or not sql.startswith(self.prefixes) or "RETURNING" not in sql:
            return rows
        self.batches += 1
        out = list(rows)
        self.rng.shuffle(out)
        if all(a is b for a, b in zip(out, rows)):
            out = out[1:] + out[:1]
        self.permuted += 1
        self.case_permuted += 1
        return out
