"""M-tok (group ga): small independent SQL token models.

* ``lex(sql, dialect, paramstyle)``: tokens of kind
    string  - string literal, ``value`` = decoded python str (per dialect rules)
    number  - numeric literal
    param   - DBAPI placeholder of the given paramstyle (``name`` for named styles)
    ident / qident - bare / quoted identifier (``value`` = decoded name)
    kw      - keyword (upper-cased ``text``)
    op      - operator;  punct - ( ) , . ;
    comment - ``--`` / ``#`` / ``/* */`` comment (kept: a literal that opens a comment
              changes the statement shape, which C05 looks for)
* ``Parser``: Pratt parser for the *expression* sub-language SQLAlchemy emits, with one
  precedence table per dialect (see TABLES; transcribed from the vendors' grammars /
  documentation - the SQLite table is calibrated by execution in C01).
* helpers: ``shape`` (token sequence with literals and placeholders replaced by ``?``),
  ``param_values``, ``where_fragment``, ``is_plain_sql``, ``to_sqlite_text``.

String literal grammars (trusted transcription of the vendors' documentation):
  sqlite     '...' with '' doubling; no backslash escapes
  postgresql '...' with '' doubling; backslash is literal (standard_conforming_strings=on,
             the server default since 9.1); E'...' has backslash escapes; $tag$...$tag$
  mysql      '...' and "..." with doubling and backslash escapes (default sql_mode,
             NO_BACKSLASH_ESCAPES off); ``--`` opens a comment only if followed by
             whitespace/control; ``#`` comments
  mssql      '...' / N'...' with '' doubling; [..] and ".." quoted identifiers
  oracle     '...' / N'...' with '' doubling; no backslash escapes
For the paramstyles format / pyformat ``%%`` stands for one ``%`` everywhere in the
statement (the driver %-formats the whole text), including inside literals.
"""
from __future__ import annotations

KEYWORDS = {
    "SELECT", "FROM", "WHERE", "AND", "OR", "NOT", "IS", "NULL", "IN", "LIKE", "ILIKE", "BETWEEN", "ESCAPE",
    "CASE", "WHEN", "THEN", "ELSE", "END", "CAST", "AS", "DISTINCT", "EXISTS", "ORDER", "BY", "GROUP", "HAVING",
    "LIMIT", "OFFSET", "VALUES", "INSERT", "INTO", "UPDATE", "SET", "DELETE", "TRUE", "FALSE", "COLLATE",
    "UNION", "INTERSECT", "EXCEPT", "ALL", "ANY", "ASC", "DESC", "FETCH", "FIRST", "NEXT", "ROWS", "ONLY", "TOP",
    "DUAL", "RETURNING", "ON", "JOIN", "LEFT", "OUTER", "INNER", "ROW", "WITH", "MINUS",
}

MYSQL_BACKSLASH = {"0": "\0", "'": "'", '"': '"', "b": "\b", "n": "\n", "r": "\r", "t": "\t", "Z": "\x1a", "\\": "\\"}

OPS3 = ("<=>", "->>", "!>=")
OPS2 = ("<=", ">=", "<>", "!=", "||", "::", "==", "<<", ">>", "->", "!<", "!>", ":=", "&&")
OPS1 = "+-*/%<>=~!&|^"


class Tok:
    def __init__(self, kind, text, value=None, pos=0, name=None):
        self.kind, self.text, self.value, self.pos, self.name = kind, text, value, pos, name
        self.index = None  # k-th placeholder of the statement (param tokens only)

    def __repr__(self):
        return f"{self.kind}:{self.text}"


class LexError(Exception):
    pass


def _pct(dialect, paramstyle):
    return paramstyle in ("format", "pyformat")


def lex(sql, dialect, paramstyle=None, keep_comments=True, backslash_escapes=None):
    """Tokenise ``sql`` under ``dialect``'s lexical rules.  Raises LexError on an
    unterminated literal / quoted identifier / comment."""
    toks = []
    i, n = 0, len(sql)
    pct = _pct(dialect, paramstyle)
    while i < n:
        c = sql[i]
        if c.isspace():
            i += 1
            continue
        # ---- comments
        if c == "-" and sql.startswith("--", i):
            is_comment = True
            if dialect == "mysql":
                nxt = sql[i + 2:i + 3]
                is_comment = nxt == "" or nxt.isspace() or ord(nxt) < 32
            if is_comment:
                j = sql.find("\n", i)
                j = n if j < 0 else j
                toks.append(Tok("comment", sql[i:j], pos=i))
                i = j
                continue
        if c == "#" and dialect == "mysql":
            j = sql.find("\n", i)
            j = n if j < 0 else j
            toks.append(Tok("comment", sql[i:j], pos=i))
            i = j
            continue
        if c == "/" and sql.startswith("/*", i):
            j = sql.find("*/", i + 2)
            if j < 0:
                raise LexError(f"unterminated /* comment at {i}")
            toks.append(Tok("comment", sql[i:j + 2], pos=i))
            i = j + 2
            continue
        # ---- string literals
        if c == "'" or (c == '"' and dialect == "mysql") or (
            c in "NnEeBbXx" and sql[i + 1:i + 2] == "'" and _prefix_ok(c, dialect)
        ):
            start = i
            prefix = ""
            if c not in "'\"":
                prefix = c.upper()
                i += 1
            q = sql[i]
            i += 1
            backslash = dialect == "mysql" or (dialect == "postgresql" and prefix == "E")
            if backslash_escapes is not None and prefix != "E":
                backslash = backslash_escapes  # mysql NO_BACKSLASH_ESCAPES / pg standard_conforming_strings=off
            out = []
            while True:
                if i >= n:
                    raise LexError(f"unterminated string literal at {start}")
                ch = sql[i]
                if ch == q:
                    if sql[i + 1:i + 2] == q:
                        out.append(q)
                        i += 2
                        continue
                    i += 1
                    break
                if ch == "\\" and backslash:
                    if i + 1 >= n:
                        raise LexError(f"unterminated string literal at {start}")
                    e = sql[i + 1]
                    if dialect == "mysql" or prefix != "E":
                        if e in MYSQL_BACKSLASH:
                            out.append(MYSQL_BACKSLASH[e])
                        elif e in "%_":
                            out.append("\\" + e)  # kept for LIKE
                        else:
                            out.append(e)
                    else:
                        out.append({"n": "\n", "t": "\t", "r": "\r", "b": "\b", "f": "\f"}.get(e, e))
                    i += 2
                    continue
                if ch == "%" and pct:
                    if sql[i + 1:i + 2] == "%":
                        out.append("%")
                        i += 2
                        continue
                    # a lone % inside a literal would be eaten by the driver's %-formatting
                    raise LexError(f"unescaped % inside string literal at {i} (paramstyle {paramstyle})")
                out.append(ch)
                i += 1
            toks.append(Tok("string", sql[start:i], value="".join(out), pos=start, name=prefix))
            continue
        if c == "$" and dialect == "postgresql":
            j = i + 1
            while j < n and (sql[j].isalnum() or sql[j] == "_"):
                j += 1
            if j < n and sql[j] == "$" and not sql[i + 1:j].isdigit() or (j == i + 1 and j < n and sql[j] == "$"):
                tag = sql[i:j + 1]
                k = sql.find(tag, j + 1)
                if k < 0:
                    raise LexError(f"unterminated dollar quote at {i}")
                toks.append(Tok("string", sql[i:k + len(tag)], value=sql[j + 1:k], pos=i, name="$"))
                i = k + len(tag)
                continue
        # ---- quoted identifiers
        if c == '"' or (c == "`" and dialect in ("mysql", "sqlite")) or (c == "[" and dialect in ("mssql", "sqlite") and _bracket_ident(sql, i)):
            close = {"[": "]"}.get(c, c)
            start = i
            i += 1
            out = []
            while True:
                if i >= n:
                    raise LexError(f"unterminated quoted identifier at {start}")
                ch = sql[i]
                if ch == close:
                    if sql[i + 1:i + 2] == close:
                        out.append(close)
                        i += 2
                        continue
                    i += 1
                    break
                if ch == "%" and pct and sql[i + 1:i + 2] == "%":
                    out.append("%")
                    i += 2
                    continue
                out.append(ch)
                i += 1
            toks.append(Tok("qident", sql[start:i], value="".join(out), pos=start))
            continue
        # ---- placeholders
        if paramstyle == "qmark" and c == "?":
            toks.append(Tok("param", "?", pos=i))
            i += 1
            continue
        if paramstyle in ("named", "numeric") and c == ":" and sql[i + 1:i + 2] != ":" and (i == 0 or sql[i - 1] != ":"):
            j = i + 1
            while j < n and (sql[j].isalnum() or sql[j] == "_"):
                j += 1
            if j > i + 1:
                toks.append(Tok("param", sql[i:j], pos=i, name=sql[i + 1:j]))
                i = j
                continue
        if paramstyle == "numeric_dollar" and c == "$" and sql[i + 1:i + 2].isdigit():
            j = i + 1
            while j < n and sql[j].isdigit():
                j += 1
            toks.append(Tok("param", sql[i:j], pos=i, name=sql[i + 1:j]))
            i = j
            continue
        if pct and c == "%":
            if sql[i + 1:i + 2] == "%":
                toks.append(Tok("op", "%", pos=i))
                i += 2
                continue
            if paramstyle == "format" and sql[i + 1:i + 2] == "s":
                toks.append(Tok("param", "%s", pos=i))
                i += 2
                continue
            if paramstyle == "pyformat" and sql[i + 1:i + 2] == "(":
                j = sql.find(")s", i)
                if j < 0:
                    raise LexError(f"bad pyformat placeholder at {i}")
                toks.append(Tok("param", sql[i:j + 2], pos=i, name=sql[i + 2:j]))
                i = j + 2
                continue
            raise LexError(f"lone % at {i} under paramstyle {paramstyle}")
        # ---- numbers
        if c.isdigit() or (c == "." and sql[i + 1:i + 2].isdigit()):
            j = i
            while j < n and sql[j].isdigit():
                j += 1
            if j < n and sql[j] == ".":
                j += 1
                while j < n and sql[j].isdigit():
                    j += 1
            if j < n and sql[j] in "eE":
                k = j + 1
                if k < n and sql[k] in "+-":
                    k += 1
                if k < n and sql[k].isdigit():
                    while k < n and sql[k].isdigit():
                        k += 1
                    j = k
            toks.append(Tok("number", sql[i:j], pos=i))
            i = j
            continue
        # ---- identifiers / keywords
        if c.isalpha() or c == "_" or (c == "@" and dialect == "mssql"):
            j = i + 1
            while j < n and (sql[j].isalnum() or sql[j] in "_$#"):
                j += 1
            w = sql[i:j]
            if w.upper() in KEYWORDS:
                toks.append(Tok("kw", w.upper(), pos=i))
            else:
                toks.append(Tok("ident", w, value=w, pos=i))
            i = j
            continue
        # ---- operators / punctuation
        if c in "(),.;":
            toks.append(Tok("punct", c, pos=i))
            i += 1
            continue
        for ops in (OPS3, OPS2):
            m = next((o for o in ops if sql.startswith(o, i)), None)
            if m:
                break
        if m:
            toks.append(Tok("op", m, pos=i))
            i += len(m)
            continue
        if c in OPS1 or c in ":?[]$@{}":
            toks.append(Tok("op", c, pos=i))
            i += 1
            continue
        raise LexError(f"unexpected character {c!r} at {i}")
    k = 0
    for t in toks:
        if t.kind == "param":
            t.index = k
            k += 1
    if not keep_comments:
        toks = [t for t in toks if t.kind != "comment"]
    return toks


def _prefix_ok(c, dialect):
    c = c.upper()
    if c == "N":
        return dialect in ("mssql", "oracle", "mysql", "postgresql")
    if c == "E":
        return dialect == "postgresql"
    if c in "BX":
        return True
    return False


def _bracket_ident(sql, i):
    j = sql.find("]", i)
    return j > i + 1 and "\n" not in sql[i:j]


def shape(toks):
    """token sequence with literals and placeholders replaced by '?'"""
    out = []
    for t in toks:
        if t.kind in ("string", "number", "param"):
            out.append("?")
        elif t.kind == "ident":
            out.append(t.text.lower())
        else:
            out.append(t.text)
    return out


def param_values(ph_tokens, params, paramstyle):
    """values the driver would substitute for the given placeholder tokens, in order"""
    if paramstyle in ("named", "pyformat"):
        return [params[t.name] for t in ph_tokens]
    if paramstyle in ("numeric", "numeric_dollar"):
        return [params[int(t.name) - 1] for t in ph_tokens]
    params = list(params)
    # positional: the k-th placeholder of the *statement*; callers pass a contiguous
    # slice, so map by counting from the statement's first placeholder
    return [params[t.index] for t in ph_tokens]


# ---------------------------------------------------------------------------
# Pratt parser
# ---------------------------------------------------------------------------
# binding powers: higher binds tighter.  Keys: binary operator text -> level; special
# keys: "NOT" (prefix), "NEG" (unary - + ~), "IS", "PRED" (BETWEEN / IN / LIKE / ILIKE),
# "ESCAPE", "COLLATE", "CAST" (postfix ::)
def _levels(rows):
    t = {}
    for lvl, names in enumerate(rows, 1):
        for nme in names.split():
            t[nme] = lvl * 10
    return t


TABLES = {
    # https://sqlite.org/lang_expr.html "Operators, and Parse-Affecting Attributes"
    "sqlite": _levels([
        "OR", "AND", "NOT", "= == <> != IS PRED", "< > <= >=", "ESCAPE", "& | << >>", "+ -", "* / %", "|| -> ->>",
        "COLLATE", "NEG",
    ]),
    # https://www.postgresql.org/docs/current/sql-syntax-lexical.html#SQL-PRECEDENCE
    "postgresql": _levels([
        "OR", "AND", "NOT", "IS", "< > = <= >= <> !=", "PRED", "ESCAPE", "|| -> ->> & | # << >> OTHER", "+ -", "* / %", "^",
        "COLLATE", "NEG", "CAST",
    ]),
    # MySQL sql_yacc.yy: expr > bool_pri (IS, comparison) > predicate (IN BETWEEN LIKE) > bit_expr > simple_expr
    "mysql": _levels([
        "OR ||", "XOR", "AND &&", "NOT", "= <=> >= > <= < <> != IS", "PRED", "ESCAPE", "|", "&", "<< >>", "+ -", "* / % DIV MOD", "^",
        "NEG", "COLLATE",
    ]),
    # T-SQL: scalar expressions ( * / % > + - & ^ | ) below predicates; NOT > AND > OR
    "mssql": _levels([
        "OR", "AND", "NOT", "= > < >= <= <> != !> !< IS PRED", "ESCAPE", "+ - & ^ |", "* / %", "COLLATE", "NEG",
    ]),
    # Oracle SQL Language Reference, "Operator Precedence" + "Condition Precedence"
    "oracle": _levels([
        "OR", "AND", "NOT", "= != < > <= >= <> ^= IS PRED", "ESCAPE", "+ - ||", "* /", "COLLATE", "NEG",
    ]),
}

CMP_OPS = {"=", "==", "<>", "!=", "<", ">", "<=", ">=", "<=>", "^=", "!<", "!>"}


class ParseError(Exception):
    pass


class Parser:
    """expression parser; AST = nested tuples:
    ("atom", text) ("paren", x) ("un", op, x) ("bin", op, l, r) ("is", neg, x, rhs)
    ("between", neg, x, lo, hi) ("like", op, neg, x, pat, esc) ("in", neg, x, items)
    ("call", name, args) ("cast", x, typetext) ("pgcast", x, typetext) ("case", whens, else)
    ("row", items) ("subq", text) ("exists", subq) ("collate", x, name)
    """

    def __init__(self, toks, dialect):
        self.toks = [t for t in toks if t.kind != "comment"]
        self.i = 0
        self.dialect = dialect
        self.tab = TABLES[dialect]

    # -- token helpers
    def peek(self, k=0):
        j = self.i + k
        return self.toks[j] if j < len(self.toks) else None

    def next(self):
        t = self.peek()
        if t is None:
            raise ParseError("unexpected end")
        self.i += 1
        return t

    def is_kw(self, t, *names):
        return t is not None and t.kind == "kw" and t.text in names

    def is_p(self, t, ch):
        return t is not None and t.kind == "punct" and t.text == ch

    def expect_p(self, ch):
        t = self.next()
        if not self.is_p(t, ch):
            raise ParseError(f"expected {ch!r} got {t!r} at {t.pos}")

    def expect_kw(self, name):
        t = self.next()
        if not self.is_kw(t, name):
            raise ParseError(f"expected {name} got {t!r} at {t.pos}")

    # -- entry
    def parse(self):
        e = self.expr(0)
        if self.peek() is not None:
            raise ParseError(f"trailing tokens at {self.peek().pos}: {self.peek()!r}")
        return e

    def lbp(self, t):
        """(level, kind) of the infix construct starting at token t, or None"""
        tab = self.tab
        if t is None:
            return None
        if t.kind == "op":
            if t.text == "::" and "CAST" in tab:
                return tab["CAST"], "pgcast"
            if t.text in tab:
                return tab[t.text], "bin"
            if self.dialect == "postgresql" and "OTHER" in tab and t.text not in "(),":
                return tab["OTHER"], "bin"
            return None
        if t.kind == "kw":
            if t.text in ("AND", "OR"):
                return tab[t.text], "bin"
            if t.text == "IS":
                return tab["IS"], "is"
            if t.text in ("BETWEEN", "IN", "LIKE", "ILIKE"):
                return tab["PRED"], "pred"
            if t.text == "NOT":
                n2 = self.peek(1)
                if self.is_kw(n2, "BETWEEN", "IN", "LIKE", "ILIKE"):
                    return tab["PRED"], "pred"
                return None
            if t.text == "COLLATE":
                return tab["COLLATE"], "collate"
        if t.kind == "ident" and t.text.upper() in ("DIV", "MOD", "XOR") and t.text.upper() in tab:
            return tab[t.text.upper()], "bin"
        return None

    def expr(self, min_bp):
        left = self.prefix()
        while True:
            t = self.peek()
            info = self.lbp(t)
            if info is None:
                break
            bp, kind = info
            if bp <= min_bp:
                break
            if kind == "bin":
                self.next()
                op = t.text.upper()
                right = self.expr(bp)  # left associative
                left = ("bin", op, left, right)
            elif kind == "pgcast":
                self.next()
                left = ("pgcast", left, self.typetext())
            elif kind == "collate":
                self.next()
                nm = self.next()
                left = ("collate", left, nm.text)
            elif kind == "is":
                self.next()
                neg = False
                if self.is_kw(self.peek(), "NOT"):
                    self.next()
                    neg = True
                if self.is_kw(self.peek(), "DISTINCT"):
                    self.next()
                    self.expect_kw("FROM")
                    right = self.expr(bp)
                    left = ("bin", "IS NOT DISTINCT FROM" if neg else "IS DISTINCT FROM", left, right)
                else:
                    right = self.expr(bp)
                    left = ("is", neg, left, right)
            elif kind == "pred":
                neg = False
                if self.is_kw(self.peek(), "NOT"):
                    self.next()
                    neg = True
                k = self.next().text
                if k == "BETWEEN":
                    lo = self.expr(self.tab["AND"])
                    self.expect_kw("AND")
                    hi = self.expr(bp)
                    left = ("between", neg, left, lo, hi)
                elif k == "IN":
                    self.expect_p("(")
                    if self.is_kw(self.peek(), "SELECT", "VALUES", "WITH"):
                        items = ("subq", self.balanced_text())
                    else:
                        items = []
                        if not self.is_p(self.peek(), ")"):
                            items.append(self.expr(0))
                            while self.is_p(self.peek(), ","):
                                self.next()
                                items.append(self.expr(0))
                        self.expect_p(")")
                        items = tuple(items)
                    left = ("in", neg, left, items)
                else:
                    pat = self.expr(bp)
                    esc = None
                    if self.is_kw(self.peek(), "ESCAPE"):
                        self.next()
                        esc = self.expr(self.tab["ESCAPE"])
                    left = ("like", k, neg, left, pat, esc)
            else:
                raise ParseError(kind)
        return left

    def typetext(self):
        out = []
        t = self.next()
        out.append(t.text)
        while self.peek() is not None and self.peek().kind in ("ident", "kw") and not self.is_kw(self.peek(), "AND", "OR", "IS", "NOT", "IN", "LIKE", "BETWEEN", "THEN", "ELSE", "END", "WHEN", "AS", "ESCAPE", "FROM", "COLLATE"):
            out.append(self.next().text)
        if self.is_p(self.peek(), "("):
            out.append("(" + self.balanced_text() + ")")
        return " ".join(out)

    def balanced_text(self):
        """consume up to and including the matching ')' (the '(' is already consumed)"""
        depth = 1
        out = []
        while True:
            t = self.next()
            if self.is_p(t, "("):
                depth += 1
            elif self.is_p(t, ")"):
                depth -= 1
                if depth == 0:
                    return " ".join(out)
            out.append("?" if t.kind == "param" else t.text)

    def prefix(self):
        t = self.next()
        tab = self.tab
        if t.kind == "kw":
            if t.text == "NOT":
                if self.is_kw(self.peek(), "EXISTS"):
                    self.next()
                    self.expect_p("(")
                    return ("un", "NOT", ("exists", self.balanced_text()))
                return ("un", "NOT", self.expr(tab["NOT"]))
            if t.text == "EXISTS":
                self.expect_p("(")
                return ("exists", self.balanced_text())
            if t.text == "CASE":
                whens = []
                base = None
                if not self.is_kw(self.peek(), "WHEN"):
                    base = self.expr(0)
                while self.is_kw(self.peek(), "WHEN"):
                    self.next()
                    w = self.expr(0)
                    self.expect_kw("THEN")
                    th = self.expr(0)
                    whens.append((w, th))
                el = None
                if self.is_kw(self.peek(), "ELSE"):
                    self.next()
                    el = self.expr(0)
                self.expect_kw("END")
                return ("case", base, tuple(whens), el)
            if t.text == "CAST":
                self.expect_p("(")
                x = self.expr(0)
                self.expect_kw("AS")
                ty = []
                depth = 0
                while True:
                    u = self.next()
                    if self.is_p(u, "("):
                        depth += 1
                    elif self.is_p(u, ")"):
                        if depth == 0:
                            break
                        depth -= 1
                    ty.append(u.text)
                return ("cast", x, " ".join(ty))
            if t.text in ("NULL", "TRUE", "FALSE"):
                return ("atom", t.text)
            if t.text in ("LEFT",) and self.is_p(self.peek(), "("):
                return self.call(t.text)
            raise ParseError(f"unexpected keyword {t.text} at {t.pos}")
        if t.kind == "op":
            if t.text in ("-", "+", "~"):
                return ("un", t.text, self.expr(tab["NEG"] - 1))
            if t.text == "!" and self.dialect == "mysql":
                return ("un", "!", self.expr(tab["NEG"] - 1))
            raise ParseError(f"unexpected operator {t.text} at {t.pos}")
        if t.kind == "punct":
            if t.text == "(":
                if self.is_kw(self.peek(), "SELECT", "VALUES", "WITH"):
                    return ("subq", self.balanced_text())
                first = self.expr(0)
                if self.is_p(self.peek(), ","):
                    items = [first]
                    while self.is_p(self.peek(), ","):
                        self.next()
                        items.append(self.expr(0))
                    self.expect_p(")")
                    return ("row", tuple(items))
                self.expect_p(")")
                return ("paren", first)
            raise ParseError(f"unexpected {t.text!r} at {t.pos}")
        if t.kind in ("ident", "qident"):
            if t.kind == "ident" and self.is_p(self.peek(), "("):
                return self.call(t.text)
            name = [t.text]
            while self.is_p(self.peek(), ".") and self.peek(1) is not None and self.peek(1).kind in ("ident", "qident"):
                self.next()
                name.append(self.next().text)
            return ("atom", ".".join(name))
        if t.kind in ("number", "string", "param"):
            return ("atom", "?" if t.kind == "param" else t.text)
        raise ParseError(f"unexpected token {t!r}")

    def call(self, name):
        self.expect_p("(")
        args = []
        if self.is_kw(self.peek(), "DISTINCT"):
            self.next()
        if self.peek() is not None and self.peek().kind == "op" and self.peek().text == "*" and self.is_p(self.peek(1), ")"):
            self.next()
            args.append(("atom", "*"))
        if not self.is_p(self.peek(), ")"):
            args.append(self.expr(0))
            while self.is_p(self.peek(), ","):
                self.next()
                args.append(self.expr(0))
        self.expect_p(")")
        return ("call", name.lower(), tuple(args))


def parse_expr(sql, dialect, paramstyle=None):
    return Parser(lex(sql, dialect, paramstyle), dialect).parse()


ASSOC = {"+", "*", "||", "AND", "OR"}


def normalize(ast, assoc=ASSOC, dialect=None):
    """drop parenthesis nodes; flatten chains of the operators SQLAlchemy treats as
    associative into ("chain", op, operands)."""
    k = ast[0]
    N = lambda x: normalize(x, assoc, dialect)  # noqa: E731
    if k == "paren":
        return N(ast[1])
    if k == "atom" or k == "subq" or k == "exists":
        return ast
    if k == "un":
        return ("un", ast[1], N(ast[2]))
    if k == "bin":
        op = ast[1]
        l, r = N(ast[2]), N(ast[3])
        if op in assoc:
            items = []
            for x in (l, r):
                if x[0] == "chain" and x[1] == op:
                    items.extend(x[2])
                else:
                    items.append(x)
            return ("chain", op, tuple(items))
        return ("bin", op, l, r)
    if k == "is":
        return ("is", ast[1], N(ast[2]), N(ast[3]))
    if k == "between":
        return ("between", ast[1], N(ast[2]), N(ast[3]), N(ast[4]))
    if k == "like":
        return ("like", ast[1], ast[2], N(ast[3]), N(ast[4]), N(ast[5]) if ast[5] is not None else None)
    if k == "in":
        items = ast[3]
        if items and items[0] == "subq" and isinstance(items[1], str):
            return ("in", ast[1], N(ast[2]), items)
        return ("in", ast[1], N(ast[2]), tuple(N(x) for x in items))
    if k == "call":
        args = tuple(N(a) for a in ast[2])
        if ast[1] == "concat" and "||" in assoc:  # mysql: concat() nests are flattened by SQLAlchemy too
            items = []
            for a in args:
                if a[0] == "call" and a[1] == "concat":
                    items.extend(a[2])
                else:
                    items.append(a)
            args = tuple(items)
        return ("call", ast[1], args)
    if k in ("cast", "pgcast"):
        return (k, N(ast[1]), ast[2])
    if k == "collate":
        return ("collate", N(ast[1]), ast[2])
    if k == "case":
        return ("case", N(ast[1]) if ast[1] is not None else None, tuple((N(w), N(t)) for w, t in ast[2]), N(ast[3]) if ast[3] is not None else None)
    if k == "row":
        return ("row", tuple(N(x) for x in ast[1]))
    raise ValueError(k)


def render_paren(ast):
    """fully parenthesised SQL text of an AST (generic syntax; used to calibrate the
    SQLite table by execution: original text and this rendering must agree)."""
    k = ast[0]
    R = render_paren
    if k == "atom":
        return ast[1]
    if k == "paren":
        return "(" + R(ast[1]) + ")"
    if k == "subq":
        return "(" + ast[1] + ")"
    if k == "exists":
        return "(EXISTS (" + ast[1] + "))"
    if k == "un":
        return "(" + ast[1] + " " + R(ast[2]) + ")"
    if k == "bin":
        return "(" + R(ast[2]) + " " + ast[1] + " " + R(ast[3]) + ")"
    if k == "is":
        return "(" + R(ast[2]) + (" IS NOT " if ast[1] else " IS ") + R(ast[3]) + ")"
    if k == "between":
        return "(" + R(ast[2]) + (" NOT BETWEEN " if ast[1] else " BETWEEN ") + R(ast[3]) + " AND " + R(ast[4]) + ")"
    if k == "like":
        s = "(" + R(ast[3]) + (" NOT " if ast[2] else " ") + ast[1] + " " + R(ast[4])
        if ast[5] is not None:
            s += " ESCAPE " + R(ast[5])
        return s + ")"
    if k == "in":
        items = ast[3]
        if items and items[0] == "subq" and isinstance(items[1], str):
            inner = items[1]
        else:
            inner = ", ".join(R(x) for x in items)
        return "(" + R(ast[2]) + (" NOT IN (" if ast[1] else " IN (") + inner + "))"
    if k == "call":
        return ast[1] + "(" + ", ".join(R(a) for a in ast[2]) + ")"
    if k == "cast":
        return "CAST(" + R(ast[1]) + " AS " + ast[2] + ")"
    if k == "pgcast":
        return "(" + R(ast[1]) + ")::" + ast[2]
    if k == "collate":
        return "(" + R(ast[1]) + " COLLATE " + ast[2] + ")"
    if k == "case":
        s = "CASE"
        if ast[1] is not None:
            s += " " + R(ast[1])
        for w, t in ast[2]:
            s += " WHEN " + R(w) + " THEN " + R(t)
        if ast[3] is not None:
            s += " ELSE " + R(ast[3])
        return "(" + s + " END)"
    if k == "row":
        return "(" + ", ".join(R(x) for x in ast[1]) + ")"
    raise ValueError(k)


# ---------------------------------------------------------------------------
# statement-level helpers
# ---------------------------------------------------------------------------
def split_select(sql, dialect, paramstyle):
    """-> dict(columns=text, where=text|None) for a simple single-level
    ``SELECT <cols> FROM <t> [WHERE <cond>] [ORDER BY ...]`` statement (top level only)."""
    toks = [t for t in lex(sql, dialect, paramstyle) if t.kind != "comment"]
    depth = 0
    marks = {}
    for idx, t in enumerate(toks):
        if t.kind == "punct" and t.text == "(":
            depth += 1
        elif t.kind == "punct" and t.text == ")":
            depth -= 1
        elif depth == 0 and t.kind == "kw" and t.text in ("SELECT", "FROM", "WHERE", "ORDER", "GROUP", "HAVING", "LIMIT", "OFFSET", "FETCH") and t.text not in marks:
            marks[t.text] = idx
    return toks, marks


def where_tokens(sql, dialect, paramstyle):
    toks, marks = split_select(sql, dialect, paramstyle)
    if "WHERE" not in marks:
        return None
    end = min([marks[k] for k in ("ORDER", "GROUP", "HAVING", "LIMIT", "OFFSET", "FETCH") if k in marks and marks[k] > marks["WHERE"]] + [len(toks)])
    return toks[marks["WHERE"] + 1:end]


def column_tokens(sql, dialect, paramstyle):
    """tokens of the select list (between SELECT and the top-level FROM)"""
    toks, marks = split_select(sql, dialect, paramstyle)
    end = marks.get("FROM", len(toks))
    return toks[marks["SELECT"] + 1:end]


def split_top_commas(toks):
    out, cur, depth = [], [], 0
    for t in toks:
        if t.kind == "punct" and t.text == "(":
            depth += 1
        elif t.kind == "punct" and t.text == ")":
            depth -= 1
        if depth == 0 and t.kind == "punct" and t.text == ",":
            out.append(cur)
            cur = []
        else:
            cur.append(t)
    out.append(cur)
    return out


def strip_label(toks):
    """drop a trailing ``AS label``"""
    if len(toks) >= 2 and toks[-2].kind == "kw" and toks[-2].text == "AS":
        return toks[:-2]
    return toks


def where_fragment(sql, dialect, paramstyle):
    return where_tokens(sql, dialect, paramstyle)


PLAIN_KW = {"NULL", "AND", "OR", "NOT", "IN", "SELECT", "FROM", "WHERE", "AS", "CAST", "IS"}
PLAIN_IDENT = {"m", "x", "y", "z", "_empty_set", "dual", "integer", "int", "number", "signed", "_in_0", "_in_1", "_in_2"}


def is_plain_sql(toks, dialect, paramstyle):
    for t in toks:
        if t.kind == "param" or t.kind == "comment" or t.kind == "string":
            return False
        if t.kind == "kw" and t.text not in PLAIN_KW and t.text != "DUAL":
            return False
        if t.kind == "ident" and t.text.lower() not in PLAIN_IDENT:
            return False
    return True


def to_sqlite_text(toks, dialect, paramstyle):
    out = []
    skip_from_dual = False
    for idx, t in enumerate(toks):
        if t.kind == "kw" and t.text == "FROM" and idx + 1 < len(toks) and toks[idx + 1].text.upper() == "DUAL":
            skip_from_dual = True
            continue
        if skip_from_dual:
            skip_from_dual = False
            continue
        if t.kind == "qident":
            out.append('"' + t.value.replace('"', '""') + '"')
        else:
            out.append(t.text)
    text = " ".join(out)
    return text.replace(" . ", ".").replace("( ", "(").replace(" )", ")")


# ---------------------------------------------------------------------------
# reference LIKE matcher (standard SQL LIKE ... ESCAPE semantics)
# ---------------------------------------------------------------------------
def like_compile(pattern, escape=None, dialect="sqlite"):
    """-> list of items: ("lit", ch) | ("any",) | ("one",) | ("set", negated, chars)
    Raises ValueError for a pattern the standard calls invalid (dangling escape)."""
    items = []
    i, n = 0, len(pattern)
    while i < n:
        ch = pattern[i]
        if escape is not None and ch == escape:
            if i + 1 >= n:
                raise ValueError("dangling escape")
            items.append(("lit", pattern[i + 1]))
            i += 2
            continue
        if escape is None and ch == "\\" and dialect in ("mysql", "postgresql"):
            # default escape character of these two dialects
            if i + 1 < n:
                items.append(("lit", pattern[i + 1]))
                i += 2
                continue
        if ch == "%":
            items.append(("any",))
        elif ch == "_":
            items.append(("one",))
        elif ch == "[" and dialect == "mssql":
            j = pattern.find("]", i + 1)
            if j < 0:
                items.append(("lit", ch))
            else:
                body = pattern[i + 1:j]
                neg = body.startswith("^")
                if neg:
                    body = body[1:]
                chars = set()
                k = 0
                while k < len(body):
                    if k + 2 < len(body) and body[k + 1] == "-":
                        for o in range(ord(body[k]), ord(body[k + 2]) + 1):
                            chars.add(chr(o))
                        k += 3
                    else:
                        chars.add(body[k])
                        k += 1
                items.append(("set", neg, frozenset(chars)))
                i = j + 1
                continue
        else:
            items.append(("lit", ch))
        i += 1
    return items


def like_match(items, s, casefold=False):
    if casefold:
        s = s.lower()

    def m(pi, si):
        while pi < len(items):
            it = items[pi]
            if it[0] == "any":
                for k in range(si, len(s) + 1):
                    if m(pi + 1, k):
                        return True
                return False
            if si >= len(s):
                return False
            c = s[si]
            if it[0] == "lit":
                lc = it[1].lower() if casefold else it[1]
                if c != lc:
                    return False
            elif it[0] == "set":
                inside = c in it[2]
                if inside == it[1]:
                    return False
            pi += 1
            si += 1
        return si == len(s)

    return m(0, 0)
