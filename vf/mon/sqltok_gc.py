"""M-tok (group gc): a small independent SQL lexer for placeholders and literals.

It knows nothing about SQLAlchemy.  ``lex(sql, style)`` walks an SQL string once and
returns tokens in text order:

    ("ph", key)     a placeholder; key = None (qmark / format), int (numeric, numeric_dollar,
                    1-based) or str (named / pyformat)
    ("num", text)   an unsigned numeric literal outside identifiers
    ("str", text)   a '...' string literal, unquoted ('' -> ')
    ("kw", WORD)    selected keywords / parens (only when ``structure=True``)

Skipped: "quoted identifiers", `backtick identifiers`, -- and /* */ comments, PG ``::``
casts, words (identifiers may contain digits / $).  For ``format`` / ``pyformat`` a ``%%``
is the escape for one percent sign (when ``double_percents``), inside and outside string
literals, as the PEP-249 drivers of those styles treat it.

``resolve(tokens, params)`` maps every placeholder token to the value the DBAPI would
use for it.  ``to_qmark(sql, style, params)`` rewrites a statement of any style into a
qmark statement + positional tuple (used by the executing paramstyle shim).
"""
from __future__ import annotations

STYLES = ("qmark", "numeric", "numeric_dollar", "named", "format", "pyformat")


class LexError(Exception):
    pass


class MissingParam(Exception):
    pass


def _isword(ch):
    return ch.isalnum() or ch == "_"


def lex(sql, style, double_percents=None, spans=False, structure=False, backslash=False):
    """Return the token list (with (start, end) spans appended when ``spans``)."""
    if style not in STYLES:
        raise ValueError(style)
    if double_percents is None:
        double_percents = style in ("format", "pyformat")
    out = []
    i, n = 0, len(sql)

    def add(kind, val, a, b):
        out.append((kind, val, a, b) if spans else (kind, val))

    while i < n:
        ch = sql[i]
        if ch == "'":
            j = i + 1
            buf = []
            while True:
                if j >= n:
                    raise LexError("unterminated string literal at %d" % i)
                c = sql[j]
                if c == "'":
                    if j + 1 < n and sql[j + 1] == "'":
                        buf.append("'")
                        j += 2
                        continue
                    break
                if backslash and c == "\\" and j + 1 < n:
                    buf.append(sql[j + 1])
                    j += 2
                    continue
                if c == "%" and double_percents and j + 1 < n and sql[j + 1] == "%":
                    buf.append("%")
                    j += 2
                    continue
                buf.append(c)
                j += 1
            add("str", "".join(buf), i, j + 1)
            i = j + 1
            continue
        if ch == '"' or ch == "`":
            j = i + 1
            while True:
                if j >= n:
                    raise LexError("unterminated quoted identifier at %d" % i)
                if sql[j] == ch:
                    if j + 1 < n and sql[j + 1] == ch:
                        j += 2
                        continue
                    break
                j += 1
            i = j + 1
            continue
        if ch == "-" and sql.startswith("--", i):
            j = sql.find("\n", i)
            i = n if j < 0 else j + 1
            continue
        if ch == "/" and sql.startswith("/*", i):
            j = sql.find("*/", i + 2)
            if j < 0:
                raise LexError("unterminated comment")
            i = j + 2
            continue
        if ch == ":":
            if sql.startswith("::", i):
                i += 2
                continue
            if style == "numeric" and i + 1 < n and sql[i + 1].isdigit():
                j = i + 1
                while j < n and sql[j].isdigit():
                    j += 1
                add("ph", int(sql[i + 1:j]), i, j)
                i = j
                continue
            if style == "named" and i + 1 < n and _isword(sql[i + 1]):
                j = i + 1
                while j < n and _isword(sql[j]):
                    j += 1
                add("ph", sql[i + 1:j], i, j)
                i = j
                continue
            i += 1
            continue
        if ch == "$" and style == "numeric_dollar" and i + 1 < n and sql[i + 1].isdigit():
            j = i + 1
            while j < n and sql[j].isdigit():
                j += 1
            add("ph", int(sql[i + 1:j]), i, j)
            i = j
            continue
        if ch == "?" and style == "qmark":
            add("ph", None, i, i + 1)
            i += 1
            continue
        if ch == "%" and style in ("format", "pyformat"):
            if double_percents and sql.startswith("%%", i):
                i += 2
                continue
            if style == "format" and sql.startswith("%s", i):
                add("ph", None, i, i + 2)
                i += 2
                continue
            if style == "pyformat" and sql.startswith("%(", i):
                j = sql.find(")s", i)
                if j < 0:
                    raise LexError("bad pyformat placeholder at %d" % i)
                add("ph", sql[i + 2:j], i, j + 2)
                i = j + 2
                continue
            i += 1
            continue
        if ch.isdigit():
            j = i
            while j < n and sql[j].isdigit():
                j += 1
            if j + 1 < n and sql[j] == "." and sql[j + 1].isdigit():
                j += 1
                while j < n and sql[j].isdigit():
                    j += 1
            add("num", sql[i:j], i, j)
            i = j
            continue
        if ch.isalpha() or ch == "_":
            j = i
            while j < n and (_isword(sql[j]) or sql[j] == "$"):
                j += 1
            if structure:
                w = sql[i:j].upper()
                if w in ("VALUES", "RETURNING", "SELECT", "FROM", "WHERE"):
                    add("kw", w, i, j)
            i = j
            continue
        if structure and ch in "()":
            add("kw", ch, i, i + 1)
        i += 1
    return out


def resolve(tokens, params, style):
    """Replace each ("ph", key) by ("val", value): what a conforming DBAPI of ``style``
    would bind at that placeholder.  Raises MissingParam."""
    out = []
    seq = 0
    for t in tokens:
        if t[0] != "ph":
            out.append(t)
            continue
        key = t[1]
        try:
            if style in ("qmark", "format"):
                v = params[seq]
                seq += 1
            elif style in ("numeric", "numeric_dollar"):
                if key < 1:
                    raise IndexError(key)
                v = params[key - 1]
            else:
                v = params[key]
        except (IndexError, KeyError, TypeError) as e:
            raise MissingParam("placeholder %r (#%d) has no parameter: %s" % (key, len(out), type(e).__name__))
        out.append(("val", v) + tuple(t[2:]))
    if style in ("qmark", "format"):
        nparams = len(params) if params is not None else 0
        if seq != nparams:
            raise MissingParam("%d placeholders but %d positional parameters" % (seq, nparams))
    return out


def to_qmark(sql, style, params, double_percents=None):
    """Translate (sql, params) of any paramstyle to (qmark_sql, tuple)."""
    if double_percents is None:
        double_percents = style in ("format", "pyformat")
    toks = lex(sql, style, double_percents=double_percents, spans=True)
    res = resolve([t for t in toks if t[0] == "ph"], params if params is not None else (), style)
    parts, vals, pos = [], [], 0
    for t in res:
        a, b = t[2], t[3]
        parts.append(sql[pos:a])
        parts.append("?")
        vals.append(t[1])
        pos = b
    parts.append(sql[pos:])
    # un-double %% in the non-placeholder text, as format/pyformat drivers do
    if double_percents:
        parts = [p if p == "?" else p.replace("%%", "%") for p in parts]
    return "".join(parts), tuple(vals)


def norm(v):
    """Canonical comparable form of a literal token / delivered value."""
    if isinstance(v, bool):
        return ("n", int(v))
    if isinstance(v, int):
        return ("n", v)
    if isinstance(v, float):
        return ("n", int(v)) if v == int(v) else ("f", v)
    if isinstance(v, str):
        return ("s", v)
    if v is None:
        return ("null",)
    return ("o", repr(v))


def literal_seq(tokens):
    """Token list -> list of canonical values (numbers, strings, resolved values)."""
    out = []
    for t in tokens:
        k = t[0]
        if k == "num":
            out.append(("n", int(t[1])) if "." not in t[1] else ("f", float(t[1])))
        elif k == "str":
            out.append(("s", t[1]))
        elif k == "val":
            out.append(norm(t[1]))
        elif k == "ph":
            raise LexError("unresolved placeholder")
    return out
