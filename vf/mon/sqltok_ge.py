"""M-tok (identifier part): small independent lexers for the *quoted identifier grammar*
of each backend, transcribed from the vendors' documentation.  They know nothing about
SQLAlchemy: they take a piece of SQL text that is supposed to be a dotted chain of
identifiers and return the decoded components, or raise ``LexError``.

  sqlite      "..." with "" ;  (also [..] and `..`, which SQLAlchemy never emits)
  postgresql  "..." with ""            bare: [a-z_\\u0080-][a-z0-9_$\\u0080-]*  (folds to lower)
  mysql       `...` with ``            bare: [0-9a-zA-Z$_\\u0080-]+ (not digits only)
  mssql       [...] with ]] ; "..."    bare: [a-zA-Z_@#\\u0080-][\\w@#$]*
  oracle      "..." no escape at all   bare: [a-zA-Z\\u0080-][a-zA-Z0-9_$#\\u0080-]*

The SQLite instance is calibrated against the real SQLite by the checks that use it
(``SELECT 1 AS <text>`` then ``cursor.description``).
"""
from __future__ import annotations

import re


class LexError(Exception):
    pass


GRAMMAR = {
    "sqlite": {"quotes": {'"': ('"', True), "[": ("]", False), "`": ("`", True)},
               "bare": re.compile(r"[A-Za-z_\u0080-￿][A-Za-z0-9_$\u0080-￿]*\Z")},
    "postgresql": {"quotes": {'"': ('"', True)},
                   "bare": re.compile(r"[A-Za-z_\u0080-￿][A-Za-z0-9_$\u0080-￿]*\Z")},
    "mysql": {"quotes": {"`": ("`", True)},
              "bare": re.compile(r"(?![0-9]+\Z)[0-9A-Za-z$_\u0080-￿]+\Z")},
    "mariadb": {"quotes": {"`": ("`", True)},
                "bare": re.compile(r"(?![0-9]+\Z)[0-9A-Za-z$_\u0080-￿]+\Z")},
    "mssql": {"quotes": {"[": ("]", True), '"': ('"', True)},
              "bare": re.compile(r"[A-Za-z_@#\u0080-￿][A-Za-z0-9_@#$\u0080-￿]*\Z")},
    "oracle": {"quotes": {'"': ('"', False)},
               "bare": re.compile(r"[A-Za-z\u0080-￿][A-Za-z0-9_$#\u0080-￿]*\Z")},
}

# how an unquoted (regular) identifier is folded by the backend
FOLD = {"sqlite": None, "postgresql": "lower", "mysql": None, "mariadb": None, "mssql": None, "oracle": "upper"}


def split_dotted(text: str, dialect: str):
    """-> list of (decoded_name, was_quoted).  The whole text must be consumed."""
    g = GRAMMAR[dialect]
    out = []
    i, n = 0, len(text)
    expect_ident = True
    while True:
        if i >= n:
            if expect_ident:
                raise LexError("identifier expected at end")
            return out
        ch = text[i]
        if not expect_ident:
            if ch != ".":
                raise LexError(f"'.' expected at {i}, got {ch!r}")
            i += 1
            expect_ident = True
            continue
        if ch in g["quotes"]:
            close, doubled = g["quotes"][ch]
            j = i + 1
            buf = []
            while True:
                if j >= n:
                    raise LexError("unterminated quoted identifier")
                c = text[j]
                if c == close:
                    if doubled and j + 1 < n and text[j + 1] == close:
                        buf.append(close)
                        j += 2
                        continue
                    break
                if c == "\x00":
                    raise LexError("NUL in identifier")
                buf.append(c)
                j += 1
            if not buf:
                raise LexError("zero-length delimited identifier")
            out.append(("".join(buf), True))
            i = j + 1
        else:
            j = i
            while j < n and text[j] != ".":
                j += 1
            tok = text[i:j]
            if not g["bare"].match(tok):
                raise LexError(f"not a regular identifier: {tok!r}")
            out.append((tok, False))
            i = j
        expect_ident = False


def percent_collapse(sql: str) -> str:
    """What a format/pyformat driver (``query % args``) sends to the server for text that
    holds no placeholders: ``%%`` -> ``%``.  A lone ``%`` is an error there."""
    out = []
    i = 0
    while i < len(sql):
        if sql[i] == "%":
            if i + 1 < len(sql) and sql[i + 1] == "%":
                out.append("%")
                i += 2
                continue
            raise LexError("lone % under a format-style driver")
        out.append(sql[i])
        i += 1
    return "".join(out)
