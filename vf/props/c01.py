"""C01 -- rendered SQL preserves the meaning of the expression tree.

Part A (deciding, SQLite, executed): every generated tree is built twice from one
description (vf/gen/expr_ga.py): with the public operators only, and with every node
wrapped in ``Grouping`` (the reference the statement names).  Both are executed as
``SELECT id, <expr> FROM t ORDER BY id`` (and as a WHERE filter for boolean trees) on a
real SQLite database with ~40 hostile rows, with bound values and with
``literal_binds``.  Per-row, type-aware equality of the two result columns is the
oracle; an error in exactly one form is a violation, the same error in both is a
counted skip.

Part B (grammar level, no execution): for postgresql / mysql / mssql / oracle the two
forms are compiled, parsed by the Pratt parser of vf/mon/sqltok_ga.py under that
dialect's documented precedence table, parentheses dropped, chains of the operators
SQLAlchemy itself treats as associative flattened, and the two parse trees compared.
The SQLite instance of the same parser is calibrated by execution in every run
(parse -> re-render fully parenthesised -> execute -> same rows as the original).

Guards (why the oracle is not stricter than the library):
 * integer magnitudes are bounded statically (expr_ga.bound) so SQLite never
   overflows int64 into floats; float-typed operands never sit in a same-operator
   ``+``/``*`` chain (flattening re-associates by design; float addition is not
   associative).
 * ``== None`` / ``true()`` constant folding is not compared against a grouped NULL
   (``x == None`` means IS NULL by design): NULL constants are typed binds, IS NULL is
   its own node kind.
 * Boolean columns only hold 0/1/NULL (``x = 1`` vs ``x`` differ for other integers on
   non-native-boolean backends; that is outside the statement).
 * the result column is compared on raw driver values (result processors differ
   between a Grouping and the element it wraps; they are not the subject).
 * ``literal_binds`` renderings that still contain bound parameters (a dialect visitor
   dropped ``**kw``: C05's subject) are a counted skip, never a C01 verdict.
 * part B drops NOT over rewritable predicates and true()/false() members (negation
   rewriting and constant folding are judged by execution in part A), canonicalises
   mirrored comparisons / ``x = 1`` AsBoolean renderings / double negation on BOTH parse
   trees, and skips a pair whose *reference* form the token model cannot parse (counted).
 * a conjunction that folds to the constant true()/false() and is then used as an
   operand of an ordering comparison / LIKE is refused by SQLAlchemy at construction
   time (ArgumentError, by design): counted skip.
 * mechanisms are computed from a structurally shrunken witness: the first known-defect
   pattern the smallest still-differing tree contains, else the operator classes of
   its top two levels.

Constant folding: 9% of the boolean nodes are ``Gen.folding`` shapes -- and_/or_ over
plain boolean operands (Boolean column, boolean CASE, boolean function, boolean bind)
with true()/false()/Python True/False members in any position, single-operand
and_()/or_(), mostly under NOT -- the paths where a conjunction collapses to the
AsBoolean wrapper of one operand (counted, required).

Defects this check found on the original tree.  Only the first is still open (5 of 6
generated trees are rewritten by ``expr_ga.sanitize`` so that they do not contain it
and cannot be masked by it); the others have been repaired in /repo and their patterns
are ordinary workload now (selftest/C01/reverse-*.diff re-introduce them):
  concat-operand-arith-ungrouped   ``s.concat(a - b)`` -> ``s || a - b``: on SQLite ``||``
        binds tighter than arithmetic, on Oracle/MSSQL it has the precedence of + -
  asboolean-operand-ungrouped      ``AsBoolean.self_group`` never parenthesises:
        ``s.concat(~p)`` -> ``s || p = 0``;  PG: ``(~p).is_(None)`` -> ``NOT p IS NULL``
  between-bound-ungrouped          ``q.between(x, a == 5)`` -> ``q BETWEEN x AND a = 5``
  negation-of-is-keeps-is          ``~p.is_(q)`` -> ``p IS q`` (operator_lookup negate_op)
  neg-of-negative-literal          ``-literal(-5)`` + literal_binds -> ``--5`` (a comment)
"""
from __future__ import annotations

import sqlite3

META = {
    "id": "C01",
    "level": "exploration",
    "technique": "differential execution on SQLite of minimal vs fully Grouping-wrapped rendering of generated typed expression trees; Pratt-parser tree equality under documented precedence tables for PG/MySQL/MSSQL/Oracle, parser calibrated by execution on SQLite",
    "level_text": "Seeded random typed trees (arithmetic, concat, comparisons, AND/OR/NOT, IS, BETWEEN, LIKE, IN, CASE, CAST, scalar subqueries, functions) to depth 3 (quick) / 5 (thorough) evaluated on every row of a 40-row hostile table in four ways (select/where x bound/literal). Exploration of a large input space: the verdict is 'no difference on K trees covering these operator pairs'.",
    "level_note": "Only SQLite executes. PostgreSQL/MySQL/MSSQL/Oracle are judged on compiled text with transcribed precedence tables (trusted base: vendor documentation as transcribed in vf/mon/sqltok_ga.py; the parser machinery itself is calibrated on SQLite by execution). Integer overflow and float re-association are excluded by construction. Boolean columns hold only 0/1/NULL.",
    "design_ref": "DESIGN.md section 4, C01",
    "rule": "case = one tree description; non-trivial = >=2 operators of different SQLAlchemy precedence level, or a NOT / unary minus; distinct by tree digest",
    "shards": {"quick": 8, "thorough": 16},
    "soft_s": {"quick": 70, "thorough": 800},
    "exhaustive": {"quick": False, "thorough": False},
    "require": ["exec_pairs_compared", "rows_compared", "nontrivial_trees", "negation_rewrites_seen", "flattened_seen", "value_rows_non_null",
                "grammar_pairs_compared", "calibration_trees", "negated_folding_conjunctions_seen",
                "negated_conjunction_folding_to_plain_boolean_seen"],
    "assumptions": [
        "SQLite treats redundant parentheses as transparent (no affinity change): documented, and relied on by the reference form",
        "transcribed precedence tables of PG/MySQL/MSSQL/Oracle are correct (part B only)",
    ],
}


def norm(v):
    if isinstance(v, float):
        return ("f", repr(v))
    if isinstance(v, bytes):
        return ("x", v.hex())
    return (type(v).__name__, v)


class Rig:
    def __init__(self, ctx):
        import sqlalchemy as sa
        from vf.gen import expr_ga as G

        self.sa, self.G, self.ctx = sa, G, ctx
        self.env = G.Env()
        self.eng = sa.create_engine("sqlite://")
        self.env.md.create_all(self.eng)
        self.conn = self.eng.connect()
        self.rows = G.make_rows(ctx.rng, 40)
        self.env.populate(self.conn, self.rows)
        self.conn.commit()

    def close(self):
        self.conn.close()
        self.eng.dispose()

    def stmt(self, expr, where):
        sa, t = self.sa, self.env.t
        if where:
            return sa.select(t.c.id).where(expr).order_by(t.c.id)
        return sa.select(t.c.id, expr.label("v")).order_by(t.c.id)

    def run(self, expr, where, literal):
        """-> ('ok', rows, sql) | ('err', message-class, sql)"""
        st = self.stmt(expr, where)
        sql = None
        try:
            if literal:
                # binds a dialect visitor failed to inline are C05's subject, not C01's:
                # reported as the same "error" on both sides -> counted skip
                comp = st.compile(self.eng, compile_kwargs={"literal_binds": True})
                sql = str(comp)
                if comp.params:
                    return "err", "literal-not-inlined", sql
                res = self.conn.exec_driver_sql(sql)
            else:
                sql = str(st.compile(self.eng))
                res = self.conn.execute(st)
            rows = res.cursor.fetchall()  # raw driver values: result processors are not the subject
            res.close()
            return "ok", [tuple(norm(v) for v in r) for r in rows], sql
        except self.sa.exc.DBAPIError as e:
            return "err", type(e.orig).__name__ + ":" + str(e.orig)[:80], sql
        except sqlite3.Error as e:  # raised while fetching from the raw cursor
            return "err", type(e).__name__ + ":" + str(e)[:80], sql
        except self.sa.exc.CompileError as e:
            return "err", "CompileError:" + str(e)[:80], sql

    def compare(self, tree, where, literal):
        """None if the two forms agree, else a dict describing the difference."""
        G = self.G
        m = self.run(G.build(tree, self.env), where, literal)
        g = self.run(G.build(tree, self.env, grouped=True), where, literal)
        if "literal-not-inlined" in (m[1], g[1]):
            return "both-error"
        if m[0] == "ok" and g[0] == "ok":
            if m[1] == g[1]:
                return None
            first = next((i for i, (x, y) in enumerate(zip(m[1], g[1])) if x != y), None)
            return {"kind": "value", "minimal_sql": m[2], "grouped_sql": g[2],
                    "row_minimal": m[1][first] if first is not None else len(m[1]),
                    "row_grouped": g[1][first] if first is not None else len(g[1])}
        if m[0] == "err" and g[0] == "err":
            return "both-error" if m[1] == g[1] else {"kind": "error-differs", "minimal": m[1], "grouped": g[1],
                                                      "minimal_sql": m[2], "grouped_sql": g[2]}
        return {"kind": "error-one-side", "minimal": m[:2] if m[0] == "err" else "ok",
                "grouped": g[:2] if g[0] == "err" else "ok", "minimal_sql": m[2], "grouped_sql": g[2]}


def judge_exec(ctx, rig, tree):
    G = rig.G
    is_bool = G.type_of(tree) == "b"
    bad = None
    for literal in (False, True):
        for where in ((False, True) if is_bool else (False,)):
            d = rig.compare(tree, where, literal)
            ctx.count("exec_pairs_compared")
            if d == "both-error":
                ctx.count("both_forms_same_error")
                continue
            if d is None:
                ctx.count("rows_compared", len(rig.rows))
                continue
            if bad is None:
                bad = (where, literal, d)
    if bad is None:
        return
    where, literal, d = bad

    def still(t):
        if G.type_of(t) != "b" and where:
            return False
        x = rig.compare(t, where, literal)
        return x is not None and x != "both-error" and x["kind"] == d["kind"]

    small = G.shrink(tree, still)
    d2 = rig.compare(small, where, literal) or d
    mech = "sqlite-exec:" + classify(G, small, literal)
    ctx.violation(
        mech,
        f"minimal rendering differs from fully grouped rendering on SQLite ({d2['kind']}): "
        f"{d2.get('minimal_sql', '').splitlines()[0][:150]} VS {d2.get('grouped_sql', '').splitlines()[0][:150]} "
        f"rows {d2.get('row_minimal')} / {d2.get('row_grouped')}",
        {"tree": tree, "shrunk": small, "where": where, "literal": literal, "diff": d2, "orig_diff": d},
    )


def classify(G, small, literal):
    """Stable mechanism name from a shrunken witness tree: the first known-defect
    pattern it still contains, else its operator-class shape."""
    kp = G.known_patterns(small, literal)
    return kp[0] if kp else "shape:" + G.shape(small)


# ---------------------------------------------------------------------------
# part B: grammar level, other dialects; calibration of the SQLite table by execution
# ---------------------------------------------------------------------------
REWRITABLE = {"eq", "ne", "lt", "le", "gt", "ge", "isdistinct", "isnotdistinct", "isnull", "is", "between", "like", "in", "inlit"}


def adapt_for_grammar(G, tree, dialect):
    """negation *rewriting* is judged by execution (part A); the parse-tree comparison
    has no semantic normaliser for it, so NOT over a rewritable predicate is dropped."""
    import copy

    t = copy.deepcopy(tree)

    def fix(n):
        for slot in G._child_slots(n):
            fix(G._get(n, slot))
        if n[0] == "not" and G.opname(n[1]) in REWRITABLE:
            n[:] = n[1]
        if n[0] == "between" and n[4]:
            n[4] = False
        if n[0] in ("and", "or"):  # true()/false() members are constant-folded away (judged by execution)
            n[1][:] = [["col", "q"] if c[0] == "const" else c for c in n[1]]
            if len(n[1]) == 1:  # and_(x) IS x: a NOT above it rewrites x (judged by execution)
                n[:] = n[1][0]
        if n[0] == "case":
            for w in n[1]:
                if w[0][0] == "const":
                    w[0] = ["col", "q"]
        if dialect == "mssql" and n[0] == "bin" and n[1] in ("isdistinct", "isnotdistinct"):
            n[1] = "eq"  # rendered as EXISTS (SELECT a INTERSECT SELECT b): opaque to the expression parser

    fix(t)
    return t


def make_grammar_dialects():
    from sqlalchemy.dialects import mssql, mysql, oracle, postgresql

    return [("postgresql", postgresql.psycopg2.dialect()), ("mysql", mysql.pymysql.dialect()),
            ("mssql", mssql.pyodbc.dialect()), ("oracle", oracle.oracledb.dialect())]


MIRROR = {">": "<", ">=": "<=", "!>": "!<"}
SYMMETRIC = {"=", "==", "!=", "<>", "<=>", "^="}


def canon(ast):
    """semantics-preserving rewriting applied to BOTH parse trees before they are
    compared (it can only merge trees, never separate equal ones):
      * NOT NOT x -> x           (SQLAlchemy eliminates double negation of booleans)
      * x = 1 -> x, x = 0 -> NOT x  where 1 / 0 are the literal tokens the compiler emits
        for boolean operands on backends without a native boolean ("AsBoolean")
      * a > b -> b < a, a >= b -> b <= a; operands of symmetric comparisons sorted
        (Python itself mirrors ``f(x) <= g(y)`` into ``g(y) >= f(x)`` when type(g) is a
        subclass of type(f))
    """
    if not isinstance(ast, tuple):
        return ast
    ast = tuple(canon(x) if isinstance(x, tuple) else x for x in ast)
    k = ast[0] if ast and isinstance(ast[0], str) else None
    if k == "bin":
        op, l, r = ast[1], ast[2], ast[3]
        if op == "=" and r == ("atom", "1"):
            return l
        if op == "=" and r == ("atom", "0"):
            return canon(("un", "NOT", l))
        if op in MIRROR:
            return ("bin", MIRROR[op], r, l)
        if op in SYMMETRIC and repr(r) < repr(l):
            return ("bin", op, r, l)
    if k == "un" and ast[1] == "NOT" and isinstance(ast[2], tuple) and ast[2][:2] == ("un", "NOT"):
        return ast[2][2]
    return ast


def grammar_compare(G, T, sa, env, tree, name, dialect):
    """-> None (equal) | 'skip' | dict(diff)"""
    kw = {"render_postcompile": True}
    try:
        m_sql = str(G.build(tree, env).compile(dialect=dialect, compile_kwargs=kw))
        g_sql = str(G.build(tree, env, grouped=True).compile(dialect=dialect, compile_kwargs=kw))
    except sa.exc.CompileError:
        return "skip"
    ps = dialect.paramstyle
    try:
        g_ast = canon(T.normalize(T.Parser(T.lex(g_sql, name, ps), name).parse()))
    except (T.ParseError, T.LexError) as e:
        return {"kind": "reference-unparsed", "error": str(e), "grouped_sql": g_sql}
    try:
        m_ast = canon(T.normalize(T.Parser(T.lex(m_sql, name, ps), name).parse()))
    except (T.ParseError, T.LexError) as e:
        return {"kind": "parse-error", "error": str(e), "minimal_sql": m_sql, "grouped_sql": g_sql}
    if m_ast == g_ast:
        return None
    return {"kind": "parse-tree", "minimal_sql": m_sql, "grouped_sql": g_sql, "minimal_tree": repr(m_ast)[:600], "grouped_tree": repr(g_ast)[:600]}


def judge_grammar(ctx, rig, T, dialects, tree):
    G, sa = rig.G, rig.sa
    for name, dialect in dialects:
        t2 = adapt_for_grammar(G, tree, name)
        d = grammar_compare(G, T, sa, rig.env, t2, name, dialect)
        if d == "skip":
            ctx.count("grammar_compile_unsupported")
            continue
        if d is not None and d["kind"] == "reference-unparsed":
            ctx.count("grammar_reference_unparsed")  # limit of the token model, never a verdict
            ctx.seen("grammar_reference_unparsed_examples", f"{name}: {d['error']} :: {d['grouped_sql'][:120]}")
            continue
        ctx.count("grammar_pairs_compared")
        ctx.count("grammar_pairs_" + name)
        if d is None:
            continue

        def still(t):
            x = grammar_compare(G, T, sa, rig.env, t, name, dialect)
            return isinstance(x, dict) and x["kind"] == d["kind"]

        small = G.shrink(t2, still, budget=200)
        d2 = grammar_compare(G, T, sa, rig.env, small, name, dialect)
        if not isinstance(d2, dict):
            d2 = d
        ctx.violation(
            "grammar:" + classify(G, small, False),
            f"{name}: minimal rendering parses differently from the grouped rendering under the {name} precedence table "
            f"({d2['kind']}): {d2.get('minimal_sql', '')[:160]} VS {d2.get('grouped_sql', '')[:160]}",
            {"dialect": name, "tree": t2, "shrunk": small, "diff": d2},
        )


def calibrate_sqlite(ctx, rig, T, tree):
    """parse SQLite's own minimal rendering with the SQLite precedence table, re-render
    it fully parenthesised, execute both: the rows must agree, else the token model is
    wrong (harness failure -> inconclusive, never a violation)."""
    G, sa = rig.G, rig.sa
    expr = G.build(tree, rig.env)
    try:
        comp = expr.compile(rig.eng, compile_kwargs={"literal_binds": True})
    except sa.exc.CompileError:
        return  # e.g. an IN list against a NullType expression has no literal renderer
    if comp.params:
        return
    text = str(comp)
    try:
        orig = rig.conn.exec_driver_sql(f"SELECT t.id, {text} FROM t ORDER BY t.id").fetchall()
    except sa.exc.DBAPIError:
        return  # the rendering itself is not executable (known literal defects): nothing to calibrate against
    try:
        ast = T.Parser(T.lex(text, "sqlite", "qmark"), "sqlite").parse()
    except (T.ParseError, T.LexError) as e:
        ctx.count("calibration_unparsed")
        ctx.seen("calibration_unparsed_examples", f"{e} :: {text[:150]}")
        return
    again = T.render_paren(ast)
    try:
        back = rig.conn.exec_driver_sql(f"SELECT t.id, {again} FROM t ORDER BY t.id").fetchall()
    except sa.exc.DBAPIError as e:
        raise RuntimeError(f"token model calibration: re-rendered text not executable: {again} :: {e.orig}")
    if [tuple(map(norm, r)) for r in orig] != [tuple(map(norm, r)) for r in back]:
        raise RuntimeError(f"token model calibration failed: {text} re-rendered as {again} evaluates differently on SQLite")
    ctx.count("calibration_trees")


def run(ctx):
    import warnings

    from vf.gen import expr_ga as G

    warnings.simplefilter("ignore")
    rig = Rig(ctx)
    rng = ctx.rng
    ntrees = ctx.pick({"quick": 300, "thorough": 2000})
    depth = ctx.pick({"quick": 3, "thorough": 5})
    gen = G.Gen(rng, max_depth=depth, features={"between_bool"})
    from sqlalchemy.sql import elements as E

    from vf.mon import sqltok_ga as T

    gdialects = make_grammar_dialects()
    try:
        for k in range(ntrees):
            if not ctx.budget_ok():
                break
            gen.max_depth = rng.choice((2, depth, depth)) if depth > 2 else depth
            t = rng.choice(("b", "b", "b", "i", "i", "s", "f"))
            tree = gen.gen(t)
            if k % 6:  # 5 of 6 trees are kept free of the still-open known-defect patterns
                tree = G.sanitize(tree)
                ctx.count("trees_sanitized")
            else:
                ctx.count("trees_wild")
            nt = G.nontrivial(tree)
            ctx.case(tree, nontrivial=nt)
            if nt:
                ctx.count("nontrivial_trees")
            for po, co, role in G.pairs(tree):
                ctx.seen("op_pairs", f"{po}>{co}/{role}")
            # monitor counters proving the interesting code paths were reached
            try:
                mexpr = G.build(tree, rig.env)
            except rig.sa.exc.ArgumentError:
                # by design: a conjunction that folded to the constant true()/false() refuses
                # to be an operand of <, LIKE, ... at construction time; nothing is rendered
                ctx.count("construct_refused_constant_operand")
                continue
            for el in _iter(mexpr):
                if isinstance(el, E.ExpressionClauseList) and len(el.clauses) > 2:
                    ctx.count("flattened_seen")
            if any(n[0] == "not" and G.opname(n[1]) in ("bin", "eq", "ne", "lt", "le", "gt", "ge", "like", "in", "inlit", "isnull", "is", "between", "isdistinct", "isnotdistinct")
                   for n in G.walk(tree)):
                ctx.count("negation_rewrites_seen")
            for n in G.walk(tree):
                if n[0] == "not" and n[1][0] in ("and", "or") and (len(n[1][1]) == 1 or any(c[0] == "const" for c in n[1][1])):
                    ctx.count("negated_folding_conjunctions_seen")
                    nonconst = [c for c in n[1][1] if c[0] != "const"]
                    if len(nonconst) == 1 and G.opname(nonconst[0]) in (None, "case", "func"):
                        ctx.count("negated_conjunction_folding_to_plain_boolean_seen")
            judge_exec(ctx, rig, tree)
            if k % 3 == 0:
                judge_grammar(ctx, rig, T, gdialects, tree)
            if k % 4 == 1:
                calibrate_sqlite(ctx, rig, T, tree)
            if k < 3:
                ctx.sample({"tree": tree, "sql": str(mexpr.compile(rig.eng, compile_kwargs={"literal_binds": True}))})
        # how many non-NULL values did the value column produce: measured on a sample
        st, rows, _ = rig.run(G.build(["bin", "add", ["col", "a"], ["col", "b"]], rig.env), False, False)
        ctx.count("value_rows_non_null", sum(1 for r in rows if r[1][1] is not None))
    finally:
        rig.close()


def _iter(expr):
    from sqlalchemy.sql import visitors

    return visitors.iterate(expr)
