"""C02 -- the compiled-statement cache is transparent.

Runtime monitors, all on the real code:

* **K (key groups)**: every generated statement gets ``_generate_cache_key()``; all
  statements of the run are grouped by key equality.  Within a group the *uncached*
  compilation (``stmt.compile(dialect=d)``) must give the same SQL string, the same bind
  names / bind type classes / expanding+literal_execute flags, the same result-column
  names and the same bind / result *processing* (each processor applied to three fixed
  probe values) on sqlite, postgresql, mysql, mssql, oracle and the default dialect.  The groups
  are fed by the perturbation operator of ``vf.gen.stmt_gb`` (siblings differing in
  exactly one attribute) and by "literal-only" siblings (same spec, different values).
  Bind parameters come in value form and in callable form (``bindparam(callable_=...)``,
  named and anonymous, plus ORM ``relationship == instance`` criteria whose binds read the
  instance lazily); the two forms of one shape share a key and meet in either order.
  ``.params()`` is used on several nesting levels (subquery / CTE / scalar subquery / EXISTS / IN
  subquery / compound member / textual subquery and the enclosing statement) for the same and for
  different parameter names, with value-less and valued named binds.
  Types (in cast / type_coerce / bindparam / text().columns()) vary in constructor arguments
  (falsy ones included), carry ``with_variant()`` types for one or two dialects, and nest:
  ARRAY(item), a TypeDecorator taking a TypeEngine, PickleType(impl=...), holding stateful
  user types with ``cache_ok`` False (must make the statement uncacheable) or True.
* **P (cached parameters)**: per dialect a private compiled cache is driven through the
  library's own ``ClauseElement._compile_w_cache``; for every statement the parameters
  the cached ``Compiled`` produces through ``construct_params(extracted_parameters=...,
  _collected_params=...)`` (exactly the call ``DefaultExecutionContext._init_compiled``
  makes), passed through the cached Compiled's bind processors, must equal the statement's
  own uncached, processed parameters, and the cached SQL string
  must equal the statement's own uncached SQL string -- also on cache *hits* populated by
  a sibling with other literal values.
* **X (execution)**: the same statements are executed in three independent random
  orders on three engines over one SQLite file: A cache disabled, B cold (cache cleared
  before each statement), C one warm shared LRU.  A DBAPI spy records ``(sql, params)``;
  rows are fetched.  B and C must equal A statement by statement.  DML runs inside a
  transaction that is rolled back, so the database is identical for every execution.

Guards (what keeps the oracle from demanding more than the property):
* statements whose key is ``None`` (declared uncacheable, e.g. multi-VALUES) are counted,
  executed under X, but not grouped under K.
* rows are compared as multisets (no ORDER BY => no order claim); ORM entities are
  compared by class, loaded column values and identities of already-loaded related
  objects (no lazy load is triggered by the monitor).
* a statement that raises the same exception class on all three engines is an error case
  (counted, not a violation); only a *difference* between cache states is reported.
* the *names* of anonymous bind parameters ("id_1" vs "param_2") are derived from context and are
  deliberately not part of the cache key (their position is); K and P compare SQL and parameters with
  those names canonicalised by order of appearance.  Explicitly named binds keep their names.  (X sees
  SQLite's qmark style, where no names exist.)
* documented compile errors (CompileError etc.) are part of the compared signature: the
  same error class on both members of a key group is agreement.
* perturbed statements may be ill-typed (column order swapped in INSERT..SELECT, CAST type
  changed inside a CASE); a TypeError/ValueError from a result processor while fetching is
  recorded as the outcome and compared across cache states like rows are.

Candidate genuine defect reported on the unchanged tree:
``cache-vs-disabled:select/orm:loader-criteria-callable-bind`` -- relationship criteria
``Rel.and_(col <op> bindparam(None, callable_=...))`` in subqueryload / selectinload: when the parent
statement is a cache hit the eager SELECT receives ``None`` (``_OverrideBinds.__init__`` copies
``v.value`` instead of ``v.effective_value``; one-line fix validated).
"""
from __future__ import annotations

META = {
    "id": "C02",
    "level": "exploration",
    "technique": "differential execution under three cache states with a DBAPI spy + cache-key collision monitor over perturbed sibling statements on 6 dialects",
    "level_text": "Seeded families of Core/ORM statements (base, literal-only sibling, ~8 one-attribute perturbations) are (K) grouped by cache key and required to compile identically within a group on 6 dialects, (P) pushed through the library's own _compile_w_cache with the cached Compiled's parameters compared to the statement's own, (X) executed on SQLite with cache disabled / cold / warm-shared in independent random orders and compared at the DBAPI boundary and on fetched rows.",
    "level_note": "Only SQLite executes; for postgresql/mysql/mssql/oracle/default the claim is about compiled SQL, bind signature and construct_params output, not server results. Statement space is the vf.gen.stmt_gb grammar (selects, joins, subqueries, CTEs, compounds, DML with RETURNING, text(), ORM entities with loader options / with_loader_criteria / aliased); constructs outside it are not covered. Runs in cext and purepy modes (cache-key anon_map lives in sql/_util_cy).",
    "design_ref": "DESIGN.md section 4, C02",
    "rule": "case = one statement judged by K+P, or one statement executed under A/B/C; non-trivial = it joined a key group holding >=2 statements with different literal values, or it was executed on a warm cache hit; distinct by (spec, literal build index)",
    "shards": {"quick": 8, "thorough": 8},   # x2 modes = 16 processes, one wave on 16 cores
    "modes": ["cext", "purepy"],
    "soft_s": {"quick": 90, "thorough": 800},
    "exhaustive": {"quick": False, "thorough": False},
    "require": ["key_groups_multi", "cached_param_checks_on_hit", "exec_cache_hits", "stmts_executed", "perturbed_pairs_distinct_keys",
                "callable_bind_siblings", "callable_bind_siblings_executed", "multi_level_params_statements"],
    "assumptions": ["uncached compilation of a statement is the reference for its SQL and parameters",
                    "SQLite returns the same multiset of rows for the same SQL text, parameters and database"],
}


def _namemap(c):
    """bind name -> canonical token.  The *names* of anonymous (unique) bind parameters are derived from
    their context ("id_1", "param_2") and are deliberately not part of the cache key (only their position
    is); they are canonicalised by order of appearance.  Explicitly named binds keep their name."""
    m = {}
    k = 0
    for bp, name in c.bind_names.items():
        if getattr(bp, "_anon_map_key", None) is not None or bp.unique:  # what BindParameter._gen_cache_key anonymises
            k += 1
            m[name] = "\u00a7%d" % k
        else:
            m[name] = name
    return m


def _norm_sql(sql, m):
    import re

    names = sorted((n for n, t in m.items() if n != t), key=len, reverse=True)
    if not names:
        return sql
    rx = re.compile(r"(?:(?<=POSTCOMPILE_)|(?<![A-Za-z0-9_]))(" + "|".join(map(re.escape, names)) + r")(?![A-Za-z0-9_])")
    return rx.sub(lambda mo: m[mo.group(1)], sql)


def _norm_params(params, m):
    return {m.get(k, k): v for k, v in params.items()}


_PROBES = (7, "7", 2.5)


def _probe(proc):
    """what a bind / result processor does to a few fixed values (None = no processing)"""
    if proc is None:
        return None
    if isinstance(proc, (tuple, list)):  # per-element processors of a tuple IN parameter
        return tuple(_probe(p) for p in proc)
    out = []
    for v in _PROBES:
        try:
            out.append(repr(proc(v)))
        except Exception as e:  # the probe does not fit the type: the *way* it fails is still a property of the processor
            out.append(type(e).__name__)
    return tuple(out)


def _bind_processors(c):
    try:
        return c._bind_processors
    except Exception:  # e.g. a processor factory that needs a real DBAPI module
        return None


def _processed(c, raw):
    """raw construct_params() output after the Compiled's bind processors (what the cursor would receive)"""
    procs = _bind_processors(c)
    if not procs:
        return dict(raw)
    out = {}
    for k, v in raw.items():
        proc = procs.get(k)
        if proc is None:
            out[k] = v
            continue
        try:
            if isinstance(proc, (tuple, list)):  # tuple IN: one processor per element position
                out[k] = [tuple((pp(e) if pp is not None else e) for pp, e in zip(proc, row)) for row in v]
            elif isinstance(v, (list, tuple)):
                out[k] = [proc(x) if not isinstance(x, (list, tuple)) else x for x in v]
            else:
                out[k] = proc(v)
        except Exception as e:
            out[k] = ("processor-error", type(e).__name__)
    return out


def _resultsig(c):
    out = []
    d = c.dialect
    for rc in (c._result_columns or ()):
        try:
            proc = rc.type._cached_result_processor(d, None)
        except Exception as e:
            out.append(("no-processor", type(e).__name__))
            continue
        out.append(_probe(proc))
    return tuple(out)


def _bindsig(c):
    out = []
    m = _namemap(c)
    procs = _bind_processors(c) or {}
    for bp, name in c.bind_names.items():
        name = m[name]
        out.append((name, type(bp.type).__name__, bool(bp.expanding), bool(bp.literal_execute),
                    bp in c.literal_execute_params, bp in c.post_compile_params, _probe(procs.get(c.bind_names[bp]))))
    rc = tuple(r.keyname for r in (c._result_columns or ()))
    return (tuple(out), tuple(m.get(n, n) for n in (c.positiontup or ())), rc, _resultsig(c))


def _spec_diff(a, b, path=()):
    """first differing path between two specs, as a list of keys / node heads"""
    if type(a) is not type(b):
        return path
    if isinstance(a, dict):
        for k in sorted(set(a) | set(b)):
            if k not in a or k not in b:
                return path + (k,)
            d = _spec_diff(a[k], b[k], path + (k,))
            if d is not None:
                return d
        return None
    if isinstance(a, list):
        head = (a[0],) if a and isinstance(a[0], str) else ()
        if len(a) != len(b):
            return path + head + ("len",)
        for i, (x, y) in enumerate(zip(a, b)):
            d = _spec_diff(x, y, path + (head if i else ()) + ((f"arg{i}",) if head and i else ()))
            if d is not None:
                return d
        return None
    return None if a == b else path


def _mech_from_diff(sa_, sb):
    d = _spec_diff(sa_, sb)
    if d is None:
        return "literal-values-only"
    parts = [str(p) for p in d if str(p).isidentifier() and not str(p).startswith("arg")]  # attribute names only
    if "tuple_in_untyped" in parts:
        return "tuple-element-types"   # the value types of a tuple IN over untyped columns
    return ".".join(parts[-3:]) or "root"


def run(ctx):
    import warnings

    from sqlalchemy import exc as sa_exc

    warnings.simplefilter("ignore", sa_exc.SAWarning)
    from vf.gen import stmt_gb as G

    env = G.make_env()
    part_exec(ctx, env, G)
    part_keys(ctx, env, G)


# --------------------------------------------------------------------------------------
# K + P
# --------------------------------------------------------------------------------------
def _family(G, g, rng, nperturb):
    spec = g.stmt()
    fam = [("base", spec), ("literal", spec)]
    fam += G.perturb(spec, rng, nperturb)
    return spec, fam


def part_keys(ctx, env, G):
    from sqlalchemy import exc as sa_exc

    rng = ctx.rng
    ds = G.dialects()
    g = G.Gen(rng, depth=2, orm_ratio=0.3, rich=True)
    nbases = ctx.pick({"quick": 26, "thorough": 400})
    groups = {}        # key.key -> dict(sig, spec, vals, n, valsets)
    caches = {dn: {} for dn in ds}
    for bi in range(nbases):
        if not ctx.budget_ok():
            break
        spec, fam = _family(G, g, rng, 8)
        base_key = None
        for j, (tag, sp) in enumerate(fam):
            try:
                stmt, b = G.build(env, sp, G.Vals(j))
            except G.Inapplicable:
                ctx.count("perturbation_inapplicable")
                continue
            ctx.seen("perturbation_tags", tag)
            if tag == "bindcallable":
                ctx.count("callable_bind_siblings")
            if len(_params_levels(sp)) >= 2:
                ctx.count("multi_level_params_statements")
            for f in G.spec_features(sp):
                ctx.seen("features", f)
            ck = stmt._generate_cache_key()
            if ck is None:
                ctx.count("no_cache_key")
                ctx.case({"s": G.describe(sp), "j": j}, nontrivial=False)
                continue
            # uncached reference per dialect
            sig = {}
            refparams = {}
            for dn, d in ds.items():
                try:
                    c = stmt.compile(dialect=d, column_keys=[])  # same column_keys as the cached path below
                    m = _namemap(c)
                    sig[dn] = (_norm_sql(str(c), m), _bindsig(c))
                except (sa_exc.SQLAlchemyError, NotImplementedError) as e:
                    sig[dn] = ("EXC", type(e).__name__)
                    continue
                try:
                    refparams[dn] = _norm_params(_processed(c, c.construct_params(escape_names=False)), m)
                except sa_exc.SQLAlchemyError as e:
                    # e.g. "a value is required for bind parameter": a property of the values (.params() is not part
                    # of the cache key), not of the compiled form; the cached path has to fail the same way
                    refparams[dn] = ("EXC", type(e).__name__)
            ctx.count("uncached_compiles", len(ds))
            # ---- K
            rec = groups.get(ck.key)
            values = tuple(repr(v) for v in b.vals.log)
            nontrivial = False
            if rec is None:
                groups[ck.key] = rec = {"sig": sig, "spec": sp, "values": {values}, "n": 1, "tag": tag}
            else:
                rec["n"] += 1
                if values not in rec["values"]:
                    if len(rec["values"]) == 1:
                        ctx.count("key_groups_multi")
                    rec["values"].add(values)
                    nontrivial = True
                for dn in ds:
                    if rec["sig"][dn] != sig[dn]:
                        what = "sql" if rec["sig"][dn][0] != sig[dn][0] else "binds-or-result-columns"
                        attr = _mech_from_diff(rec["spec"], sp)
                        unc = _has_uncacheable_bind_type(sp) or _has_uncacheable_bind_type(rec["spec"])
                        ctx.violation(
                            "cacheable-statement:bindparam-with-uncacheable-type" if unc else f"equal-cache-key-different-{what}:{attr}",
                            f"two statements with equal cache keys compile differently on {dn}: "
                            f"{rec['sig'][dn][0]!r} vs {sig[dn][0]!r}",
                            {"dialect": dn, "first": {"spec": rec["spec"], "sql": rec["sig"][dn]},
                             "second": {"spec": sp, "sql": sig[dn]}, "differs_at": attr},
                        )
                        break
            if tag == "base":
                base_key = ck.key
            elif tag != "literal" and base_key is not None:
                if ck.key != base_key:
                    ctx.count("perturbed_pairs_distinct_keys")
                else:
                    ctx.count("perturbed_pairs_equal_keys")
                    ctx.seen("equal_key_perturbations", tag)
            elif tag == "literal" and base_key is not None:
                ctx.count("literal_siblings_equal_keys" if ck.key == base_key else "literal_siblings_distinct_keys")
            # ---- P
            for dn, d in ds.items():
                if sig[dn][0] == "EXC":
                    continue
                try:
                    compiled, extracted, param_dict, hit = stmt._compile_w_cache(
                        d, compiled_cache=caches[dn], column_keys=[], for_executemany=False, schema_translate_map=None)
                    mc = _namemap(compiled)
                    try:
                        got = _norm_params(_processed(compiled, compiled.construct_params(
                            extracted_parameters=extracted, escape_names=False, _collected_params=param_dict)), mc)
                    except sa_exc.SQLAlchemyError as e:
                        got = ("EXC", type(e).__name__)
                except (sa_exc.SQLAlchemyError, NotImplementedError) as e:
                    ctx.violation("cached-compile-raises-uncached-does-not:" + type(e).__name__,
                                  f"{dn}: uncached compile succeeded, cached path raised {e!r}", {"spec": sp, "dialect": dn})
                    continue
                is_hit = hit.name == "CACHE_HIT"
                ctx.count("cached_param_checks")
                if b.named and isinstance(got, dict) and isinstance(refparams[dn], dict):
                    # execution-time parameters for the explicitly named binds, other literals still
                    # have to come from *this* statement
                    over = {sorted(b.named)[0]: 4242}
                    got2 = _norm_params(_processed(compiled, compiled.construct_params(
                        dict(over), extracted_parameters=extracted, escape_names=False, _collected_params=param_dict)), mc)
                    c2 = stmt.compile(dialect=d, column_keys=[])
                    ref2 = _norm_params(_processed(c2, c2.construct_params(dict(over), escape_names=False)), _namemap(c2))
                    ctx.count("cached_param_checks_with_exec_params")
                    if got2 != ref2 and got == refparams[dn]:
                        ctx.violation(
                            "cached-params-differ-from-own-params:with-execution-params:" + ("hit" if is_hit else "miss"),
                            f"{dn}: with execution parameters {over}: cached construct_params {got2!r} != own {ref2!r}",
                            {"spec": sp, "dialect": dn, "hit": is_hit, "got": got2, "expected": ref2})
                if is_hit:
                    ctx.count("cached_param_checks_on_hit")
                    nontrivial = nontrivial or bool(values)
                cached_sql = _norm_sql(str(compiled), mc)
                if cached_sql != sig[dn][0]:
                    ctx.violation(
                        "cacheable-statement:bindparam-with-uncacheable-type" if _has_uncacheable_bind_type(sp) else
                        "cached-sql-differs-from-own-sql:" + ("hit" if is_hit else "miss"),
                        f"{dn}: cached Compiled string {cached_sql!r} != uncached {sig[dn][0]!r}",
                        {"spec": sp, "dialect": dn, "hit": is_hit})
                elif got != refparams[dn]:
                    bad = (sorted(k for k in set(got) | set(refparams[dn]) if got.get(k, "<missing>") != refparams[dn].get(k, "<missing>"))
                           if isinstance(got, dict) and isinstance(refparams[dn], dict) else ["<error-vs-values>"])
                    ctx.violation(
                        "cacheable-statement:bindparam-with-uncacheable-type" if _has_uncacheable_bind_type(sp) else
                        "cache-vs-disabled:params-conflict-between-siblings" if _sibling_params_conflict(sp) else
                        "cached-params-differ-from-own-params:" + ("hit" if is_hit else "miss"),
                        f"{dn}: cached construct_params {got!r} != statement's own {refparams[dn]!r} (keys {bad})",
                        {"spec": sp, "dialect": dn, "hit": is_hit, "got": got, "expected": refparams[dn], "values": b.vals.log})
                if len(caches[dn]) > 400:
                    caches[dn].clear()
            ctx.case({"s": G.describe(sp), "j": j}, nontrivial=nontrivial)
            if bi < 2 and j in (0, 3):
                ctx.sample({"part": "K/P", "tag": tag, "spec": sp, "sqlite_sql": sig["sqlite"][0], "values": b.vals.log})
    ctx.count("key_groups", len(groups))


# --------------------------------------------------------------------------------------
# X
# --------------------------------------------------------------------------------------
def _norm_value(v, depth=0):
    cls = type(v)
    st = getattr(v, "_sa_instance_state", None)
    if st is not None:
        d = {}
        for k, x in st.dict.items():
            if k.startswith("_"):
                continue
            if depth >= 1:
                continue
            d[k] = _norm_value(x, depth + 1)
        ident = st.key[1] if st.key is not None else None
        return (cls.__name__, ident, tuple(sorted((k, repr(x)) for k, x in d.items())))
    if isinstance(v, (list, tuple)) and v and getattr(v[0], "_sa_instance_state", None) is not None:
        return tuple(_norm_value(x, depth + 1) for x in v)
    return v


_RELS = {"A": ("bs",), "B": ("a", "cs"), "C": ("b",)}


def _params_repr(p):
    """repr of DBAPI parameters without object addresses (memoryview of a pickled / binary value)"""
    if isinstance(p, memoryview):
        return "memoryview(%r)" % (bytes(p),)
    if isinstance(p, (list, tuple)):
        return "(" + ", ".join(_params_repr(x) for x in p) + ")"
    if isinstance(p, dict):
        return "{" + ", ".join("%r: %s" % (k, _params_repr(v)) for k, v in sorted(p.items())) + "}"
    return repr(p)


def _has_callable_bind(node):
    if isinstance(node, list):
        if node and node[0] in ("bind", "abind") and isinstance(node[-1], dict) and node[-1].get("callable"):
            return True
        return any(_has_callable_bind(x) for x in node)
    if isinstance(node, dict):
        return any(_has_callable_bind(x) for x in node.values())
    return False


def _mentions_uncacheable_type(t):
    if isinstance(t, list):
        if t and t[0] in ("NC", "NCD"):
            return True
        return any(_mentions_uncacheable_type(x) for x in t)
    if isinstance(t, dict):
        return any(_mentions_uncacheable_type(x) for x in t.values())
    return False


def _has_uncacheable_bind_type(node):
    """a bindparam whose type is, or holds, a type declared cache_ok = False"""
    if isinstance(node, list):
        if node and node[0] in ("bind", "abind") and isinstance(node[-1], dict) and _mentions_uncacheable_type(node[-1].get("type")):
            return True
        return any(_has_uncacheable_bind_type(x) for x in node)
    if isinstance(node, dict):
        return any(_has_uncacheable_bind_type(x) for x in node.values())
    return False


def _params_levels(node, path=()):
    """(path, names) for every nesting level of a spec that calls .params()"""
    out = []
    if isinstance(node, dict):
        names = set(node.get("params_map") or ()) | set(node.get("outer_params_map") or ())
        if node.get("params"):
            names.add("*")   # .params() for every named bind built so far
        if names:
            out.append((path, names))
        for k, v in node.items():
            out += _params_levels(v, path + (k,))
    elif isinstance(node, list):
        for i, v in enumerate(node):
            out += _params_levels(v, path + (i,))
    return out


def _sibling_params_conflict(spec):
    """two statements, neither enclosing the other, give the same parameter name a value with .params()"""
    lv = _params_levels(spec)
    for i, (p1, n1) in enumerate(lv):
        for p2, n2 in lv[i + 1:]:
            if (n1 & n2 or "*" in n1 or "*" in n2) and p1[:len(p2)] != p2 and p2[:len(p1)] != p1:
                return True
    return False


def _witness_feature(spec):
    """a structural feature of the witness that identifies a known defect class (part of the mechanism)"""
    if _sibling_params_conflict(spec):
        return "params-conflict-between-siblings"
    if _has_uncacheable_bind_type(spec):
        return "bindparam-with-uncacheable-type"
    for o in spec.get("options", ()) or ():
        if len(o) > 3 and o[3] is not None and o[0] != "loader_criteria" and _has_callable_bind(o[3]):
            return "loader-criteria-callable-bind"
    return None


def _execute(env, engine, spy, spec, stmt, params, is_orm_entity):
    from sqlalchemy import exc as sa_exc

    mark = spy.mark()
    try:
        if spec.get("orm"):
            with env.orm.Session(engine) as s:
                res = s.execute(stmt, params) if params else s.execute(stmt)
                if is_orm_entity:
                    rows = res.unique().all()
                else:
                    rows = res.all()
                lazy = []
                if is_orm_entity:
                    # touch one relationship of the first entities: the lazy loader's own cached statement
                    # must receive *this* object's key, not the one that populated the cache
                    for row in sorted(rows, key=lambda r: repr(getattr(r[0], "id", None)))[:3]:
                        obj = row[0]
                        for rel in _RELS.get(type(obj).__name__, ()):
                            try:
                                val = getattr(obj, rel)
                            except sa_exc.InvalidRequestError:
                                lazy.append((type(obj).__name__, obj.id, rel, "raise"))
                                continue
                            ids = sorted(x.id for x in val) if isinstance(val, list) else (val.id if val is not None else None)
                            lazy.append((type(obj).__name__, obj.id, rel, ids))
                out = sorted(repr(tuple(_norm_value(v) for v in row)) for row in rows) + [repr(("lazy", lazy))]
                s.rollback()
        else:
            with engine.connect() as conn:
                res = conn.execute(stmt, params) if params else conn.execute(stmt)
                if res.returns_rows:
                    out = sorted(repr(tuple(row)) for row in res.fetchall())
                else:
                    out = ["rowcount=%s" % res.rowcount]
                conn.rollback()
        outcome = ("rows", out)
    except sa_exc.DBAPIError as e:
        outcome = ("dbapi-error", type(e).__name__, type(e.orig).__name__)
    except sa_exc.SQLAlchemyError as e:
        outcome = ("sa-error", type(e).__name__)
    except Exception as e:  # TypeError / ValueError / UnpicklingError ... raised by a result processor
        # an ill-typed *perturbed* statement (a str stored in a Date column by a swapped INSERT..SELECT, a
        # CASE mixing NUMERIC and text ...) makes SQLite hand a value of the wrong type to a result
        # processor.  That is the workload's doing; it is an outcome like any other and must simply be the
        # same under every cache state.
        outcome = ("result-processing-error", type(e).__name__)
    stream = [(e.sql, _params_repr(e.params)) for e in spy.since(mark, kinds=("execute", "executemany"))]
    return outcome, stream


def part_exec(ctx, env, G):
    import sqlalchemy as sa
    from sqlalchemy import event
    from sqlalchemy.pool import StaticPool

    from vf.mon.dbapi_spy import Spy

    rng = ctx.rng
    path = ctx.tmppath(".db")
    e0 = sa.create_engine("sqlite:///" + path)
    G.create_and_seed(env, e0)
    e0.dispose()

    spies = {k: Spy() for k in "ABC"}
    engines = {k: spies[k].engine(path, poolclass=StaticPool) for k in "ABC"}
    hits = {"B": {"CACHE_HIT": 0, "CACHE_MISS": 0}, "C": {"CACHE_HIT": 0, "CACHE_MISS": 0}, "A": {}}
    last_hit = {}

    def listen(k):
        @event.listens_for(engines[k], "before_cursor_execute")
        def _b(conn, cursor, statement, parameters, context, executemany):
            name = context.cache_hit.name if context is not None and context.compiled is not None else "NA"
            hits[k][name] = hits[k].get(name, 0) + 1
            last_hit[k] = name

    for k in "ABC":
        listen(k)
        with engines[k].connect():  # first-connect housekeeping (PRAGMA) stays out of the compared streams
            pass
        spies[k].clear()
    run_engines = {"A": engines["A"].execution_options(compiled_cache=None), "B": engines["B"], "C": engines["C"]}

    g = G.Gen(rng, depth=2, orm_ratio=0.35, rich=False)
    nrounds = ctx.pick({"quick": 3, "thorough": 25})
    fams_per_round = ctx.pick({"quick": 8, "thorough": 14})
    try:
        for rnd in range(nrounds):
            if not ctx.budget_ok():
                break
            items = []
            for _ in range(fams_per_round):
                spec, fam = _family(G, g, rng, 6)
                for j, (tag, sp) in enumerate(fam):
                    try:
                        stmt, b = G.build(env, sp, G.Vals(j, salt=rnd))
                    except G.Inapplicable:
                        continue
                    if tag == "bindcallable":
                        ctx.count("callable_bind_siblings_executed")
                    params = G.exec_params(sp, b.vals)
                    if params is None and b.named and rng.random() < 0.5:
                        params = {n: b.vals.next("int") for n in sorted(b.named)[:2]}
                        ctx.count("executed_with_explicit_params")
                    ent = bool(sp.get("orm")) and sp["k"] == "select" and sp["cols"][0][0] == "ent"
                    items.append({"tag": tag, "spec": sp, "stmt": stmt, "params": params, "ent": ent,
                                  "values": list(b.vals.log), "res": {}, "hit": {}})
            for k in "ABC":
                order = list(range(len(items)))
                rng.shuffle(order)
                for idx in order:
                    it = items[idx]
                    if k == "B":
                        engines["B"]._compiled_cache.clear()
                    last_hit.pop(k, None)
                    it["res"][k] = _execute(env, run_engines[k], spies[k], it["spec"], it["stmt"], it["params"], it["ent"])
                    it["hit"][k] = last_hit.get(k)
                    spies[k].clear()
            for it in items:
                ctx.count("stmts_executed")
                ra, rb, rc = it["res"]["A"], it["res"]["B"], it["res"]["C"]
                kind = it["spec"]["k"] + ("/orm" if it["spec"].get("orm") else "")
                ctx.seen("executed_kinds", kind)
                if ra[0][0] != "rows":
                    ctx.count("error_cases")
                    ctx.seen("error_outcomes", repr(ra[0][1:]))
                else:
                    ctx.count("row_cases")
                    if ra[0][1] and ra[0][1] != ["rowcount=0"]:
                        ctx.count("row_cases_nonempty")
                warm_hit = it["hit"].get("C") == "CACHE_HIT"
                if warm_hit:
                    ctx.count("exec_cache_hits")
                for name, other in (("cold", rb), ("warm", rc)):
                    if other == ra:
                        continue
                    if other[1] != ra[1]:
                        sql_a = [s for s, _ in ra[1]]
                        sql_o = [s for s, _ in other[1]]
                        what = "sql-text" if sql_a != sql_o else "dbapi-parameters"
                    elif other[0][0] != ra[0][0]:
                        what = "outcome-kind"
                    else:
                        what = "rows"
                    feat = _witness_feature(it["spec"])
                    ctx.violation(
                        (f"cacheable-statement:{feat}" if feat == "bindparam-with-uncacheable-type" else
                         f"cache-vs-disabled:{feat}" if feat == "params-conflict-between-siblings" else f"cache-vs-disabled:{kind}:{feat}")
                        if feat else f"{name}-cache-vs-disabled:{what}:{kind}",
                        f"{what} differ between cache disabled and {name} cache for a {kind} statement "
                        f"(perturbation tag {it['tag']}): disabled={ra!r:.300} {name}={other!r:.300}",
                        {"spec": it["spec"], "values": it["values"], "params": it["params"], "disabled": ra, name: other,
                         "cache_hit": it["hit"]},
                    )
                ctx.case({"x": G.describe(it["spec"]), "v": it["values"]}, nontrivial=warm_hit)
                if rnd == 0 and ctx.evaluations % 97 == 0:
                    ctx.sample({"part": "X", "tag": it["tag"], "spec": it["spec"], "stream": ra[1][:2], "outcome": repr(ra[0])[:300],
                                "cache_hit_warm": it["hit"].get("C")})
    finally:
        for k in "ABC":
            ctx.count(f"engine_{k}_hits", hits[k].get("CACHE_HIT", 0))
            ctx.count(f"engine_{k}_misses", hits[k].get("CACHE_MISS", 0))
            engines[k].dispose()
