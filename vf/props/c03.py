"""C03 -- statement objects are immutable values; compilation is deterministic.

A *tree* of statements is grown from a generated base statement by public generative
methods (where, filter, filter_by, join, outerjoin, join_from, order_by, group_by, having,
limit, offset, fetch, slice, distinct, with_only_columns, add_columns, prefix_with,
suffix_with, with_hint, with_statement_hint, with_for_update, select_from, correlate,
execution_options, params, set_label_style, reduce_columns, add_cte, union..., options,
values, ordered_values, returning, return_defaults, inline, from_select, subquery / cte /
exists wrapping; text(): bindparams / typed bindparams / columns; legacy Query: filter, join,
add_entity, add_columns, with_entities, options, union ...), each step applied to a random
existing node (so parents get several children).  When a node is created its *value* is recorded: ``(str(compiled), params)``
on sqlite, postgresql, mysql, mssql, oracle and default, and its un-memoized cache key.

Oracles (all comparisons of the real code's output with its own earlier output):
* **ancestors**: after every step every existing node is recompiled on a rotating
  dialect, and at the end on all of them; the result must equal the recorded value; the
  freshly computed (un-memoized) cache key must equal the recorded one, and must equal
  the memoized one the engine would use.
* **repeat**: compiling twice gives the same SQL and params.
* **copies**: ``copy.copy``, ``_clone()``, ``_generate()``, ``cloned_traverse``,
  ``replacement_traverse`` and a pickle round trip compile to the recorded value.
* **compile first, derive afterwards**: every builder call is recorded (random state + literal counter) so a
  never compiled *twin* of any node can be rebuilt.  A node derived from compiled ancestors must compile like
  its twin chain; a transforming copy of a compiled statement (cloned_traverse giving binds new values,
  ClauseAdapter to an alias, replacement_traverse of a column, _annotate / _deannotate) must compile
  like the same copy of the twin.
* **compile does not modify**: a shallow snapshot of ``__dict__`` of every element
  reachable from the statement is taken before the first compilation and compared after
  compiling on all dialects: attributes that existed before must still be bound to the
  same object, and list/tuple/dict/set values must have the same members.

Guards:
* new ``__dict__`` keys appearing during compilation are memoizations and are allowed;
  attributes in ``_memoized_keys`` / HasMemoized resets are ignored.
* a generative call rejected by SQLAlchemy with a documented error is "inapplicable";
  a compile error is a *value* (the same error class must come back every time).
* pickling is attempted for Core statements and ORM statements alike; a pickling *error*
  is counted, never judged (the property speaks about the result of compiling a pickled
  copy, not about picklability).
* anonymous names are compared as rendered (deterministic per compilation).

Candidate genuine defects this check reports on the unchanged tree (one mechanism each,
details + proposed patches in selftest/C03/proposed_fixes_gb.patch.txt):
  earlier-statement-sql-changed:shared-dialect_options-mutated-by-generative-call
  compile-modifies-statement:dialect_options      (oracle LIMIT/FETCH, mysql UPDATE/DELETE compile)
  compile-modifies-statement:_compile_options     (ORM compile writes on the caller's statement)
  copy-compile-raises-internal-error:AttributeError@_adapt_expression   (pickled memoized comparator)
  copy-raises-internal-error:AttributeError@_clone:LoaderCriteriaOption (slots class cannot be cloned)
  copy-compile-raises-internal-error:AssertionError@_generate_columns_plus_names (>=3 repeated columns via subquery)
  copy-compiles-differently:traversal-clone:sql   (aliased-entity join + maintain_column_froms: FROM duplicated)
  copy-compiles-differently:pickle:sql            (anonymous label of a scalar subquery exported by a CTE)
"""
from __future__ import annotations
import re

META = {
    "id": "C03",
    "level": "exploration",
    "technique": "record-and-recheck of (SQL, params, cache key) for every node of random generative-call trees on 6 dialects; __dict__ snapshots around compilation; copy/clone/pickle differential",
    "level_text": "Random trees of generative calls over generated Core and ORM statements; every ancestor is re-judged after every later call, so an in-place mutation of shared state by any of ~45 generative methods is observed as a changed SQL string, changed parameters or a changed cache key of a statement created earlier.",
    "level_note": "Compiled SQL only (no execution needed for this property). Dialects: sqlite, postgresql, mysql, mssql, oracle, default with default options. The __dict__ monitor is shallow (identity of attribute values, membership of builtin containers) over elements reachable by visitors.iterate; state hidden in non-element helper objects is observed only through SQL/params/cache key. Both cext and purepy modes.",
    "design_ref": "DESIGN.md section 4, C03",
    "rule": "case = one tree; non-trivial = tree with a branch point (a node with >=2 children) or >=3 distinct method kinds; distinct by (base spec, op name sequence with parents)",
    "shards": {"quick": 8, "thorough": 8},   # x2 modes = 16 processes, one wave on 16 cores
    "modes": ["cext", "purepy"],
    "soft_s": {"quick": 90, "thorough": 800},
    "exhaustive": {"quick": False, "thorough": False},
    "require": ["ancestor_rechecks", "branch_points", "copies_checked", "dict_snapshots_compared", "pickle_roundtrips", "query_trees", "twin_chains_compared", "transformed_copies_compared"],
    "assumptions": ["the first compilation of a freshly created statement is its reference value"],
}


_LAST_ERROR = [None]


def _value(stmt, d):
    from sqlalchemy import exc as sa_exc

    try:
        c = stmt.compile(dialect=d)
        p = c.params
        return (str(c), tuple(sorted((k, repr(v)) for k, v in p.items())))
    except (sa_exc.SQLAlchemyError, NotImplementedError) as e:
        _LAST_ERROR[0] = f"{d.name}: {type(e).__name__}: {str(e)[:300]}"   # for witnesses only, never part of a verdict
        return ("EXC", type(e).__name__)
    except Exception as e:  # internal error: still a value (C22 judges these); must be reproducible
        import traceback

        fn = "?"
        for fr in reversed(traceback.extract_tb(e.__traceback__)):
            if "/sqlalchemy/" in fr.filename:
                fn = fr.name
                break
        return ("EXC-internal", type(e).__name__, fn)


def _fresh_key(stmt):
    from sqlalchemy.sql.cache_key import HasCacheKey

    ck = HasCacheKey._generate_cache_key(stmt)
    if ck is None:
        return None
    return (ck.key, tuple(repr(b.value) for b in ck.bindparams), repr(sorted((ck.params or {}).items())))


def _strip(key, names=("dialect_options",)):
    """cache key without the (name, value) pairs of lazily populated registries"""
    if key is None:
        return None

    def strip(t):
        if not isinstance(t, tuple):
            return t
        out = []
        skip = False
        for x in t:
            if skip:
                skip = False
                continue
            if isinstance(x, str) and x in names:
                skip = True
                continue
            out.append(strip(x))
        return tuple(out)

    return (strip(key[0]),) + key[1:]


_CONTAINERS = (list, tuple, dict, set, frozenset)
# attributes that are lazily populated registries by design; their effect on the statement's
# value is judged through the cache key / SQL instead of through identity
_LAZY = {"_memoized_keys", "dialect_options"}


def _key_diff_attr(k0, k1):
    """name of the traversal attribute under which two cache-key tuples first differ"""
    if k0 is None or k1 is None:
        return "none-vs-key"
    last = ["root"]

    def walk(a, b):
        if isinstance(a, tuple) and isinstance(b, tuple):
            for x, y in zip(a, b):
                if isinstance(x, str) and x == y and not x.isdigit():
                    last[0] = x
                elif isinstance(x, str) and isinstance(y, str) and x != y and not x.isdigit() and not y.isdigit():
                    # an attribute present on one side only (empty attributes are omitted from keys)
                    return "dialect_options" if "dialect_options" in (x, y) else min(x, y)
                r = walk(x, y)
                if r:
                    return r
            if len(a) != len(b):
                longer = a if len(a) > len(b) else b
                nxt = longer[min(len(a), len(b))]
                return nxt if isinstance(nxt, str) and not nxt.isdigit() else last[0]
            return None
        try:
            return None if a == b else last[0]
        except Exception:
            return last[0]

    r = walk(k0[0], k1[0]) or ("bind-values" if k0[1:] != k1[1:] else "unknown")
    # only traversal attribute names may become part of a mechanism (never user-chosen names such as aliases)
    return r if (r.startswith("_") or r in ("dialect_options", "bind-values", "unknown", "none-vs-key")) else "structure"


def _dialect_option_values(stmt):
    """user-specified dialect options of every element reachable from a statement"""
    from sqlalchemy.sql import visitors

    out = []
    try:
        for el in visitors.iterate(stmt):
            d = getattr(el, "__dict__", {}).get("dialect_options")
            if d:
                out.append(sorted((dn, sorted((k, repr(v)) for k, v in getattr(ad, "_non_defaults", {}).items())) for dn, ad in d.items()))
    except Exception:
        pass
    return repr(out)


def _shares_dialect_options(stmt, later):
    """True when a ``dialect_options`` registry reachable from ``stmt`` is also held by an element of a later
    statement that is not itself part of ``stmt`` (the shallow __dict__ copy made by _generate())"""
    from sqlalchemy.sql import visitors

    mine = {}
    els = set()
    try:
        for el in visitors.iterate(stmt):
            els.add(id(el))
            d = getattr(el, "__dict__", {}).get("dialect_options")
            if d is not None:
                mine[id(d)] = d
    except Exception:
        return False
    if not mine:
        return False
    for other in later:
        try:
            for el in visitors.iterate(other):
                if id(el) in els:
                    continue
                d = getattr(el, "__dict__", {}).get("dialect_options")
                if d is not None and id(d) in mine:
                    return True
        except Exception:
            continue
    return False


def _snap(stmt):
    """shallow __dict__ snapshot of every reachable element (values kept alive)"""
    from sqlalchemy.sql import visitors

    out = []
    seen = set()
    try:
        it = list(visitors.iterate(stmt))
    except Exception:
        it = [stmt]
    for el in it:
        if id(el) in seen:
            continue
        seen.add(id(el))
        d = getattr(el, "__dict__", None)
        if d is None:
            continue
        memo = getattr(el, "_memoized_keys", ())
        rec = {}
        for k, v in d.items():
            if k in memo or k in _LAZY:
                continue
            if isinstance(v, _CONTAINERS):
                try:
                    cp = type(v)(v) if not isinstance(v, dict) else dict(v)
                except Exception:
                    cp = None
                rec[k] = (v, cp)
            else:
                rec[k] = (v, None)
        out.append((el, rec))
    return out


def _same_members(a, b):
    if isinstance(a, dict):
        return len(a) == len(b) and all(k in b and b[k] is a[k] for k in a)
    if isinstance(a, (set, frozenset)):
        return len(a) == len(b) and {id(x) for x in a} == {id(x) for x in b}
    return len(a) == len(b) and all(x is y for x, y in zip(a, b))


def _snap_diff(snap):
    """list of (class name, attribute, how) that changed since the snapshot"""
    out = []
    for el, rec in snap:
        d = el.__dict__
        memo = getattr(el, "_memoized_keys", ())
        for k, (v, cp) in rec.items():
            if k in memo:
                continue
            if k not in d:
                out.append((type(el).__name__, k, "deleted"))
            elif d[k] is not v:
                out.append((type(el).__name__, k, "rebound"))
            elif cp is not None and not _same_members(cp, v):
                out.append((type(el).__name__, k, "container-mutated"))
    return out


def run(ctx):
    import copy
    import pickle
    import random
    import warnings

    from sqlalchemy import exc as sa_exc
    from sqlalchemy.sql import visitors

    warnings.simplefilter("ignore", sa_exc.SAWarning)
    from vf.gen import stmt_gb as G

    env = G.make_env()
    ds = G.dialects()
    dnames = list(ds)
    rng = ctx.rng
    g = G.Gen(rng, depth=1, orm_ratio=0.3, rich=True)
    ntrees = ctx.pick({"quick": 36, "thorough": 900})
    maxlen = ctx.pick({"quick": 6, "thorough": 12})
    ops_cache = {}
    from vf.gen import rich_gb as RG

    recipes = RG.recipes(env)
    recipe_names = sorted(recipes)

    query_trees(ctx, env, G, ds, dnames)

    for ti in range(ntrees):
        if not ctx.budget_ok():
            break
        vals = G.Vals(ti % 20, salt=ti)

        def replay(fn_, st_rng, st_i, *args):
            """call a builder again from the recorded random / literal state: a fresh, never compiled twin"""
            r2 = random.Random()
            r2.setstate(st_rng)
            v2 = G.Vals(vals.j, vals.salt)
            v2.i = st_i
            return fn_(*args, r2, v2)

        if rng.random() < 0.25:
            # richer base statements (window functions, VALUES, LATERAL, recursive CTE, DML in CTE, upserts, ORM ...)
            rname = rng.choice(recipe_names)
            st0 = (rng.getstate(), vals.i)
            try:
                base = recipes[rname](rng, vals)
            except (sa_exc.SQLAlchemyError, NotImplementedError):
                continue
            spec = {"k": G.stmt_kind(base), "recipe": rname}
            ctx.seen("recipe_bases", rname)
            rebuild_base = (lambda rname=rname, st0=st0: replay(recipes[rname], st0[0], st0[1]))
        else:
            # text() constructs and compound selects get their own share
            c_ = rng.random()
            spec = g.text() if c_ < 0.12 else g.compound() if c_ < 0.24 else g.stmt()
            st0 = vals.i
            try:
                base, _b = G.build(env, spec, vals)
            except G.Inapplicable:
                continue

            def rebuild_base(spec=spec, st0=st0):
                v2 = G.Vals(vals.j, vals.salt)
                v2.i = st0
                return G.build(env, spec, v2)[0]
        nodes = []  # dict(stmt, value{dn:..}, key, parent, op)

        def add(stmt, parent, opname, rebuild=None):
            # compile-does-not-modify: snapshot, compile everywhere, compare
            key0 = _fresh_key(stmt)
            snap = _snap(stmt)
            value = {dn: _value(stmt, ds[dn]) for dn in dnames}
            ctx.count("compiles", len(dnames))
            diff = _snap_diff(snap)
            ctx.count("dict_snapshots_compared")
            ctx.count("elements_snapshotted", len(snap))
            key1 = _fresh_key(stmt)
            key_attr = _key_diff_attr(key0, key1) if key0 != key1 else None
            attrs = sorted({d_[1] for d_ in diff} - {key_attr})
            for attr in attrs:  # one mechanism per attribute, whether seen through __dict__ or through the key
                these = [d_ for d_ in diff if d_[1] == attr]
                ctx.violation(f"compile-modifies-statement:{attr}",
                              f"compiling changed attribute {attr}: {these[:4]} (cache key unchanged); statement made by {opname}",
                              {"spec": spec, "op": opname, "changes": these[:10]})
            if key0 != key1:
                attr = key_attr
                culprits = []
                for dn in dnames:  # which dialect's compiler did it (fresh copy per dialect)
                    try:
                        cp = stmt._clone() if not hasattr(stmt, "_generate") else stmt._generate()
                        cp.__dict__.pop("dialect_options", None)
                        a = _fresh_key(cp)
                        _value(cp, ds[dn])
                        if _fresh_key(cp) != a:
                            culprits.append(dn)
                    except Exception:
                        pass
                ctx.violation(f"compile-modifies-statement:{attr}",
                              f"un-memoized cache key of the statement differs before/after compiling it (attribute {attr}, "
                              f"__dict__ changes {[d_ for d_ in diff if d_[1] == attr][:3]}, "
                              f"compilers responsible: {culprits}); statement made by {opname}",
                              {"spec": spec, "op": opname, "attribute": attr, "dialects": culprits,
                               "ops": [(m["parent"], m["op"]) for m in nodes] + [(parent, opname)]})
            nodes.append({"stmt": stmt, "value": value, "key": _strip(key1), "parent": parent, "op": opname, "children": 0, "dirty": False,
                          "rebuild": rebuild, "dopts": _dialect_option_values(stmt)})
            return len(nodes) - 1

        def recheck(i, dn_list, when):
            n = nodes[i]
            if n["dirty"]:
                return False
            ok = _recheck(i, dn_list, when)
            if not ok:
                n["dirty"] = True  # reported once; do not cascade into the copy checks
            return ok

        def _recheck(i, dn_list, when):
            n = nodes[i]
            for dn in dn_list:
                ctx.count("ancestor_rechecks")
                now = _value(n["stmt"], ds[dn])
                if now != n["value"][dn]:
                    later = [m["op"] for m in nodes[i + 1:]]
                    culprit = later[-1] if later else "recompile"
                    what = "sql" if now[0] != n["value"][dn][0] else "params"
                    # the (fixed) shared-registry defect: the statement's own user-specified dialect options changed
                    shared = (_dialect_option_values(n["stmt"]) != n["dopts"]
                              and _shares_dialect_options(n["stmt"], [m["stmt"] for m in nodes[i + 1:]]))
                    mech = (f"earlier-statement-{what}-changed:shared-dialect_options-mutated-by-generative-call" if shared
                            else f"earlier-statement-{what}-changed-after:{culprit}")
                    ctx.violation(
                        mech,
                        f"{dn}: statement #{i} (made by {n['op']}) compiled to {n['value'][dn]!r:.300} when created "
                        f"but to {now!r:.300} {when}; later ops {later}",
                        {"spec": spec, "node": i, "ops": [(m["parent"], m["op"]) for m in nodes], "dialect": dn,
                         "recorded": n["value"][dn], "now": now})
                    return False
            k = _strip(_fresh_key(n["stmt"]))
            if k != n["key"]:
                later = [m["op"] for m in nodes[i + 1:]]
                ctx.violation(f"earlier-statement-cache-key-changed-after:{later[-1] if later else 'recompile'}",
                              f"statement #{i} (made by {n['op']}) has a different cache key {when}; later ops {later}",
                              {"spec": spec, "node": i, "ops": [(m["parent"], m["op"]) for m in nodes]})
                return False
            memo = n["stmt"]._generate_cache_key()
            if (memo is None) != (k is None) or (memo is not None and _strip((memo.key,))[0] != k[0]):
                ctx.violation("memoized-cache-key-stale", f"memoized cache key of statement #{i} differs from a fresh one {when}",
                              {"spec": spec, "node": i, "ops": [(m["parent"], m["op"]) for m in nodes]})
                return False
            return True

        add(base, None, "base:" + spec["k"], rebuild_base)
        steps = rng.randint(2, maxlen)
        for step in range(steps):
            pi = len(nodes) - 1 if rng.random() < 0.65 else rng.randrange(len(nodes))
            parent = nodes[pi]["stmt"]
            kind = G.stmt_kind(parent)
            if kind not in ops_cache:
                ops_cache[kind] = G.chain_ops(env, kind)
            ops = ops_cache[kind]
            if not ops:
                break
            new = None
            for _try in range(4):
                name, fn = rng.choice(ops)
                st_op = (rng.getstate(), vals.i)
                try:
                    new = fn(parent, rng, vals)
                    break
                except G.Inapplicable:
                    ctx.count("ops_inapplicable")
                except sa_exc.SQLAlchemyError:
                    ctx.count("ops_rejected_by_library")
                    ctx.seen("ops_rejected", name)
            if new is None:
                continue
            if new is parent:  # documented no-op (e.g. set_label_style with the current style)
                ctx.count("ops_noop_returned_self")
                continue
            ctx.seen("ops_applied", kind + "." + name)
            nodes[pi]["children"] += 1
            add(new, pi, name, (lambda pi=pi, fn=fn, st_op=st_op: replay(fn, st_op[0], st_op[1], nodes[pi]["rebuild"]())))
            dn = dnames[(ti + step) % len(dnames)]
            ok = True
            for i in range(len(nodes) - 1):
                ok = recheck(i, [dn], f"after step {step} ({name})") and ok
            if not ok:
                break
        # end of tree: every node on every dialect, repeat compile, copies
        for i in range(len(nodes)):
            recheck(i, dnames, "at the end of the tree")
        pick = sorted(set([0, len(nodes) - 1, rng.randrange(len(nodes))]))
        for i in pick:
            n = nodes[i]
            st = n["stmt"]
            if n["dirty"]:
                continue
            variants = [("copy.copy", lambda: copy.copy(st)), ("_clone", lambda: st._clone()),
                        ("cloned_traverse", lambda: visitors.cloned_traverse(st, {}, {})),
                        ("replacement_traverse", lambda: visitors.replacement_traverse(st, {}, lambda e: None))]
            if hasattr(st, "_generate"):
                variants.append(("_generate", lambda: st._generate()))
            variants.append(("pickle", lambda: pickle.loads(pickle.dumps(st))))
            for vname, mk in variants:
                try:
                    cp = mk()
                except sa_exc.SQLAlchemyError:
                    ctx.count("copy_rejected_by_library")
                    continue
                except Exception as e:
                    if vname == "pickle":
                        ctx.count("pickle_errors")
                        ctx.seen("pickle_error_types", type(e).__name__)
                        continue
                    import traceback

                    frames = [fr for fr in traceback.extract_tb(e.__traceback__) if "/sqlalchemy/" in fr.filename]
                    if not frames:
                        raise
                    last_cls = str(e).split("'")[1] if "'" in str(e) else "?"
                    ctx.violation(
                        f"copy-raises-internal-error:{type(e).__name__}@{frames[-1].name}:{last_cls}",
                        f"{vname} of statement #{i} ({n['op']}) raised {type(e).__name__}: {e}",
                        {"spec": spec, "node": i, "ops": [(m["parent"], m["op"]) for m in nodes], "error": repr(e)})
                    continue
                if vname == "pickle":
                    ctx.count("pickle_roundtrips")
                ctx.count("copies_checked")
                for dn in dnames:
                    got = _value(cp, ds[dn])
                    if got != n["value"][dn]:
                        what = "sql" if got[0] != n["value"][dn][0] else "params"
                        fam = "traversal-clone" if vname in ("cloned_traverse", "replacement_traverse") else vname
                        mech = f"copy-compiles-differently:{fam}:{what}"
                        if got[0] == "EXC-internal":
                            mech = f"copy-compile-raises-internal-error:{got[1]}@{got[2]}"
                        ctx.violation(
                            mech,
                            f"{dn}: {vname} of statement #{i} ({n['op']}) compiles to {got!r:.300}, original {n['value'][dn]!r:.300}",
                            {"spec": spec, "node": i, "ops": [(m["parent"], m["op"]) for m in nodes], "dialect": dn,
                             "original": n["value"][dn], "copy": got})
                        break
            # the copies must not have disturbed the original either
            recheck(i, [dnames[i % len(dnames)]], "after copying it")
        _twin_checks(ctx, env, G, ds, dnames, nodes, spec, rng, _value, sa_exc)
        branch = sum(1 for n in nodes if n["children"] >= 2)
        ctx.count("branch_points", branch)
        kinds = {n["op"] for n in nodes[1:]}
        ctx.maxi("max_tree_size", len(nodes))
        ctx.case({"spec": G.describe(spec), "ops": [(n["parent"], n["op"]) for n in nodes]},
                 nontrivial=branch > 0 or len(kinds) >= 3)
        if ti < 3:
            ctx.sample({"base": spec, "ops": [(n["parent"], n["op"]) for n in nodes],
                        "last_sql_sqlite": nodes[-1]["value"]["sqlite"][0][:400]})


def query_trees(ctx, env, G, ds, dnames):
    """Legacy ``Session.query()`` objects are generative too: trees of Query calls (filter, join, add_entity,
    add_columns, with_entities, options, order_by, limit, union ...); the value of a Query is the compilation
    of ``query.statement``; every ancestor is re-judged after every step and at the end."""
    from sqlalchemy import exc as sa_exc

    rng = ctx.rng
    ops = G.query_ops(env)
    ntrees = ctx.pick({"quick": 16, "thorough": 300})
    maxlen = ctx.pick({"quick": 6, "thorough": 10})
    session = env.orm.Session()
    try:
        for ti in range(ntrees):
            if not ctx.budget_ok():
                break
            vals = G.Vals(ti % 20, salt=1000 + ti)
            bname, q0 = G.query_bases(env, session, rng, vals)
            nodes = []

            def value(q, names):
                out = {}
                for dn in names:
                    try:
                        out[dn] = _value(q.statement, ds[dn])
                    except sa_exc.SQLAlchemyError as e:
                        out[dn] = ("EXC", type(e).__name__)
                    except Exception as e:  # Query.statement itself failed: still a value, must be reproducible
                        out[dn] = ("EXC-internal", type(e).__name__)
                        ctx.count("query_statement_internal_errors")
                        ctx.seen("query_statement_internal_errors", type(e).__name__)
                return out

            def add(q, parent, opname):
                nodes.append({"q": q, "value": value(q, dnames), "parent": parent, "op": opname, "children": 0, "dirty": False})

            def recheck(i, names, when):
                n = nodes[i]
                if n["dirty"]:
                    return
                now = value(n["q"], names)
                ctx.count("ancestor_rechecks")
                ctx.count("query_ancestor_rechecks")
                for dn in names:
                    if now[dn] != n["value"][dn]:
                        n["dirty"] = True
                        later = [m["op"] for m in nodes[i + 1:]]
                        culprit = later[-1] if later else "recompile"
                        ctx.violation(
                            f"earlier-query-sql-changed-after:{culprit}",
                            f"{dn}: Query #{i} (made by {n['op']}) compiled to {n['value'][dn]!r:.300} when created but to "
                            f"{now[dn]!r:.300} {when}; later ops {later}",
                            {"base": bname, "node": i, "ops": [(m["parent"], m["op"]) for m in nodes], "dialect": dn,
                             "recorded": n["value"][dn], "now": now[dn]})
                        return

            add(q0, None, "base:" + bname)
            for step in range(rng.randint(2, maxlen)):
                pi = len(nodes) - 1 if rng.random() < 0.6 else rng.randrange(len(nodes))
                new = None
                for _try in range(4):
                    name, fn = rng.choice(ops)
                    try:
                        new = fn(nodes[pi]["q"], rng, vals)
                        break
                    except (sa_exc.SQLAlchemyError, G.Inapplicable):
                        ctx.count("ops_rejected_by_library")
                if new is None or new is nodes[pi]["q"]:
                    continue
                ctx.seen("ops_applied", "query." + name)
                nodes[pi]["children"] += 1
                add(new, pi, name)
                dn = dnames[(ti + step) % len(dnames)]
                for i in range(len(nodes) - 1):
                    recheck(i, [dn], f"after step {step} ({name})")
            for i in range(len(nodes)):
                recheck(i, dnames, "at the end of the tree")
            branch = sum(1 for n in nodes if n["children"] >= 2)
            ctx.count("branch_points", branch)
            ctx.count("query_trees")
            ctx.case({"query": bname, "ops": [(n["parent"], n["op"]) for n in nodes]},
                     nontrivial=branch > 0 or len({n["op"] for n in nodes[1:]}) >= 3)
    finally:
        session.close()


def _transformations(env, G, rng_seed):
    """(name, fn(stmt) -> transformed copy) : copies that *change* something inside the statement"""
    import random

    from sqlalchemy.sql import util as sql_util
    from sqlalchemy.sql import visitors

    T = env.tables

    def shift_binds(st):
        def visit(bp):
            if isinstance(bp.value, int) and not isinstance(bp.value, bool):
                bp.value = bp.value + 1000
            elif isinstance(bp.value, str):
                bp.value = bp.value + "~"
        return visitors.cloned_traverse(st, {}, {"bindparam": visit})

    def adapt_to_alias(st):
        r = random.Random(rng_seed)
        present = [k for k in sorted(T) if any(el is T[k] for el in visitors.iterate(st))]
        if not present:
            raise G.Inapplicable()
        k = r.choice(present)
        return sql_util.ClauseAdapter(T[k].alias("adp")).traverse(st)

    def replace_column(st):
        r = random.Random(rng_seed)
        k = r.choice(sorted(T))
        cols = [c for c in T[k].c if c.name != "id"]
        a, b = r.sample(cols, 2)

        def replace(el, **kw):
            return b if el is a else None
        return visitors.replacement_traverse(st, {}, replace)

    def annotate(st):
        return st._annotate({"vf_marker": rng_seed})

    def deannotate(st):
        return st._deannotate()

    return [("cloned_traverse-new-bind-values", shift_binds), ("ClauseAdapter-to-alias", adapt_to_alias),
            ("replacement_traverse-column", replace_column), ("annotate", annotate), ("deannotate", deannotate)]


def _twin_checks(ctx, env, G, ds, dnames, nodes, spec, rng, _value, sa_exc):
    """Compile first, derive afterwards: (1) a node that was derived from already compiled ancestors must compile
    like the same chain rebuilt from scratch without any intermediate compilation; (2) a transforming copy
    (new bind values, adaptation to an alias, column replacement, (de)annotation) of a statement that has
    been compiled must compile like the same copy of its never compiled twin."""
    live = [i for i, n in enumerate(nodes) if not n["dirty"] and n["rebuild"] is not None]
    if not live:
        return
    try:
        twin0 = nodes[0]["rebuild"]()
    except (G.Inapplicable, sa_exc.SQLAlchemyError):
        return
    if {dn: _value(twin0, ds[dn]) for dn in dnames} != nodes[0]["value"]:
        ctx.count("twin_rebuild_not_reproducible")   # the harness cannot rebuild this base deterministically: no claim
        return
    pick = sorted({live[-1], rng.choice(live)})
    for i in pick:
        n = nodes[i]
        try:
            fresh = n["rebuild"]()
        except (G.Inapplicable, sa_exc.SQLAlchemyError):
            ctx.count("twin_rebuild_rejected")
            continue
        ctx.count("twin_chains_compared")
        for dn in dnames:
            got = _value(fresh, ds[dn])
            if got != n["value"][dn]:
                ctx.violation(
                    f"derived-from-compiled-differs-from-fresh:{n['op']}",
                    f"{dn}: statement #{i} (made by {n['op']} from ancestors that had been compiled) compiles to "
                    f"{n['value'][dn]!r:.300}; the same chain built without intermediate compilation gives {got!r:.300}",
                    {"spec": spec, "node": i, "ops": [(m["parent"], m["op"]) for m in nodes], "dialect": dn,
                     "compiled_chain": n["value"][dn], "fresh_chain": got})
                break
        # (1b) pickling the never compiled twin must give a statement that compiles like the node
        import pickle

        try:
            pk = pickle.loads(pickle.dumps(n["rebuild"]()))
        except (G.Inapplicable, sa_exc.SQLAlchemyError):
            pk = None
        except Exception:
            ctx.count("pickle_errors")
            pk = None
        if pk is not None:
            ctx.count("pickle_roundtrips_uncompiled")
            for dn in dnames:
                got = _value(pk, ds[dn])
                if got != n["value"][dn]:
                    what = "sql" if got[0] != n["value"][dn][0] else "params"
                    mech = f"copy-compiles-differently:pickle:{what}"
                    if got[0] == "EXC-internal":
                        mech = f"copy-compile-raises-internal-error:{got[1]}@{got[2]}"
                    ctx.violation(
                        mech,
                        f"{dn}: pickle round trip of the never compiled twin of statement #{i} ({n['op']}) compiles to {got!r:.300}, "
                        f"the statement itself to {n['value'][dn]!r:.300}",
                        {"spec": spec, "node": i, "ops": [(m["parent"], m["op"]) for m in nodes], "dialect": dn,
                         "original": n["value"][dn], "copy": got, "pickled": "never compiled twin",
                         "last_error_message": _LAST_ERROR[0]})
                    break
        # (2) transforming copies: compiled original vs never compiled twin
        seed = rng.randrange(1 << 30)
        for tname, tf in _transformations(env, G, seed):
            try:
                twin = n["rebuild"]()      # never compiled
                a = tf(n["stmt"])
                b = tf(twin)
            except (G.Inapplicable, sa_exc.SQLAlchemyError):
                continue
            except Exception as e:
                if tname == "pickle":
                    ctx.count("pickle_errors")
                    continue
                ctx.count("transformation_internal_errors")
                ctx.seen("transformation_internal_errors", f"{tname}:{type(e).__name__}")
                continue
            ctx.count("transformed_copies_compared")
            ctx.seen("transformations", tname)
            for dn in dnames:
                va, vb = _value(a, ds[dn]), _value(b, ds[dn])
                if va != vb:
                    what = "sql" if va[0] != vb[0] else "params"
                    if what == "sql" and isinstance(va[0], str) and isinstance(vb[0], str):
                        # the same statement up to the NAMES of generated column labels
                        # ("... AS ta_x_1" vs "... AS adp_x_1"): a separate, registered mechanism
                        strip = re.compile(r"\bAS [A-Za-z_][A-Za-z0-9_]*")
                        if strip.sub("AS _", va[0]) == strip.sub("AS _", vb[0]) and va[1:] == vb[1:]:
                            what = "sql-generated-label-names-only"
                    ctx.violation(
                        f"transformed-copy-of-compiled-differs-from-fresh:{tname}:{what}",
                        f"{dn}: {tname} of statement #{i} ({n['op']}) after it had been compiled gives {va!r:.300}; the same "
                        f"transformation of its never compiled twin gives {vb!r:.300}",
                        {"spec": spec, "node": i, "ops": [(m["parent"], m["op"]) for m in nodes], "dialect": dn,
                         "from_compiled": va, "from_fresh": vb, "transformation": tname})
                    break
