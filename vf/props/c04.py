"""C04 -- bound parameters reach the right placeholders in every paramstyle.

Every bind of every generated statement carries a value that no other bind of that
statement carries (unique 7-digit ints / tagged strings), so "which value arrived at
which placeholder" is observable.  Three deciding monitors:

1. token oracle (all styles, all drivers).  The ``(sql, params)`` pair received by the
   DBAPI (paramstyle shim in front of real sqlite3, or the recording fake DBAPI for the
   PostgreSQL / MySQL / MariaDB drivers) is lexed by an independent lexer
   (``vf/mon/sqltok_gc``); each placeholder is resolved against the delivered
   parameters the way a PEP-249 driver of that style does (sequence position, 1-based
   index, name).  The resulting sequence "value at each placeholder, in text order"
   (inline literals of ``literal_execute`` binds included) must equal the sequence of
   literals, in text order, of the *same statement compiled on the same dialect with
   literal_binds* - a rendering that involves no names, no positiontup and no
   parameter dictionary.  Both sequences are filtered to the values the generator
   handed out.
2. execution oracle (SQLite).  The statement is executed under qmark, named, numeric
   (``sqlite+pysqlite_numeric``), numeric_dollar (``sqlite+pysqlite_dollar``) by the real
   sqlite3 and under format / pyformat through the shim (lexer-translated to qmark).
   Rows (and, for DML, RETURNING rows + the table contents afterwards) must equal those
   of the literal_binds SQL executed on an independent raw sqlite3 connection holding
   the same data, hence be equal across the six styles.  For ``probe`` selects the
   expected row is known absolutely from the generator.
3. each statement shape is built twice with disjoint value sets; the second execution
   is served from the engine's compiled cache and must deliver the second values.

executemany: per parameter set for ``cursor.executemany``; for insertmanyvalues batches
the expected sequence is ``pre + VALUES-tokens(row_0..row_k) + post`` cut out of the
per-row literal renderings.

Reference rendering details (found while making the oracle sound):
* the literal_binds reference is compiled on a *named-paramstyle twin* of each dialect,
  because under a positional paramstyle ``_process_positional`` / ``_process_numeric``
  rewrite pyformat-looking text inside literal *values* (``'v %(a)s'`` -> ``'v ?'``;
  C05's business);
* ``stmt.params(...)`` + literal_binds renders NULL in this tree, so execution-time
  values are embedded by rebuilding the statement (``Builder(embed=True)``);
* literal_binds does not reach the RETURNING clause of DML: those binds remain
  ``:name`` placeholders of the twin and are resolved by name; RETURNING therefore only
  carries plain binds.

Open on the unchanged tree: ``imv-cte-bind-accumulated-as-values-bind`` - executemany INSERT .. RETURNING whose VALUES
contains a scalar subquery over a SELECT CTE with a bind: the CTE's bind is accumulated as a per-row VALUES bind
(fails under every paramstyle; proposal in selftest/C04/proposed/).  The sqlite engines of this check take over BEGIN
(pysqlite's implicit transaction does not start in front of "WITH ... INSERT").

Genuine defects this check found (fixed in /repo by 7b1a1df, 2a07cdd, fd1a2af; the mechanisms stay as regression detectors):
* ``literal-execute-escaped-name-keyerror`` - literal_execute bind whose name needs
  escaping -> KeyError in ``_process_parameters_for_postcompile``;
* ``imv-named-bindname-prefix-replace`` - insertmanyvalues under paramstyle "named":
  ``str.replace(":x", ":x__0")`` also rewrites the head of ``:x2``;
* ``repeated-tuple-expanding-positional-assert`` - a tuple IN parameter rendered twice in
  one statement (subquery used in two UNION branches) -> AssertionError under qmark /
  format / numeric, works under named / pyformat.
An internal error (AssertionError, KeyError...) under one paramstyle while the reference
rendering executes is reported as ``execution-failed-under-style``.

Guards (what the oracle deliberately does not demand):
* extra keys in a delivered dict are ignored (drivers ignore them);
* RETURNING rows of executemany without sort_by_parameter_order and of UPDATE/DELETE
  are compared as multisets;
* two bind names that escape to the same text are never generated (unspecified);
* executemany never varies a non-VALUES bind between parameter sets (insertmanyvalues
  takes those from the first set by design);
* negative numbers are never generated (the lexer reads ``-5`` as operator + 5).
"""
from __future__ import annotations

import sqlite3

META = {
    "id": "C04",
    "level": "exploration",
    "technique": "DBAPI-boundary recording under 6 paramstyles + independent placeholder lexer, judged against literal_binds rendering and real SQLite execution",
    "level_text": "Seeded generated statements (SELECT with binds in every clause, CTE/subquery/union/join, text(), INSERT/UPDATE/DELETE with RETURNING, INSERT FROM SELECT, executemany incl. insertmanyvalues batches; expanding IN, tuple IN, literal_execute, repeated binds, escaped bind names, bind processors) each executed under six paramstyles on real SQLite and recorded for 9 PostgreSQL/MySQL/MariaDB drivers; every execution repeated from the compiled cache with fresh values.",
    "level_note": "Only SQLite executes. psycopg2/psycopg/pg8000/asyncpg/pymysql/mysqlclient/mariadb/aiomysql/asyncmy are judged at the DBAPI boundary of a recording fake (the real driver C code and servers never run). format/pyformat on SQLite run through a shim that translates to qmark with the harness lexer (trusted base: ~200 lines lexer). Reference is SQLAlchemy's own literal_binds rendering of the same statement (different code path: no bind names / positiontup) plus generator-known rows for probe selects.",
    "design_ref": "DESIGN.md section 4, C04",
    "rule": "case = (statement kind, feature set, bind count); non-trivial = >=3 binds and at least one of {expanding, cte, subquery, repeated_bind, escaped_name, literal_execute, executemany, returning}; distinct by structure seed",
    "shards": {"quick": 8, "thorough": 16},
    "soft_s": {"quick": 60, "thorough": 800},
    "exhaustive": {"quick": False, "thorough": False},
    "require": ["feature_upsert", "feature_independent_cte", "placeholders_resolved", "token_seq_compared", "rows_compared", "styles_executed", "fake_statements_judged",
                "cache_hits_judged", "imv_batches_judged", "executemany_sets_judged", "probe_rows_absolute"],
    "assumptions": ["literal_binds rendering places each bind's literal where the bind is in the expression tree",
                    "harness lexer tokenises the SQL SQLAlchemy emits for these statements"],
}

SQLITE_STYLES = [
    ("qmark", "sqlite://"),
    ("named", "sqlite://"),
    ("format", "sqlite://"),
    ("pyformat", "sqlite://"),
    ("numeric", "sqlite+pysqlite_numeric://"),
    ("numeric_dollar", "sqlite+pysqlite_dollar://"),
]
FAKE_URLS = [
    "postgresql+psycopg2://u:p@h/db",
    "postgresql+psycopg://u:p@h/db",
    "postgresql+pg8000://u:p@h/db",
    "postgresql+asyncpg://u:p@h/db",
    "mysql+pymysql://u:p@h/db",
    "mysql+mysqldb://u:p@h/db",
    "mariadb+mariadbconnector://u:p@h/db",
    "mysql+aiomysql://u:p@h/db",
    "mysql+asyncmy://u:p@h/db",
]


class Rig:
    def __init__(self, ctx):
        import sqlalchemy as sa
        from sqlalchemy.dialects import registry

        from vf.gen import bindstmt_gc as g
        from vf.mon import sqltok_gc as tok
        from vf.mon.fake_dbapi import recording_engine
        from vf.mon.pstyle_shim_gc import ShimDBAPI

        registry.register("sqlite.pysqlite_numeric", "sqlalchemy.dialects.sqlite.pysqlite", "_SQLiteDialect_pysqlite_numeric")
        registry.register("sqlite.pysqlite_dollar", "sqlalchemy.dialects.sqlite.pysqlite", "_SQLiteDialect_pysqlite_dollar")
        self.sa, self.g, self.tok, self.ctx = sa, g, tok, ctx
        self.env = g.Env()
        self.sqlite = []
        for style, url in SQLITE_STYLES:
            shim = ShimDBAPI(style)
            eng = shim.engine(url, paramstyle=style, insertmanyvalues_page_size=4)

            # pysqlite's legacy transaction control opens its implicit transaction only in front of statements
            # that *start* with INSERT/UPDATE/DELETE/REPLACE: "WITH ... INSERT" would run in autocommit and
            # survive the harness' rollback.  Documented workaround: take over BEGIN.
            @sa.event.listens_for(eng, "connect")
            def _no_implicit_begin(dbapi_con, rec):
                dbapi_con.isolation_level = None

            @sa.event.listens_for(eng, "begin")
            def _explicit_begin(conn):
                conn.exec_driver_sql("BEGIN")

            raw = eng.raw_connection()
            g.load_raw(raw.dbapi_connection._raw)
            raw.close()
            eng.twin = self.twin_of(eng)
            self.sqlite.append((style, shim, eng))
        self.fakes = []
        for url in FAKE_URLS:
            eng, fake = recording_engine(url, insertmanyvalues_page_size=4)
            eng.twin = self.force_named(recording_engine(url, paramstyle="named")[0].dialect)
            self.fakes.append((url.split(":")[0], eng, fake))
        self.ref = sqlite3.connect(":memory:", isolation_level=None)
        g.load_raw(self.ref)
        self.ref_dialect = sa.create_engine("sqlite://", paramstyle="named").dialect

    def twin_of(self, eng):
        """the same dialect with a non-positional paramstyle: its literal_binds rendering is
        not post-processed by _process_positional/_process_numeric (which rewrite
        pyformat-looking text *inside literal values*; that is C05's business, not C04's)"""
        return self.force_named(self.sa.create_engine(eng.url, paramstyle="named").dialect)

    @staticmethod
    def force_named(d):
        if d.paramstyle != "named":  # e.g. mariadbconnector ignores the paramstyle argument
            d.paramstyle = "named"
            d.positional = False
            d.identifier_preparer._double_percents = False
        assert not d.identifier_preparer._double_percents
        return d

    def close(self):
        for _, _, eng in self.sqlite:
            eng.dispose()
        for _, eng, _ in self.fakes:
            eng.dispose()
        self.ref.close()


def dp_of(dialect):
    return bool(dialect.identifier_preparer._double_percents)


def literal_tokens(rig, stmt, twin, spans=False):
    """(sql, tokens) of the literal_binds rendering on the named-paramstyle twin dialect."""
    tok = rig.tok
    comp = stmt.compile(dialect=twin, compile_kwargs={"literal_binds": True})
    sql = str(comp)
    toks = tok.lex(sql, "named", double_percents=False, spans=spans, structure=spans,
                   backslash=twin.name in ("mysql", "mariadb"))
    if any(t[0] == "ph" for t in toks):
        # literal_binds does not reach the RETURNING clause of DML: those binds stay
        # ``:name`` placeholders of the (non-positional) twin; resolve them by name
        if "RETURNING" not in sql:
            raise AssertionError("placeholder left in literal rendering: " + sql)
        toks = [("num" if isinstance(t[1], int) else "str", str(t[1])) + tuple(t[2:]) if t[0] == "val" else t
                for t in tok.resolve(toks, comp.params, "named")]
    return sql, toks


def filt(seq, known):
    return [x for x in seq if x in known]


def delivered_seq(rig, sql, params, dialect):
    tok = rig.tok
    style = dialect.paramstyle
    toks = tok.lex(sql, style, double_percents=dp_of(dialect), backslash=dialect.name in ("mysql", "mariadb"))
    nph = sum(1 for t in toks if t[0] == "ph")
    res = tok.resolve(toks, params if params is not None else (), style)
    return tok.literal_seq(res), nph


def split_values(rig, toks):
    """literal tokens with spans + structure -> (pre, vals, post) canonical sequences,
    cut at the parenthesis group that follows the first top-level VALUES keyword."""
    tok = rig.tok
    a = b = None
    for i, t in enumerate(toks):
        if t[0] == "kw" and t[1] == "VALUES":
            depth = 0
            for t2 in toks[i + 1:]:
                if t2[0] == "kw" and t2[1] == "(":
                    if depth == 0:
                        a = t2[2]
                    depth += 1
                elif t2[0] == "kw" and t2[1] == ")":
                    depth -= 1
                    if depth == 0:
                        b = t2[3]
                        break
            break
    if a is None or b is None:
        return None
    lits = [t for t in toks if t[0] in ("num", "str")]
    pre = tok.literal_seq([t for t in lits if t[3] <= a])
    vals = tok.literal_seq([t for t in lits if a <= t[2] and t[3] <= b])
    post = tok.literal_seq([t for t in lits if t[2] >= b])
    return pre, vals, post


def mech(what, style, case):
    if "cte_in_values" in case.features and case.multi is not None and what.split(":")[0] in (
            "placeholder-without-parameter", "bind-misdelivered-imv", "imv-batch-shape", "imv-extra-batch", "imv-rows-not-sent",
            "driver-rejected-statement", "bind-misdelivered-executemany") or (
            "cte_in_values" in case.features and what.startswith("execution-failed-under-style")):
        # the bind of a SELECT CTE that a scalar subquery inside VALUES refers to is accumulated as a per-row
        # VALUES bind although the CTE is rendered once, in the WITH clause (genuine defect, all paramstyles)
        return "imv-cte-bind-accumulated-as-values-bind"
    flags = [f for f in ("executemany", "expanding", "literal_execute", "escaped_name") if f in case.features]
    return "%s:%s:%s%s" % (what, style, case.kind, ("+" + "+".join(flags)) if flags else "")


def judge_log(rig, ctx, case, log, dialect, twin, label, known, witness):
    """Token oracle over the statements one execution produced."""
    tok = rig.tok
    style = dialect.paramstyle
    ok = True
    try:
        if case.multi is None:
            lsql, ltoks = literal_tokens(rig, case.ref.stmt, twin)
            want = filt(tok.literal_seq(ltoks), known)
            if len(log) != 1:
                ctx.violation(mech("statement-count", style, case), f"{label}: {len(log)} statements for one execute", witness)
                return False
            kind, sql, params = log[0]
            got, nph = delivered_seq(rig, sql, params, dialect)
            got = filt(got, known)
            ctx.count("placeholders_resolved", nph)
            ctx.count("token_seq_compared")
            if got != want:
                ok = False
                how = "order" if sorted(map(repr, got)) == sorted(map(repr, want)) else ("count" if len(got) != len(want) else "value")
                ctx.violation(mech("bind-misdelivered-" + how, style, case),
                              f"{label}: values at placeholders (text order) {got} != literal_binds order {want}",
                              dict(witness, sql=sql, params=params, literal_sql=lsql))
            return ok
        # executemany
        per_row = []
        for row in case.multi:
            lsql, ltoks = literal_tokens(rig, case.ref_rows(row), twin, spans=True)
            per_row.append((lsql, ltoks))
        rows_left = list(range(len(case.multi)))
        for kind, sql, params in log:
            if kind == "executemany":
                if len(params) != len(case.multi):
                    ctx.violation(mech("executemany-set-count", style, case), f"{label}: {len(params)} sets for {len(case.multi)} rows", witness)
                    return False
                for i, p in enumerate(params):
                    got, nph = delivered_seq(rig, sql, p, dialect)
                    got = filt(got, known)
                    want = filt(tok.literal_seq([t for t in per_row[i][1] if t[0] in ("num", "str")]), known)
                    ctx.count("placeholders_resolved", nph)
                    ctx.count("executemany_sets_judged")
                    if got != want:
                        ok = False
                        ctx.violation(mech("bind-misdelivered-executemany", style, case),
                                      f"{label}: set {i}: {got} != {want}", dict(witness, sql=sql, params=p, literal_sql=per_row[i][0]))
                        break
                rows_left = []
            else:
                got, nph = delivered_seq(rig, sql, params, dialect)
                got = filt(got, known)
                ctx.count("placeholders_resolved", nph)
                if not rows_left:
                    ctx.violation(mech("imv-extra-batch", style, case), f"{label}: more batches than rows", witness)
                    return False
                sp = split_values(rig, per_row[rows_left[0]][1])
                if sp is None:
                    raise AssertionError("no VALUES group in " + per_row[rows_left[0]][0])
                pre, vals, post = (filt(x, known) for x in sp)
                nrow = len(got) - len(pre) - len(post)
                if not vals or nrow <= 0 or nrow % len(vals) or nrow // len(vals) > len(rows_left):
                    ok = False
                    ctx.violation(mech("imv-batch-shape", style, case), f"{label}: batch has {len(got)} values, row has {len(vals)}, pre {len(pre)}, post {len(post)}",
                                  dict(witness, sql=sql, params=params))
                    break
                k = nrow // len(vals)
                want = list(pre)
                for i in rows_left[:k]:
                    want += filt(split_values(rig, per_row[i][1])[1], known)
                want += post
                rows_left = rows_left[k:]
                ctx.count("imv_batches_judged")
                if got != want:
                    ok = False
                    ctx.violation(mech("bind-misdelivered-imv", style, case),
                                  f"{label}: batch values {got} != {want}", dict(witness, sql=sql, params=params))
                    break
        if ok and rows_left:
            ok = False
            ctx.violation(mech("imv-rows-not-sent", style, case), f"{label}: rows {rows_left} never sent", witness)
        return ok
    except tok.MissingParam as e:
        if style == "named" and "prefix_names" in case.features and case.multi is not None and "cte_in_values" not in case.features:
            # insertmanyvalues, dict paramstyle whose placeholder has no terminator (":name"):
            # str.replace(":p_a", ":p_a__0") also rewrites the head of ":p_a2"
            ctx.count("imv_named_prefix_hits")
            ctx.violation("imv-named-bindname-prefix-replace", f"{label}: {e}", dict(witness, log=log[:2]))
        else:
            ctx.violation(mech("placeholder-without-parameter", style, case), f"{label}: {e}", dict(witness, log=log[:3]))
        return False


def canon_rows(rows, ordered):
    rows = [tuple(r) for r in rows]
    return rows if ordered else sorted(rows, key=repr)


def dump(execfn, tables):
    return {tb: [tuple(r) for r in execfn(f"SELECT * FROM {tb} ORDER BY id")] for tb in tables}


def reference_run(rig, case):
    """literal_binds SQL on the independent raw connection -> (rows, state)."""
    ref = rig.ref
    rows = []
    ref.execute("BEGIN")
    try:
        if case.multi is None:
            comp = case.ref.stmt.compile(dialect=rig.ref_dialect, compile_kwargs={"literal_binds": True})
            cur = ref.execute(str(comp), comp.params)
            if case.returns_rows:
                rows = cur.fetchall()
        else:
            for row in case.multi:
                comp = case.ref_rows(row).compile(dialect=rig.ref_dialect, compile_kwargs={"literal_binds": True})
                cur = ref.execute(str(comp), comp.params)
                if case.returns_rows:
                    rows += cur.fetchall()
        state = dump(lambda q: ref.execute(q).fetchall(), case.tables) if case.kind not in SELECT_KINDS else None
    finally:
        ref.execute("ROLLBACK")
    return canon_rows(rows, case.ordered), state


SELECT_KINDS = {"probe", "select-plain", "select-group", "select-join", "select-union", "select-shared-subquery", "text"}


def known_tuple_assert(ctx, case, e, label, witness, positional):
    """a tuple-typed expanding parameter that is rendered twice (same subquery in two UNION branches)
    under a positional paramstyle: ``assert values is not None`` in _process_parameters_for_postcompile"""
    if isinstance(e.orig, AssertionError) and "tuple_in" in case.features and positional:
        ctx.count("repeated_tuple_param_assert")
        ctx.violation("repeated-tuple-expanding-positional-assert",
                      f"{label}: a tuple IN parameter rendered twice raised AssertionError under a positional paramstyle", dict(witness, error=str(e)[:300]))
        return True
    return False


def known_keyerror(ctx, case, e, label, witness):
    """literal_execute bind whose name needs escaping: _process_parameters_for_postcompile pops the
    *escaped* name from a dictionary keyed by unescaped names -> KeyError (genuine defect)."""
    if isinstance(e.orig, KeyError) and {"literal_execute", "escaped_name"} <= case.features:
        ctx.count("litexec_escaped_keyerror")
        ctx.violation("literal-execute-escaped-name-keyerror",
                      f"{label}: executing a statement with a literal_execute bind whose name needs escaping raised KeyError({e.orig})",
                      dict(witness, error=str(e)[:300]))
        return True
    return False


def run_sqlite(rig, ctx, case, style, shim, eng, known, want_rows, want_state, witness):
    sa = rig.sa
    label = "sqlite/" + style
    with eng.connect() as conn:
        tr = conn.begin()
        try:
            mark = len(shim.log)
            try:
                res = conn.execute(case.stmt, case.multi if case.multi is not None else case.exec_params)
            except sa.exc.DBAPIError as e:
                # the real sqlite3 refused what it was handed: let the token oracle say why
                log = shim.log[mark:]
                if judge_log(rig, ctx, case, log, eng.dialect, eng.twin, label, known, witness):
                    ctx.violation(mech("driver-rejected-statement", style, case), f"{label}: {str(e)[:300]}", witness)
                return
            except sa.exc.StatementError as e:
                if known_keyerror(ctx, case, e, label, witness) or known_tuple_assert(ctx, case, e, label, witness, eng.dialect.positional):
                    return
                ctx.violation(mech("execution-failed-under-style:" + type(e.orig).__name__, style, case),
                              f"{label}: the literal_binds reference executed, this paramstyle raised {str(e)[:200]}", witness)
                return
            except (AssertionError, KeyError, IndexError, TypeError, ValueError, AttributeError) as e:
                # the reference rendering of the very same statement executed: "same rows under every
                # paramstyle" is broken by an internal error under this one
                ctx.violation(mech("execution-failed-under-style:" + type(e).__name__, style, case),
                              f"{label}: the literal_binds reference executed, this paramstyle raised {type(e).__name__}: {str(e)[:200]}", witness)
                return
            rows = res.all() if case.returns_rows else []
            log = shim.log[mark:]
            state = None
            if want_state is not None:
                shim.recording = False
                state = dump(lambda q: conn.exec_driver_sql(q).all(), case.tables)
                shim.recording = True
        finally:
            shim.recording = True
            tr.rollback()
    ctx.count("styles_executed")
    judge_log(rig, ctx, case, log, eng.dialect, eng.twin, label, known, witness)
    rows = canon_rows(rows, case.ordered)
    ctx.count("rows_compared")
    if rows != want_rows:
        ctx.violation(mech("rows-differ-from-literal", style, case), f"{label}: rows {rows[:4]} != reference {want_rows[:4]}",
                      dict(witness, sql=[l[1] for l in log][:2], params=[l[2] for l in log][:2]))
    elif case.expected_rows is not None:
        ctx.count("probe_rows_absolute")
        if rows != case.expected_rows:
            ctx.violation(mech("probe-row-wrong", style, case), f"{label}: {rows} != {case.expected_rows}", witness)
    if want_state is not None and state != want_state:
        diff = {tb: [r for r in state[tb] if r not in want_state[tb]][:4] for tb in state}
        ctx.violation(mech("table-state-differs", style, case), f"{label}: rows not in reference state: {diff}",
                      dict(witness, sql=[l[1] for l in log][:2], params=[l[2] for l in log][:2]))


def run_fake(rig, ctx, case_builder, name, eng, fake, struct_seed, vseed, witness):
    sa, g = rig.sa, rig.g
    import random

    d = eng.dialect
    caps = {"insert_returning": d.insert_returning, "update_returning": d.update_returning, "delete_returning": d.delete_returning,
            "name": d.name}
    al = g.Alloc(random.Random(vseed))
    b = g.Builder(rig.env, struct_seed, al, caps)
    case = b.build(case_builder)
    case.ref = g.Builder(rig.env, struct_seed, g.Alloc(random.Random(vseed)), caps, embed=True).build(case_builder)
    if case.multi is not None and "returning" in case.features and case.ordered:
        # sort_by_parameter_order needs a sentinel the client-side-PK table does not have on
        # every dialect; that path is judged on SQLite
        return
    mark = fake.mark()
    try:
        with eng.connect() as conn:
            conn.execute(case.stmt, case.multi if case.multi is not None else case.exec_params)
    except sa.exc.CompileError:
        ctx.count("fake_compile_unsupported")
        return
    except sa.exc.StatementError as e:
        if known_keyerror(ctx, case, e, name, witness) or known_tuple_assert(ctx, case, e, name, witness, d.positional):
            return
        raise
    except (AssertionError, TypeError, KeyError, IndexError) as e:
        ctx.violation(mech("execution-failed-under-style:" + type(e).__name__, d.paramstyle, case), f"{name}: {type(e).__name__} {str(e)[:200]}", witness)
        return
    log = [(e.kind, e.sql, e.params) for e in fake.since(mark, ("execute", "executemany"))]
    label = name
    ok = judge_log(rig, ctx, case, log, d, eng.twin, label, al.delivered, dict(witness, driver=name))
    ctx.count("fake_statements_judged")
    ctx.seen("fake_driver_styles", f"{name}/{d.driver}/{d.paramstyle}")
    return ok


def run(ctx):
    import random

    rig = Rig(ctx)
    g = rig.g
    rng = ctx.rng
    ncases = ctx.pick({"quick": 36, "thorough": 500})
    try:
        for k in range(ncases):
            # one case of every statement kind is always run, whatever the load
            if k >= len(g.KINDS) and not ctx.budget_ok():
                break
            kind = g.KINDS[k % len(g.KINDS)] if k < 2 * len(g.KINDS) else rng.choice(g.KINDS)
            struct_seed = rng.randrange(1 << 40)
            first = None
            for rnd in range(2):
                vseed = rng.randrange(1 << 40)
                al = g.Alloc(random.Random(vseed))
                case = g.Builder(rig.env, struct_seed, al, None).build(kind)
                case.ref = g.Builder(rig.env, struct_seed, g.Alloc(random.Random(vseed)), None, embed=True).build(kind)
                witness = {"kind": kind, "struct_seed": struct_seed, "value_seed": vseed, "round": rnd,
                           "features": sorted(case.features), "stmt": str(case.stmt)[:600]}
                want_rows, want_state = reference_run(rig, case)
                for style, shim, eng in rig.sqlite:
                    n0 = len(eng._compiled_cache) if eng._compiled_cache is not None else 0
                    run_sqlite(rig, ctx, case, style, shim, eng, al.delivered, want_rows, want_state, witness)
                    if rnd == 1 and eng._compiled_cache is not None and len(eng._compiled_cache) == n0:
                        ctx.count("cache_hits_judged")
                if want_rows:
                    ctx.count("nonempty_results")
                if rnd == 0:
                    first = case
                    nontriv = case.nbinds >= 3 and bool(case.features & {"expanding", "cte", "subquery", "repeated_bind", "escaped_name",
                                                                          "literal_execute", "executemany", "returning"})
                    ctx.case({"kind": kind, "seed": struct_seed}, nontrivial=nontriv)
                    ctx.seen("kinds", case.kind)
                    for f in case.features:
                        ctx.count("feature_" + f)
                    ctx.maxi("max_binds", case.nbinds)
                    if k < 3:
                        ctx.sample({"kind": case.kind, "features": sorted(case.features), "binds": case.nbinds, "stmt": str(case.stmt)[:300]})
                for name, feng, fake in rig.fakes:
                    run_fake(rig, ctx, kind, name, feng, fake, struct_seed, vseed, {"kind": kind, "struct_seed": struct_seed, "value_seed": vseed, "round": rnd})
    finally:
        rig.close()
