"""C05 -- literal rendering is equivalent to binding and cannot inject SQL.

Part A (deciding, SQLite, executed).  A typed table is filled (with bound parameters)
with every value of the pools below.  For each (type, value, clause position) one
statement is built once and delivered three ways:

  bound            ordinary execution, values travel as DBAPI parameters
  literal_binds    ``compile(literal_binds=True)`` text executed with no parameters
  literal_execute  the same statement with ``bindparam(..., literal_execute=True)``

The raw driver rows of the three deliveries must be identical; for the select-list
position the typed result of the literal form must equal the Python value (round trip).
Each parameter is additionally given through a deferred ``callable_=`` (the form the ORM
lazy loader produces) and delivered the same three ways; all six results must agree.
Positions: select list, WHERE =, IN list of binds, one expanding IN parameter whose list
has a None member (``col.in_([v, w, None])``), CASE, INSERT VALUES (read back), LIMIT/OFFSET,
unary minus, LIKE pattern, string concatenation, IS DISTINCT FROM.

Part B (token level, SQLite + postgresql (standard_conforming_strings on and off) +
mysql (NO_BACKSLASH_ESCAPES off and on) + mssql + oracle; no execution): the literal
text is lexed with the dialect's string/number/comment grammar (vf/mon/sqltok_ga.py).
With literals and placeholders replaced by ``?`` (a sign directly in front of a number in
operand position belongs to the number) the token sequence must equal that of the bound
statement -- a literal that closes its quote early, opens a comment, or swallows the
following tokens changes the sequence -- and the token standing where the placeholder
stood must decode to the input value (strings exactly, integers exactly, floats by
``float(text)``).  The SQLite instance of the lexer is calibrated in part A (what the
lexer decodes is what SQLite returns for ``SELECT <literal>``).

Candidate genuine defects re-found on the unchanged tree (they keep firing):
  pyformat-text-in-literal-rewritten-by-positional-compile   a literal containing
        ``%(name)s`` is rewritten to ``?`` (qmark) / ``%s`` (format) by
        SQLCompiler._process_positional, which regex-substitutes over the whole statement
        text including inlined literals: ``select(literal("%(x)s"))`` -> ``SELECT '?'``
  neg-of-negative-literal-opens-comment   ``-literal(-5)`` -> ``--5`` (comment) on every
        dialect but MySQL
  literal-not-inlined:isdistinct   visit_is_[not_]distinct_from_binary of sqlite, mysql,
        mssql, oracle call self.process() without **kw: literal_binds is lost

Guards: Float values whose literal text SQLite itself does not parse back to the same
double are dropped from the pool (counted); floats are compared within 1e-13 relative (SQLite's text->double conversion of
the literal is not always correctly rounded); -0.0 == 0.0; Numeric/Float literals without a fraction come back as INTEGER
from SQLite (0 vs 0.0 compared numerically); the typed round trip of Numeric/Float is
compared with the typed *bound* result (column scale applies to both); Oracle's
TO_DATE('..','fmt') wrapper around a date literal counts as the literal; Oracle
``RETURNING .. INTO :ret_0`` out-binds are not literals.  NUL-free strings only (statement); finite floats with <= 15 significant digits
and exponents within +-20 (SQLite's text->double conversion is not guaranteed to be
correctly rounded beyond that: float formatting, rule 3); values are given in the
Python type of the column type (no numeric strings for Numeric); types without a literal
processor raise CompileError -> counted, not a violation.
"""
from __future__ import annotations

import datetime as dt
import decimal

META = {
    "id": "C05",
    "level": "exploration",
    "technique": "three-way differential execution on SQLite (bound / literal_binds / literal_execute) over adversarial values x clause positions; per-dialect lexer check that the rendered literal is exactly one token decoding to the input and leaves the statement's token shape unchanged",
    "level_text": "Adversarial and seeded random values of String/Unicode/Text, Integer, Float, Numeric, Date, DateTime, Time, Boolean and None in ten clause positions; every case is executed three ways on SQLite and lexed under seven dialect grammars.",
    "level_note": "Only SQLite executes. For PostgreSQL, MySQL, MSSQL and Oracle the string-literal / comment / placeholder grammars are transcriptions of the vendors' documentation (vf/mon/sqltok_ga.py); the SQLite lexer instance is calibrated by execution. Float literals are restricted to 15 significant digits.",
    "design_ref": "DESIGN.md section 4, C05",
    "rule": "case = (type, value, position); non-trivial = value contains a character that is special in some dialect's literal grammar (quote, backslash, %, :, ?, --, /*, newline, non-ASCII), or is negative / has an exponent, or is None; distinct by that triple",
    "shards": {"quick": 8, "thorough": 16},
    "soft_s": {"quick": 50, "thorough": 800},
    "exhaustive": {"quick": False, "thorough": False},
    "require": ["exec_three_way_compared", "rows_returned", "roundtrip_checked", "shape_checked", "literal_tokens_decoded",
                "lexer_calibrated_on_sqlite", "adversarial_strings", "callable_bind_deliveries", "token_checks_on_callable_form", "inlist_cases",
                "literal_at_execution_cache_hits", "aware_datetime_cases", "fake_sequence_statements", "fake_sequence_cache_hits"],
    "assumptions": ["transcribed literal grammars of PG/MySQL/MSSQL/Oracle are correct (part B)"],
}

ADVERSARIAL = [
    "", "a", "it's", "''", "'", "a'b''c", "\\", "a\\", "\\'", "\\\\", "a\\'b", "'; DROP TABLE v; --", "\\'; DROP TABLE v; --",
    "%", "%%", "100%", "%s", "%(x)s", "%d", ":name", ":1", "a:b", "?", "??", "$1", "$$", "$tag$x$tag$", "--", "-- x", "a--b", "/*", "*/", "/* x */",
    "#", "line1\nline2", "tab\there", "\r\n", '"', '""', "`", "[x]", "{x}", ";", "x;y", "é", "日本語", "☃", "\U0001F600", "N'x'", "E'\\n'",
    " ", "  lead", "trail  ", "\x1a", "\\%", "\\_", "_", "a_b%c", "NULL", "null", "TRUE", "0", "-1", "1e5", "0x10", "\\N", "\\0", "\\Z",
]
CHARS = list("ab'\\\"%:?-/*#;$`[]{}\n _é") + ["''", "\\'", "--", "/*", "%%", "%s", "%(", ")s"]

INTS = [0, 1, -1, 7, -7, 42, 2 ** 31 - 1, -(2 ** 31), 2 ** 31, 2 ** 63 - 1, -(2 ** 63), 10 ** 15]
FLOATS = [0.0, -0.0, 1.5, -2.25, 0.1, -0.1, 1e-7, 1.5e10, 123456.789, -1e-20, 1e20, 3.0, 2.5e-5, 1234567.125]
DECIMALS = ["0", "1.10", "-3.5", "12345.678901", "1E+5", "0.000001", "-0.5", "7", "1E-7", "99999999.99"]
IST = dt.timezone(dt.timedelta(hours=5, minutes=30))
WEST = dt.timezone(dt.timedelta(hours=-8), "PST")
# value alphabet of the date/time types: naive and timezone-AWARE values (UTC, +05:30, -08:00),
# microseconds 0 / non-0, years < 1000, a datetime given where a date is expected
DATES = [dt.date(2020, 1, 31), dt.date(1970, 1, 1), dt.date(9999, 12, 31), dt.date(1, 1, 1), dt.date(2024, 2, 29), dt.date(999, 12, 31),
         dt.datetime(2021, 3, 4, 5, 6, 7), dt.datetime(2021, 3, 5, 23, 59, 59, 5, tzinfo=IST)]
DATETIMES = [dt.datetime(2020, 1, 31, 23, 59, 59), dt.datetime(1999, 12, 31, 0, 0, 0, 123456), dt.datetime(2024, 2, 29, 12, 0, 1, 1),
             dt.datetime(999, 1, 2, 3, 4, 5), dt.datetime(33, 12, 31, 23, 59, 59, 999999),
             dt.datetime(2021, 3, 15, 12, 5, 58, tzinfo=dt.timezone.utc), dt.datetime(2021, 3, 15, 12, 5, 59, 250000, tzinfo=IST),
             dt.datetime(2000, 1, 1, 0, 0, 0, tzinfo=WEST), dt.datetime(750, 6, 7, 8, 9, 10, 11, tzinfo=dt.timezone.utc)]
TIMES = [dt.time(0, 0, 0), dt.time(23, 59, 59, 999999), dt.time(12, 30), dt.time(1, 2, 3, tzinfo=dt.timezone.utc), dt.time(4, 5, 6, 700, tzinfo=IST)]


def str_feature(v):
    if v is None:
        return "null"
    if "%(" in v:
        return "percent-paren"
    for pat, nm in (("\\", "backslash"), ("'", "quote"), ("%", "percent"), ("--", "dash-comment"), ("/*", "slash-comment"), ("*/", "slash-comment"),
                    (":", "colon"), ("?", "qmark"), ("$", "dollar"), ("#", "hash"), ("\n", "newline"), ("\r", "newline"), ('"', "dquote"), ("`", "backtick"), (";", "semicolon")):
        if pat in v:
            return nm
    if any(ord(c) > 127 for c in v):
        return "non-ascii"
    if any(ord(c) < 32 for c in v):
        return "control"
    return "plain"


def num_feature(v):
    if v is None:
        return "null"
    if isinstance(v, bool):
        return "bool"
    s = repr(v) if isinstance(v, float) else str(v)
    if v < 0 or s.startswith("-"):
        return "negative"
    if "e" in s.lower():
        return "exponent"
    return "non-negative"


def feature(tname, v, other=None, position=None):
    if position in ("in", "inlist", "inlist_nn", "case", "concat") and isinstance(other, str) and "%(" in other:
        return "percent-paren"  # the neighbouring literal takes part in the rendering too
    if v is None:
        return "null"
    if tname in ("String", "Unicode", "Text"):
        return str_feature(v)
    if tname in ("Integer", "BigInteger", "Float", "Numeric"):
        return num_feature(v)
    if getattr(v, "tzinfo", None) is not None:
        return "aware-" + type(v).__name__
    if tname == "Date" and isinstance(v, dt.datetime):
        return "datetime-as-date"
    return tname.lower()


class Rig:
    def __init__(self, ctx, sa):
        self.sa = sa
        self.md = sa.MetaData()
        self.types = {
            "String": sa.String(200), "Unicode": sa.Unicode(200), "Text": sa.Text(), "Integer": sa.Integer(), "BigInteger": sa.BigInteger(),
            "Float": sa.Float(), "Numeric": sa.Numeric(20, 6), "Date": sa.Date(), "DateTime": sa.DateTime(), "Time": sa.Time(),
            "Boolean": sa.Boolean(create_constraint=False),
        }

        def cols():
            return [sa.Column("id", sa.Integer, primary_key=True)] + [sa.Column("c_" + n.lower(), t) for n, t in self.types.items()]

        self.v = sa.Table("v", self.md, *cols())
        self.v2 = sa.Table("v2", self.md, *cols())
        self.eng = sa.create_engine("sqlite://")
        self.md.create_all(self.eng)
        self.conn = self.eng.connect()
        # a second Connection (Connection.execution_options() works in place); the in-memory
        # SQLite pool hands the same DBAPI connection to both
        self.conn_nocache = self.eng.connect().execution_options(compiled_cache=None)

    def col(self, tname, table=None):
        return (table if table is not None else self.v).c["c_" + tname.lower()]

    def close(self):
        self.conn_nocache.close()
        self.conn.close()
        self.eng.dispose()


def pools(ctx):
    rng = ctx.rng
    strs = list(ADVERSARIAL)
    for _ in range(ctx.pick({"quick": 40, "thorough": 1200})):
        strs.append("".join(rng.choice(CHARS) for _ in range(rng.randint(1, 8))))
    ints = list(INTS) + [rng.randint(-10 ** 12, 10 ** 12) for _ in range(ctx.pick({"quick": 4, "thorough": 60}))]
    floats = list(FLOATS)
    for _ in range(ctx.pick({"quick": 6, "thorough": 200})):
        mant = rng.randint(-10 ** 14, 10 ** 14)
        floats.append(float(f"{mant}e{rng.randint(-30, 5)}"))
    decs = [decimal.Decimal(d) for d in DECIMALS]
    return {
        "String": strs, "Unicode": strs[::3], "Text": strs[1::3], "Integer": ints[:8], "BigInteger": ints, "Float": floats, "Numeric": decs,
        "Date": DATES, "DateTime": DATETIMES, "Time": TIMES, "Boolean": [True, False],
    }


POSITIONS = {
    "String": ("select", "where", "in", "case", "values", "like", "concat", "isdistinct"),
    "Unicode": ("select", "where", "values"),
    "Text": ("select", "where", "in"),
    "Integer": ("select", "where", "in", "case", "values", "limit", "neg", "isdistinct"),
    "BigInteger": ("select", "where", "neg", "values"),
    "Float": ("select", "where", "in", "values", "neg", "case"),
    "Numeric": ("select", "where", "values", "neg"),
    "Date": ("select", "where", "in", "values"),
    "DateTime": ("select", "where", "values", "case"),
    "Time": ("select", "where", "values"),
    "Boolean": ("select", "where", "values", "case"),
}


for _k in ("String", "Unicode", "Text"):
    POSITIONS[_k] = POSITIONS[_k] + ("aggstrings",)
# positions whose construct renders its argument as a literal at EXECUTION time by itself
SELF_LITERAL = {"aggstrings"}
POSITIONS = {k: v + (("inlist", "inlist_nn") if k in ("String", "Unicode", "Text", "Integer", "Date") else ("inlist",)) for k, v in POSITIONS.items()}


def mk_value(sa, literal_execute=False):
    """bind factory: the value is given as ``value=``"""
    def mk(x, t, expanding=False):
        return sa.bindparam(None, x, type_=t, expanding=expanding, literal_execute=literal_execute)
    return mk


def mk_callable(sa, literal_execute=False):
    """bind factory: the value comes from a deferred ``callable_=`` (the form the ORM lazy
    loader produces); ``bindparam.value`` itself stays None"""
    def mk(x, t, expanding=False):
        return sa.bindparam(None, type_=t, callable_=lambda: x, expanding=expanding, literal_execute=literal_execute)
    return mk


def build(rig, tname, value, other, position, mk):
    """mk(value, type) -> bind element; returns a statement (or an (insert, readback) pair)"""
    sa = rig.sa
    T = rig.types[tname]
    v, col = rig.v, rig.col(tname)
    b = lambda x: mk(x, T)  # noqa: E731
    if position == "select":
        return sa.select(b(value).label("x"))
    if position == "where":
        return sa.select(v.c.id).where(col == b(value)).order_by(v.c.id)
    if position == "in":
        return sa.select(v.c.id).where(col.in_([b(value), b(other)])).order_by(v.c.id)
    if position == "inlist":
        # one expanding parameter holding a list with a None member
        return sa.select(v.c.id).where(col.in_(mk([value, other, None], T, expanding=True))).order_by(v.c.id)
    if position == "inlist_nn":
        # the same without the None member
        return sa.select(v.c.id).where(col.in_(mk([value, other], T, expanding=True))).order_by(v.c.id)
    if position == "case":
        return sa.select(v.c.id, sa.case((col == b(value), b(value)), else_=b(other)).label("x")).order_by(v.c.id).limit(50)
    if position == "limit":
        return sa.select(v.c.id).order_by(v.c.id).limit(mk(abs(value) % 7, sa.Integer())).offset(mk(abs(value) % 3, sa.Integer()))
    if position == "neg":
        return sa.select((-b(value)).label("x"))
    if position == "like":
        return sa.select(v.c.id).where(col.like(b(value))).order_by(v.c.id)
    if position == "concat":
        return sa.select((b(value) + b(other)).label("x"), (col + b(value)).label("y")).where(v.c.id <= 5).order_by(v.c.id)
    if position == "isdistinct":
        return sa.select(v.c.id).where(col.is_distinct_from(b(value))).order_by(v.c.id).limit(60)
    if position == "aggstrings":
        # the delimiter of aggregate_strings() is rendered literally at execution time
        return sa.select(sa.func.aggregate_strings(col, b(value)).label("x")).where(v.c.id <= 6)
    if position == "aggstrings:reference":
        # the same with an ordinary bound delimiter (SQLite spelling)
        return sa.select(sa.func.group_concat(col, b(value)).label("x")).where(v.c.id <= 6)
    if position == "values":
        return sa.insert(rig.v2).values({rig.col(tname, rig.v2): b(value), rig.v2.c.id: sa.literal_column("1")})
    raise ValueError(position)


def mech(kind, position, feat, callable_form=False):
    """one defect -> one mechanism: the two value classes that break in every position /
    in every way get one name each; everything else is kind[:position]:feature, plus a
    marker when only the callable_= form of the parameter is affected."""
    base = kind.replace("callable-bind-", "")
    if feat == "percent-paren":
        return "pyformat-text-in-literal-rewritten-by-positional-compile"
    if position == "neg" and feat == "negative" and base in ("literal-shape-opens-comment", "sqlite-error", "literal-unlexable"):
        return "neg-of-negative-literal-opens-comment"
    cb = ":callable-bind" if callable_form else ""
    if position in ("neg", "limit", "isdistinct", "like", "inlist", "inlist_nn") or kind.startswith("sqlite-roundtrip"):
        return f"{kind}{cb}:{position}:{feat}"
    return f"{kind}{cb}:{feat}"


def norm(v, numeric=False):
    if numeric and isinstance(v, int) and not isinstance(v, bool):
        v = float(v)  # Numeric/Float literals without a fraction come back as INTEGER from SQLite
    if isinstance(v, float):
        return ("f", repr(v + 0.0))  # -0.0 and 0.0 are the same number (SQLite's unary minus is 0 - x)
    return (type(v).__name__, v)


def same(a, b):
    """structural equality; floats equal within 1e-13 relative (SQLite's own
    text->double conversion of a literal is not always correctly rounded: observed
    9653.6463614667 -> 9653.646361466701; float formatting is not the subject)"""
    import math

    if isinstance(a, (list, tuple)) and isinstance(b, (list, tuple)):
        if len(a) == 2 and len(b) == 2 and a[0] == "f" and b[0] == "f" and isinstance(a[1], str):
            return math.isclose(float(a[1]), float(b[1]), rel_tol=1e-13, abs_tol=0.0)
        return len(a) == len(b) and all(same(x, y) for x, y in zip(a, b))
    return a == b


def raw_rows(res, numeric=False):
    rows = res.cursor.fetchall() if res.returns_rows else []
    res.close()
    return [tuple(norm(x, numeric) for x in r) for r in rows]


def run(ctx):
    import warnings

    warnings.simplefilter("ignore")
    import sqlalchemy as sa

    from vf.mon import sqltok_ga as T

    rig = Rig(ctx, sa)
    try:
        P = pools(ctx)
        # precondition of the Float cases: SQLite's own text->double conversion of the literal
        # text is exact for this value (it is not always: 9653.6463614667 -> 9653.646361466701);
        # otherwise "WHERE col = <literal>" cannot match the bound double, whatever is rendered
        exact = []
        for f in P["Float"]:
            back = rig.conn.exec_driver_sql("SELECT " + repr(f)).scalar()
            if float(back) == f:
                exact.append(f)
            else:
                ctx.count("floats_dropped_backend_parse_inexact")
        P["Float"] = exact
        # fill the table with bound parameters: one row per (type, value) plus NULL rows
        rows = []
        rid = 0
        for tname, vals in P.items():
            for val in vals[: ctx.pick({"quick": 80, "thorough": 400})]:
                rid += 1
                rows.append({"id": rid, "c_" + tname.lower(): val})
        rid += 1
        rows.append({"id": rid})
        allcols = [c.name for c in rig.v.c]
        rig.conn.execute(rig.v.insert(), [{c: r.get(c) for c in allcols} for r in rows])
        rig.conn.commit()
        ctx.count("adversarial_strings", len(P["String"]))
        dialects = make_dialects(sa)
        idx = 0
        for tname in P:
            vals = P[tname] + [None]
            for vi, value in enumerate(vals):
                other = vals[(vi + 1) % len(vals)]
                if other is None:
                    other = vals[0]
                for position in POSITIONS[tname]:
                    idx += 1
                    if not ctx.mine(idx):
                        continue
                    if not ctx.budget_ok():
                        return
                    if value is None and position in ("limit", "neg", "like", "concat", "inlist_nn"):
                        continue
                    feat = feature(tname, value, other, position)
                    desc = {"type": tname, "value": value, "position": position}
                    ctx.case(desc, nontrivial=feat not in ("plain", "non-negative", "bool"))
                    if position.startswith("inlist"):
                        ctx.count("inlist_cases")
                    if feat.startswith("aware-"):
                        ctx.count("aware_datetime_cases")
                    exec_part(ctx, sa, T, rig, tname, value, other, position, feat, desc)
                    token_part(ctx, sa, T, rig, dialects, tname, value, other, position, feat, desc)
                    if idx % 211 == 0:
                        ctx.sample(desc)
        fake_sequences(ctx, sa, T)
    finally:
        rig.close()


# ---------------------------------------------------------------------------
# sequences of same-shaped statements on ONE engine of a dialect without a server
# ---------------------------------------------------------------------------
SEQ_URLS = {
    "postgresql": "postgresql+psycopg2://u:p@h/db", "mysql": "mysql+pymysql://u:p@h/db",
    "mssql": "mssql+pyodbc://u:p@dsn", "oracle": "oracle+oracledb://u:p@h/?service_name=x",
}


def fake_sequences(ctx, sa, T):
    """every construct that renders a literal at execution time (LIMIT/OFFSET on the
    dialects that inline them, the aggregate_strings() delimiter, an explicit
    bindparam(literal_execute=True), an expanding IN with literal_execute) is executed as a
    SEQUENCE of same-shaped statements with different values on one recording engine with
    the compiled cache on.  The text handed to the DBAPI by each (mostly cache-hit)
    execution must be token-for-token the text a fresh, uncached compile of that very
    statement renders."""
    from vf.mon.fake_dbapi import recording_engine

    md = sa.MetaData()
    t = sa.Table("sq", md, sa.Column("id", sa.Integer, primary_key=True), sa.Column("s", sa.String(50)), sa.Column("n", sa.Integer))
    strs = ["a", ",", "it's", "; ", "%", "x:y", "--", "\\", "b", "", "|"]
    ints = [0, 1, 5, 2, 10, 3, 7]
    constructs = {
        "limit": lambda i: sa.select(t.c.id).order_by(t.c.id).limit(ints[i % len(ints)]),
        "limit-offset": lambda i: sa.select(t.c.id).order_by(t.c.id).limit(ints[(i + 2) % len(ints)]).offset(ints[i % len(ints)]),
        "aggregate_strings": lambda i: sa.select(sa.func.aggregate_strings(t.c.s, strs[i % len(strs)])),
        "bindparam-literal_execute": lambda i: sa.select(t.c.id).where(t.c.s == sa.bindparam(None, strs[i % len(strs)], type_=sa.String(), literal_execute=True)),
        "int-literal_execute": lambda i: sa.select(t.c.id).where(t.c.n > sa.bindparam(None, ints[i % len(ints)], type_=sa.Integer(), literal_execute=True)),
        "in-literal_execute": lambda i: sa.select(t.c.id).where(
            t.c.s.in_(sa.bindparam(None, strs[i % len(strs): i % len(strs) + 1 + i % 3], type_=sa.String(), expanding=True, literal_execute=True))),
    }
    for di, (name, url) in enumerate(sorted(SEQ_URLS.items())):
        if not ctx.mine(di):
            continue
        eng, fake = recording_engine(url)
        ps = eng.dialect.paramstyle
        with eng.connect() as conn:
            for cname, make in sorted(constructs.items()):
                for i in range(ctx.pick({"quick": 9, "thorough": 40})):
                    st = make(i)
                    try:
                        fresh = str(st.compile(dialect=eng.dialect, compile_kwargs={"render_postcompile": True}))
                    except sa.exc.CompileError:
                        ctx.count("fake_sequence_unsupported")
                        break
                    mark = fake.mark()
                    res = conn.execute(st)
                    if res.context.cache_hit is sa.engine.interfaces.CacheStats.CACHE_HIT:
                        ctx.count("fake_sequence_cache_hits")
                    sent = fake.since(mark, ("execute",))[-1].sql
                    ctx.count("fake_sequence_statements")
                    ctx.case({"dialect": name, "construct": cname, "i": i}, nontrivial=i > 0)
                    a = [(x.kind, x.value if x.kind == "string" else x.text) for x in T.lex(sent, name, ps)]
                    b = [(x.kind, x.value if x.kind == "string" else x.text) for x in T.lex(fresh, name, ps)]
                    if a != b:
                        ctx.violation(f"cached-statement-literal-differs-from-fresh-compile:{cname}",
                                      f"{name}: execution #{i} sent {sent!r} but a fresh compile of the same statement renders {fresh!r}",
                                      {"dialect": name, "construct": cname, "sent": sent, "fresh": fresh, "step": i})
        eng.dispose()


# ---------------------------------------------------------------------------
# part A
# ---------------------------------------------------------------------------
def exec_part(ctx, sa, T, rig, tname, value, other, position, feat, desc):
    conn = rig.conn
    st_b = build(rig, tname, value, other, position, mk_value(sa))
    st_le = build(rig, tname, value, other, position, mk_value(sa, literal_execute=True))
    st_cb = build(rig, tname, value, other, position, mk_callable(sa))
    st_cle = build(rig, tname, value, other, position, mk_callable(sa, literal_execute=True))

    numeric = tname in ("Numeric", "Float")

    def readback():
        r = raw_rows(conn.execute(sa.select(rig.col(tname, rig.v2)).where(rig.v2.c.id == 1)), numeric)
        conn.execute(rig.v2.delete())
        return r

    deliveries = [
        ("bound", st_b, "exec"), ("literal_binds", st_b, "text"), ("literal_execute", st_le, "exec"),
        ("callable:bound", st_cb, "exec"), ("callable:literal_binds", st_cb, "text"), ("callable:literal_execute", st_cle, "exec"),
    ]
    extra = []
    if position in SELF_LITERAL:
        # reference = the plain bound spelling; the construct with an ordinary parameter is a
        # delivery of its own (it is the one that goes through the compiled cache)
        deliveries[0] = ("bound", build(rig, tname, value, other, position + ":reference", mk_value(sa)), "exec")
        deliveries.insert(1, ("construct", st_b, "exec"))
        extra = ["construct"]
    results = {}
    sqls = {}
    for how, st, style in deliveries:
        try:
            if style == "exec":
                # the callable_= statements run with the compiled cache off: a cache entry made
                # by the value= form of the same statement would bind None for them
                # (construct_params tests the *cached* bindparam's .callable) - that is a
                # cache-transparency matter (C02), not literal rendering
                res = (rig.conn_nocache if how.startswith("callable:") else conn).execute(st)
                sqls[how] = res.context.statement
                if how in ("literal_execute", "construct") and res.context.cache_hit is sa.engine.interfaces.CacheStats.CACHE_HIT:
                    ctx.count("literal_at_execution_cache_hits")
            else:
                comp = st.compile(rig.eng, compile_kwargs={"literal_binds": True})
                sqls[how] = str(comp)
                if comp.params:
                    ctx.violation(f"literal-not-inlined:{position}",
                                  f"literal_binds left {len(comp.params)} bound parameter(s) in the SQLite statement: {str(comp)[:200]}",
                                  dict(desc, sql=str(comp), dialect="sqlite"))
                    return
                res = conn.exec_driver_sql(str(comp))
            results[how] = ("ok", readback() if position == "values" else raw_rows(res, numeric))
        except sa.exc.CompileError as e:
            if "literal" in str(e).lower() and "render" in str(e).lower() and how == "literal_binds" and tname not in PLAIN_TYPES:
                ctx.count("no_literal_processor")
                return
            results[how] = ("err", "CompileError:" + str(e)[:80])
        except sa.exc.DBAPIError as e:
            results[how] = ("err", type(e.orig).__name__ + ":" + str(e.orig)[:100])
            if position == "values":
                conn.execute(rig.v2.delete())
        except sa.exc.StatementError as e:  # e.g. a CompileError raised while expanding at execution time
            results[how] = ("err", type(e.orig).__name__ + ":" + str(e.orig)[:100])
    ctx.count("exec_three_way_compared")
    base = results["bound"]
    if base[0] == "ok":
        ctx.count("rows_returned", len(base[1]))
    ctx.count("callable_bind_deliveries", 3)
    for how in extra + ["literal_binds", "literal_execute", "callable:bound", "callable:literal_binds", "callable:literal_execute"]:
        got = results[how]
        if not same(got, base):
            kind = "error" if "err" in (got[0], base[0]) else "rows-differ"
            if how.startswith("callable:") and same(results[how.split(":", 1)[1]], base):
                kind = "callable-bind-" + kind  # only the callable_= form of the parameter breaks
            ctx.violation(
                mech(f"sqlite-{kind}", position, feat),
                f"{tname} {value!r} at {position}: bound -> {str(base)[:120]} but {how} -> {str(got)[:120]} :: {sqls.get(how, '')[:200]}",
                dict(desc, how=how, bound=base, literal=got, sql_bound=sqls.get("bound"), sql_literal=sqls.get(how)),
            )
            return
    # round trip through the typed result (select-list position)
    if position == "select" and value is not None and base[0] == "ok":
        typed = conn.execute(st_le).scalar()
        typed_bound = conn.execute(st_b).scalar()
        ctx.count("roundtrip_checked")
        if tname in ("Date", "DateTime", "Time"):
            # the bound form is the reference (an aware value comes back naive both ways)
            ok = typed == typed_bound and type(typed) is type(typed_bound)
        elif tname in ("Numeric", "Float"):
            # the typed result applies the column scale: the bound form is the reference
            ok = same(norm(float(typed)), norm(float(typed_bound)))
        else:
            ok = typed == value and type(typed) is type(value)
        if not ok:
            ctx.violation(mech("sqlite-roundtrip", tname, feat), f"SELECT <literal> of {value!r} returned {typed!r} (bound: {typed_bound!r})", dict(desc, got=typed))
        # calibration of the SQLite lexer: the token it decodes is the value SQLite returns
        if isinstance(value, str):
            lit_sql = str(st_b.compile(rig.eng, compile_kwargs={"literal_binds": True}))
            toks = [t for t in T.lex(lit_sql, "sqlite", "qmark") if t.kind == "string"]
            if feat != "percent-paren" and (len(toks) != 1 or toks[0].value != typed):
                raise RuntimeError(f"sqlite lexer calibration failed for {value!r}: {toks!r} vs {typed!r}")
            ctx.count("lexer_calibrated_on_sqlite")


# ---------------------------------------------------------------------------
# part B
# ---------------------------------------------------------------------------
def make_dialects(sa):
    from sqlalchemy.dialects import mssql, mysql, oracle, postgresql, sqlite

    out = []
    d = sqlite.dialect()
    out.append(("sqlite", "sqlite", d, None))
    d = postgresql.psycopg2.dialect()
    out.append(("postgresql", "postgresql", d, None))
    d = postgresql.psycopg2.dialect()
    d._backslash_escapes = True  # standard_conforming_strings = off
    out.append(("postgresql-nonconforming", "postgresql", d, True))
    d = mysql.pymysql.dialect()
    out.append(("mysql", "mysql", d, None))
    d = mysql.pymysql.dialect()
    d._backslash_escapes = False  # sql_mode NO_BACKSLASH_ESCAPES
    out.append(("mysql-no-backslash-escapes", "mysql", d, False))
    d = mssql.pyodbc.dialect()
    out.append(("mssql", "mssql", d, None))
    d = oracle.oracledb.dialect()
    out.append(("oracle", "oracle", d, None))
    return out


VALUEISH = {"number", "string", "param", "ident", "qident"}


PLAIN_TYPES = ("String", "Unicode", "Text", "Integer", "BigInteger", "Float", "Numeric", "Date", "DateTime", "Time", "Boolean")
DATE_CALLS = {"to_date", "to_timestamp"}


def norm_tokens(toks):
    """-> list of (symbol, token): literals / placeholders / NULL / TRUE / FALSE become '?';
    a chain of unary signs in operand position in front of a number or placeholder is
    dropped (``-?`` and ``-5`` are both one operand); Oracle's TO_DATE('..', 'fmt') /
    TO_TIMESTAMP(..) wrappers around literals count as the literal."""
    out = []
    i = 0
    n = len(toks)

    def operand_position(k):
        prev = toks[k - 1] if k else None
        return prev is None or prev.kind == "op" or (prev.kind == "punct" and prev.text in "(,") or (
            prev.kind == "kw" and prev.text not in ("NULL", "TRUE", "FALSE", "END"))

    while i < n:
        t = toks[i]
        if t.kind == "op" and t.text in "+-" and operand_position(i):
            j = i
            while j < n and toks[j].kind == "op" and toks[j].text in "+-":
                j += 1
            if j < n and toks[j].kind in ("number", "param"):
                signs = "".join(x.text for x in toks[i:j])
                nt = toks[j]
                out.append(("?", (nt.kind, ("-" if signs.count("-") % 2 else "") + nt.text)))
                i = j + 1
                continue
        if t.kind == "ident" and t.text.lower() in DATE_CALLS and i + 1 < n and toks[i + 1].text == "(":
            j = i + 2
            ok = True
            while j < n and toks[j].text != ")":
                if not (toks[j].kind == "string" or toks[j].text == ","):
                    ok = False
                j += 1
            if ok and j < n:
                out.append(("?", ("call", t.text)))
                i = j + 1
                continue
        if t.kind in ("string", "number", "param"):
            out.append(("?", (t.kind, t.value if t.kind == "string" else t.text)))
        elif t.kind == "kw" and t.text in ("NULL", "TRUE", "FALSE"):
            out.append(("?", ("kw", t.text)))
        elif t.kind == "ident":
            out.append((t.text.lower(), None))
        else:
            out.append((t.text, None))
        i += 1
    return out


def token_part(ctx, sa, T, rig, dialects, tname, value, other, position, feat, desc):
    st = build(rig, tname, value, other, position, mk_value(sa))
    st_c = build(rig, tname, value, other, position, mk_callable(sa))
    salt = sum(map(ord, position)) + (0 if value is None else len(repr(value)))
    for di, (label, lexname, dialect, backslash) in enumerate(dialects):
        ps = dialect.paramstyle
        # the literal text comes from the value= form or from the callable_= form of the
        # same statement, alternating so that every dialect sees both
        use_callable = (salt + di) % 2 == 1
        try:
            bound_sql = str(st.compile(dialect=dialect, compile_kwargs={"render_postcompile": True}))
        except sa.exc.CompileError:
            ctx.count("no_literal_processor_or_unsupported")
            continue
        try:
            comp = (st_c if use_callable else st).compile(dialect=dialect, compile_kwargs={"literal_binds": True})
            lit_sql = str(comp)
        except sa.exc.CompileError as e:
            if tname in PLAIN_TYPES:
                ctx.violation(mech("literal-compile-error", position, feat, use_callable),
                              f"{label}: literal_binds compile of {tname} {value!r} at {position} raised: {str(e)[:200]}",
                              dict(desc, dialect=label, error=str(e)[:400]))
            else:
                ctx.count("no_literal_processor_or_unsupported")
            continue
        if use_callable:
            ctx.count("token_checks_on_callable_form")
        left = [k for k in comp.params if not k.startswith("ret_")]  # oracle RETURNING .. INTO out-binds are not literals
        if left and position != "limit":
            ctx.violation(f"literal-not-inlined:{position}",
                          f"literal_binds left {len(left)} bound parameter(s) on {label}: {lit_sql[:200]}",
                          dict(desc, sql=lit_sql, dialect=label))
            continue
        ctx.count("shape_checked")
        try:
            ltoks = T.lex(lit_sql, lexname, ps, backslash_escapes=backslash)
        except T.LexError as e:
            ctx.violation(mech("literal-unlexable", position, feat, use_callable), f"{label}: {e} :: {lit_sql[:300]}", dict(desc, dialect=label, sql=lit_sql))
            continue
        btoks = T.lex(bound_sql, lexname, ps, backslash_escapes=backslash)
        ln, bn = norm_tokens(ltoks), norm_tokens(btoks)
        if [s for s, _ in ln] != [s for s, _ in bn]:
            what = "opens-comment" if any(t.kind == "comment" for t in ltoks) else "token-sequence"
            ctx.violation(
                mech(f"literal-shape-{what}", position, feat, use_callable),
                f"{label}: literal rendering of {tname} {value!r} changes the statement shape: {lit_sql[:200]!r} vs {bound_sql[:200]!r}",
                dict(desc, dialect=label, literal_sql=lit_sql, bound_sql=bound_sql,
                     literal_shape=[s for s, _ in ln], bound_shape=[s for s, _ in bn]),
            )
            continue
        # the tokens standing where placeholders stood must decode to the input
        if value is None or position in ("limit", "like") and False:
            continue
        lits = [lt for (s, lt), (s2, bt) in zip(ln, bn) if s == "?" and bt is not None and bt[0] == "param"]
        expect_n = {"select": 1, "where": 1, "in": 2, "inlist": 3, "inlist_nn": 2, "case": 3, "values": 1, "neg": 1, "like": 1, "concat": 3, "isdistinct": 1}.get(position)
        if position in ("limit", "neg", "aggstrings"):
            continue
        if expect_n is not None and len(lits) < expect_n:
            ctx.violation(mech("literal-token-missing", position, feat, use_callable), f"{label}: {len(lits)} literal tokens for {expect_n} binds :: {lit_sql[:200]}",
                          dict(desc, dialect=label, sql=lit_sql))
            continue
        first = lits[0]
        ctx.count("literal_tokens_decoded")
        ok = True
        if isinstance(value, str):
            ok = first[0] == "string" and first[1] == value
        elif isinstance(value, bool):
            ok = True
        elif isinstance(value, int):
            ok = first[0] == "number" and _int(first[1]) == value
        elif isinstance(value, float):
            ok = first[0] == "number" and _float(first[1]) is not None and repr(_float(first[1])) == repr(value)
        elif isinstance(value, decimal.Decimal):
            ok = first[0] == "number" and _dec(first[1]) == value
        if not ok:
            ctx.violation(
                mech("literal-decodes-differently", tname if not position.startswith("inlist") else position, feat, use_callable),
                f"{label}: literal for {value!r} lexes as {first!r} :: {lit_sql[:200]}",
                dict(desc, dialect=label, sql=lit_sql, token=first),
            )


def _int(s):
    try:
        return int(s)
    except ValueError:
        return None


def _float(s):
    try:
        return float(s)
    except ValueError:
        return None


def _dec(s):
    try:
        return decimal.Decimal(s)
    except decimal.InvalidOperation:
        return None
