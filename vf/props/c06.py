"""C06 -- identifier quoting round-trips every representable name.

Runtime monitoring, three parts.

K  keyword sweep (exhaustive).  Candidate words = the keyword table of the *live*
   libsqlite3 (``sqlite3_keyword_name`` via ctypes) + every ``reserved_words`` set of the
   dialects in the live tree.  Each word is probed against the live SQLite parser in the
   35 syntactic positions in which SQLAlchemy renders ``preparer.quote(name)``
   (``vf.gen.names_ge.PROBES``); a word the parser rejects bare must be quoted by the
   SQLite preparer, and - the deciding oracle - a full create / insert / select / update /
   reflect / drop round trip that uses the word as table, column, index, constraint,
   schema, label and alias name must execute and return the same names and values.
R  random names (alphabet weighted to quote / escape / placeholder characters, unicode,
   control characters, marker-like templates) through the same executed round trip on
   SQLite, reading the stored names back both through an independent raw
   ``sqlite_master`` / ``cursor.description`` observer and through the Inspector and
   ``Table(autoload_with=)``.
D  every dialect (sqlite, postgresql, mysql, mariadb, mssql, oracle; qmark / format /
   pyformat / numeric / named drivers): ``unformat_identifiers(format_table/format_column)``
   recovers the components, and an independent quoted-identifier lexer for that backend's
   documented grammar (``vf.mon.sqltok_ge``) decodes the formatted text to the original
   components.  ``%`` under format/pyformat drivers is additionally judged on the
   ``(sql, params)`` stream of a recording fake DBAPI: ``sql % params`` must succeed and
   contain the correctly quoted name.

N  name-normalizing dialects (oracle drivers, and DefaultDialect with
   ``requires_name_normalize``): for stored names S over every reserved word of that dialect
   in four case patterns, every illegal initial character, and the random alphabet with
   case-shifted copies: ``quote(normalize_name(S))`` must *address* S under the backend's
   folding rule (quoted = verbatim, bare = upper-cased), ``denormalize_name`` must invert
   ``normalize_name``, and for names as a user defines them (str, quoted_name quote
   True/None, quote False for lower-case words) ``denormalize_name(u)`` must be the object
   ``quote(u)`` addresses.  Name *equality* after reflection is not demanded here: an
   all-upper-case stored name reflects lower-cased by documented convention.

Guards (what keeps the oracle from demanding more than the property):
  * names SQLite cannot represent or reserves are not generated: empty string, NUL,
    ``sqlite_`` prefix, schema names ``main`` / ``temp``; names are pairwise distinct
    under case folding (SQLite compares identifiers case-insensitively).
  * Oracle cannot represent ``"`` inside an identifier: not generated for oracle.
  * MSSQL documents that a schema string is split on ``.`` / brackets into
    database.owner; a schema containing ``. [ ]`` is therefore passed as
    ``quoted_name(schema, quote=True)`` - the documented way to name a single schema.
  * format/pyformat preparers double ``%``; the formatted text is what goes to the
    *driver*, so ``%%`` is collapsed (what ``query % args`` does) before lexing/unformat.
  * constraint names on SQLite come back through regular expressions over the stored
    CREATE TABLE text.  Mismatches are reported (the property includes constraint names)
    but under a separate mechanism when a name in that table contains one of the
    characters the expressions cannot cross (``"`` ``)`` newline), so that this known
    weakness cannot mask a regression for ordinary names.
  * mechanisms are computed from the names of the failing case: ``%(`` / ``[POSTCOMPILE_`` in a
    name, a name ending in newline that the preparer leaves bare, column names (or bind
    names derived from them: the compiler's own uniqueness assertion) that collide after
    ``bindname_escape_characters``, non-blank whitespace in the column of an IN - each is a
    separate, already reported cause and gets its own stable mechanism, so a generic
    ``sqlite-exec-error:<stage>`` / ``-mismatch`` mechanism is left for anything new.
  * PG / MySQL / MSSQL / Oracle keyword sets cannot be probed (no servers): only their
    quoting *grammar* is judged.
"""
from __future__ import annotations

import sqlite3

META = {
    "id": "C06",
    "level": "exploration",
    "technique": "executed create/insert/select/reflect/drop round trips on SQLite with a live-parser keyword probe and raw-catalog observer; per-dialect format/unformat + independent quoted-identifier lexer",
    "level_text": "Exhaustive over every keyword of the linked SQLite (C API keyword table) and every reserved word of all bundled dialects, each probed in 35 syntactic positions and (SQLite keywords and every word the parser rejects or the preparer quotes) executed in 3 role sets covering table, column, index, constraint, schema, label and alias names; seeded random names (quote/escape/placeholder heavy) executed on SQLite and formatted on 9 dialect+driver pairs.",
    "level_note": "Only SQLite executes. PostgreSQL/MySQL/MariaDB/MSSQL/Oracle are judged on formatted text against a transcription of each vendor's quoted-identifier grammar, and on the recorded DBAPI stream for '%' escaping; their reserved-word lists cannot be compared with a server grammar here. Oracle '\"' and NUL/empty names are excluded as unrepresentable.",
    "design_ref": "DESIGN.md section 4, C06",
    "rule": "case = one set of names in all roles (schema, 2 tables, 3 columns, index, unique/fk/check constraint, label, alias) or one keyword in one role set or one (dialect, schema, table, column) formatting; non-trivial = at least one name needs quoting (SQLite parts) / contains a quote, dot or percent character (dialect part); distinct by the names",
    "shards": {"quick": 8, "thorough": 16},
    "modes": ["cext"],
    "soft_s": {"quick": 90, "thorough": 800},
    "exhaustive": {"quick": False, "thorough": False},
    "require": [
        "keywords_from_sqlite_c_api", "keywords_probed", "keywords_rejected_bare_by_parser",
        "keyword_roundtrips", "random_roundtrips", "names_reflected_equal", "raw_catalog_names_checked",
        "stmts_executed", "dialect_format_roundtrips", "lexer_decodes", "lexer_calibrations_on_sqlite",
        "percent_stream_checks", "normalize_roundtrips", "normalize_changed_name", "denormalize_vs_rendered_checks",
    ],
    "assumptions": [
        "sqlite3_keyword_name of the linked libsqlite3 (same version string as the sqlite3 module) lists the parser's keywords",
        "vendor quoted-identifier grammars transcribed in vf/mon/sqltok_ge.py are right",
        "format/pyformat drivers apply Python %-formatting semantics when parameters are present",
    ],
}

import re

WORD = re.compile(r"[a-z_][a-z0-9_]*")   # only such a name can be a keyword (and may appear in a mechanism)
REGEX_HOSTILE = ('"', ")", "\n", "$")
ROLES = ("schema", "t1", "t2", "c1", "c2", "c3", "ix", "uq", "fk", "ck", "lbl", "alias")


def hq(name):
    """The harness' own SQLite quoting (documented grammar: "..." with doubled ")."""
    return '"' + name.replace('"', '""') + '"'


class Ctxt:
    """Per-shard state shared by the parts."""

    def __init__(self, ctx, sa):
        self.ctx = ctx
        self.sa = sa
        self.need = {}  # word -> positions rejected by the live parser
        from sqlalchemy.dialects import sqlite

        self.sqlite_prep = sqlite.dialect().identifier_preparer
        from sqlalchemy.sql import compiler

        # the *live* table by which bind names are derived from column names
        self.bind_escape = str.maketrans(dict(compiler.SQLCompiler.bindname_escape_characters))


# --------------------------------------------------------------------------
# the executed SQLite round trip
# --------------------------------------------------------------------------
def taints_of(st, names):
    """Name-level causes that are already separate mechanisms: a case holding such a name
    reports whatever goes wrong under that mechanism (computed from the names, the
    witness) instead of a generic one."""
    out = []
    prep = st.sqlite_prep
    esc = st.bind_escape
    allnames = [v for v in names.values() if v]
    if any("%(" in x for x in allnames):
        out.append("positional-rewrite-reads-percent-paren-in-identifier-as-bind")
    if any("[POSTCOMPILE_" in x for x in allnames):
        out.append("postcompile-marker-in-identifier-read-as-bind")
    if any(x.endswith("\n") and prep.quote(x) == x for x in allnames):
        out.append("legal-characters-regex-accepts-trailing-newline")
    cols = [names["c1"], names["c2"], names["c3"]]
    if len({x.translate(esc) for x in cols}) != len(cols):
        out.append("bind-name-escape-collision")
    return out


def roundtrip(st, names, kind):
    """names: dict over ROLES (schema may be None).  Returns number of problems."""
    import warnings

    ctx, sa = st.ctx, st.sa
    from sqlalchemy import exc as sa_exc
    from sqlalchemy import inspect

    n = names
    sch = n["schema"]
    problems = []
    executed = [0]
    taints = taints_of(st, n)
    CAUGHT = (sa_exc.SQLAlchemyError, sqlite3.Error, KeyError, IndexError, AssertionError, TypeError, ValueError)

    def problem(stage, mech, summary):
        if taints:
            mech = taints[0]
        problems.append((stage, mech, summary))

    def classify_exec(stage, e):
        txt = f"{type(e).__name__}: {str(e)[:300]}"
        if stage == "select-in" and any(ch.isspace() and ch != " " for ch in n["c1"]):
            return "expanding-bind-name-with-non-space-whitespace", txt
        if isinstance(e, AssertionError) or isinstance(getattr(e, "orig", None), AssertionError):
            # the compiler's own "escaped bind names are unique" assertion: names derived from
            # two columns collide after bindname_escape_characters (same defect as the
            # column-level collision detected in taints_of)
            err = e if isinstance(e, AssertionError) else e.orig
            tb = err.__traceback__
            last = None
            while tb is not None:
                last = tb.tb_frame.f_code.co_name
                tb = tb.tb_next
            if last == "_process_positional":
                return "bind-name-escape-collision", txt
        for x in n.values():
            if not x:
                continue
            lx = x.lower()
            if lx == x and WORD.fullmatch(lx) and st.sqlite_prep.quote(x) == x and probe(st, lx):
                return f"sqlite-reserved-word-missing:{lx}", txt
        return f"sqlite-exec-error:{stage}", txt

    def step(stage, fn, fatal=False):
        """Run one stage; a library exception is a problem of that stage.  Returns False
        when the case cannot go on."""
        try:
            fn()
            return True
        except CAUGHT as e:
            mech, txt = classify_exec(stage, e)
            problem(stage, mech, txt)
            return not fatal

    def values(stage, got, want):
        if got != want:
            problem(stage, "sqlite-select-by-name-wrong-value", f"{stage}: got {got!r} expected {want!r}")

    def diff(kindname, got, want, table_names):
        if got == want:
            ctx.count("names_reflected_equal")
            return
        if kindname in ("fk", "uq", "ck") and any(h in x for x in table_names for h in REGEX_HOSTILE):
            mech = f"sqlite-reflect-{kindname}-ddl-regex-hostile-char"
        else:
            mech = f"sqlite-reflect-{kindname}-mismatch"
        problem("reflect", mech, f"{kindname}: reflected {got!r} expected {want!r}")

    class _Raw:
        """The independent observer.  Its statements quote the *defined* names with the
        harness' own quoting; if SQLite cannot find an object under its defined name after
        the library's DDL/DML succeeded, the stored name differs - a finding, not a crash."""

        def __init__(self):
            self.con = None

        def execute(self, sql, *a):
            try:
                return self.con.execute(sql, *a)
            except sqlite3.Error as e:
                problem("raw-observe", "sqlite-stored-name-differs", f"observer statement {sql!r} failed: {e}")
                raise _ObserverFailed() from e

    class _ObserverFailed(Exception):
        pass

    rawobs = _Raw()

    md = sa.MetaData()
    T1 = sa.Table(
        n["t1"], md,
        sa.Column(n["c1"], sa.Integer, primary_key=True),
        sa.Column(n["c2"], sa.String(20)),
        sa.Column(n["c3"], sa.Integer),
        sa.UniqueConstraint(n["c2"], n["c3"], name=n["uq"]),
        sa.CheckConstraint(sa.column(n["c3"]) > -5, name=n["ck"]),
        schema=sch,
    )
    T2 = sa.Table(
        n["t2"], md,
        sa.Column(n["c1"], sa.Integer, primary_key=True),
        sa.Column(n["c2"], sa.Integer, sa.ForeignKey(T1.c[n["c1"]], name=n["fk"])),
        sa.Column(n["c3"], sa.Integer),
        schema=sch,
    )
    sa.Index(n["ix"], T2.c[n["c3"]], T2.c[n["c2"]])
    t1names = [n["t1"], n["c1"], n["c2"], n["c3"], n["uq"], n["ck"]]
    t2names = [n["t2"], n["t1"], n["c1"], n["c2"], n["c3"], n["fk"]] + ([sch] if sch else [])
    # SQLite itself (raw SQL, correctly quoted) cannot resolve a subquery column that is
    # named "true"/"false": that stage is skipped for those two words.
    skip_subquery = n["c3"].lower() in ("true", "false") or n["lbl"].lower() in ("true", "false")

    eng = sa.create_engine("sqlite://")

    @sa.event.listens_for(eng, "before_cursor_execute")
    def _count(conn, cursor, statement, parameters, context, executemany):
        executed[0] += 1

    master = f"{hq(sch)}.sqlite_master" if sch else "sqlite_master"
    pre = f"{hq(sch)}." if sch else ""
    try:
        with eng.connect() as c:
            rawobs.con = c.connection.dbapi_connection
            raw = rawobs
            if sch:
                c.exec_driver_sql(f"ATTACH DATABASE ':memory:' AS {hq(sch)}")  # harness statement
            ok = step("create", lambda: md.create_all(c), fatal=True)

            def do_insert():
                c.execute(T1.insert(), [{n["c1"]: 1, n["c2"]: "a", n["c3"]: 3}, {n["c1"]: 2, n["c2"]: "b", n["c3"]: 4}])
                c.execute(T2.insert().values({n["c1"]: 1, n["c2"]: 2, n["c3"]: 7}))

            ok = ok and step("insert", do_insert, fatal=True)
            if ok:
                # independent observer of what the INSERTs stored
                got = raw.execute(f"SELECT * FROM {pre}{hq(n['t1'])} ORDER BY 1").fetchall()
                values("insert-stored", got, [(1, "a", 3), (2, "b", 4)])
                got = raw.execute(f"SELECT * FROM {pre}{hq(n['t2'])} ORDER BY 1").fetchall()
                values("insert-stored", got, [(1, 2, 7)])
                ok = not problems

            def do_select():
                r = c.execute(
                    sa.select(T1.c[n["c2"]], T1.c[n["c3"]].label(n["lbl"]))
                    .where(T1.c[n["c1"]] == 2)
                    .order_by(T1.c[n["c3"]])
                ).mappings().all()
                values("select", [(x[n["c2"]], x[n["lbl"]]) for x in r], [("b", 4)])
                r = c.execute(
                    sa.select(sa.column(n["c3"]), sa.column(n["c2"])).select_from(T1).where(sa.column(n["c1"]) == 1)
                ).all()
                values("select-bare-columns", [tuple(x) for x in r], [(3, "a")])

            def do_alias():
                a = T1.alias(n["alias"])
                r = c.execute(sa.select(a.c[n["c3"]], T2.c[n["c3"]]).join_from(T2, a).where(a.c[n["c1"]] == 2)).all()
                values("select-alias", [tuple(x) for x in r], [(4, 7)])

            def do_in():
                r = c.execute(sa.select(T1.c[n["c3"]]).where(T1.c[n["c1"]].in_([2, 9]))).all()
                values("select-in", [tuple(x) for x in r], [(4,)])

            def do_subquery():
                sq = sa.select(T1.c[n["c1"]].label(n["lbl"]), T1.c[n["c3"]]).subquery(n["alias"])
                r = c.execute(sa.select(sq.c[n["lbl"]]).where(sq.c[n["c3"]] == 4)).scalar()
                values("subquery", r, 2)

            def do_update():
                c.execute(T1.update().where(T1.c[n["c2"]] == "a").values({n["c3"]: T1.c[n["c3"]] + 10}))
                r = raw.execute(f"SELECT * FROM {pre}{hq(n['t1'])} ORDER BY 1").fetchall()
                values("update", r, [(1, "a", 13), (2, "b", 4)])

            def do_delete():
                c.execute(T2.delete().where(T2.c[n["c3"]] == 7))
                r = raw.execute(f"SELECT count(*) FROM {pre}{hq(n['t2'])}").fetchall()
                values("delete", r, [(0,)])

            if ok:
                step("select", do_select)
                step("select-alias", do_alias)
                step("select-in", do_in)
                if not skip_subquery:
                    step("subquery", do_subquery)
                step("update", do_update)
                step("delete", do_delete)

            created = not any(p[0] == "create" for p in problems)
            if created:
                # ---- independent observer: raw catalog and cursor.description
                got = sorted(x[0] for x in raw.execute(
                    f"SELECT name FROM {master} WHERE type IN ('table','index') AND name NOT LIKE 'sqlite\\_%' ESCAPE '\\'"))
                want = sorted([n["t1"], n["t2"], n["ix"]])
                ctx.count("raw_catalog_names_checked", 3)
                if got != want:
                    problem("raw-observe", "sqlite-stored-name-differs", f"sqlite_master has {got!r}, defined {want!r}")
                cur = raw.execute(f"SELECT * FROM {pre}{hq(n['t1'])}")
                got = [d[0] for d in cur.description]
                cur.close()
                ctx.count("raw_catalog_names_checked", 3)
                if got != [n["c1"], n["c2"], n["c3"]]:
                    problem("raw-observe", "sqlite-stored-name-differs", f"columns stored {got!r}")

                # ---- reflection
                def do_reflect():
                    insp = inspect(c)
                    if sch:
                        diff("schema", sch in insp.get_schema_names(), True, [])
                    diff("table-names", sorted(insp.get_table_names(schema=sch)), sorted([n["t1"], n["t2"]]), [])
                    diff("columns", [x["name"] for x in insp.get_columns(n["t1"], schema=sch)], [n["c1"], n["c2"], n["c3"]], [])
                    diff("pk", insp.get_pk_constraint(n["t1"], schema=sch)["constrained_columns"], [n["c1"]], [])
                    diff("index", [(i["name"], i["column_names"]) for i in insp.get_indexes(n["t2"], schema=sch)],
                         [(n["ix"], [n["c3"], n["c2"]])], [])
                    with warnings.catch_warnings():
                        warnings.simplefilter("ignore")
                        fks = insp.get_foreign_keys(n["t2"], schema=sch)
                        uqs = insp.get_unique_constraints(n["t1"], schema=sch)
                        cks = insp.get_check_constraints(n["t1"], schema=sch)
                    diff("fk", [(f["name"], f["constrained_columns"], f["referred_schema"], f["referred_table"], f["referred_columns"]) for f in fks],
                         [(n["fk"], [n["c2"]], sch, n["t1"], [n["c1"]])], t2names)
                    diff("uq", [(u["name"], u["column_names"]) for u in uqs], [(n["uq"], [n["c2"], n["c3"]])], t1names)
                    diff("ck", [k["name"] for k in cks], [n["ck"]], t1names)

                def do_autoload():
                    md2 = sa.MetaData()
                    with warnings.catch_warnings():
                        warnings.simplefilter("ignore")
                        R2 = sa.Table(n["t2"], md2, autoload_with=c, schema=sch)
                    diff("autoload-columns", [col.name for col in R2.columns], [n["c1"], n["c2"], n["c3"]], [])
                    diff("autoload-index", sorted(i.name for i in R2.indexes), [n["ix"]], [])
                    key1 = (sch + "." if sch else "") + n["t1"]
                    diff("autoload-referred-table", key1 in md2.tables and md2.tables[key1].name, n["t1"], [])
                    if ok:
                        c.execute(R2.insert().values({n["c1"]: 5, n["c3"]: 6}))
                        r = raw.execute(f"SELECT * FROM {pre}{hq(n['t2'])}").fetchall()
                        values("insert-reflected", r, [(5, None, 6)])

                step("reflect", do_reflect)
                step("autoload", do_autoload)

                def do_drop():
                    md.drop_all(c)
                    left = [x[0] for x in raw.execute(f"SELECT name FROM {master}")]
                    if left:
                        problem("drop", "sqlite-drop-left-objects", f"left {left!r}")

                step("drop", do_drop)
    except _ObserverFailed:
        pass  # recorded as a problem above; the rest of the case is skipped
    finally:
        eng.dispose()
    ctx.count("stmts_executed", executed[0])
    seen = set()
    for stage, mech, summary in problems:
        if mech in seen:
            continue  # one report per mechanism and case
        seen.add(mech)
        ctx.violation(mech, f"[{kind}] stage={stage} names={dict(n)!r} :: {summary}",
                      {"names": n, "kind": kind, "stage": stage, "detail": summary, "taints": taints})
    return len(problems)


def probe(st, word):
    from vf.gen import names_ge

    if word not in st.need:
        st.need[word] = names_ge.probe_word(word)
    return st.need[word]


# --------------------------------------------------------------------------
# part K: keywords
# --------------------------------------------------------------------------
def candidate_words(ctx):
    from sqlalchemy.dialects import mssql, mysql, oracle, postgresql, sqlite
    from sqlalchemy.engine import default
    from vf.gen import names_ge

    api = names_ge.sqlite_keyword_table()
    if ctx.shard == 0:
        ctx.count("keywords_from_sqlite_c_api", len(api))
    words = set(api)
    for d in (sqlite.dialect(), postgresql.dialect(), mysql.dialect(), mssql.dialect(), oracle.dialect(), default.DefaultDialect()):
        words |= {w.lower() for w in d.identifier_preparer.reserved_words}
    try:
        from sqlalchemy.dialects.mysql import reserved_words as rw

        words |= {w.lower() for w in rw.RESERVED_WORDS_MARIADB} | {w.lower() for w in rw.RESERVED_WORDS_MYSQL}
    except Exception:
        pass
    words |= {"rowid", "oid", "_rowid_", "true", "false", "main", "temp"}
    import re

    return sorted(w for w in words if re.fullmatch(r"[a-z_][a-z0-9_]*", w)), set(api)


def part_keywords(st):
    ctx = st.ctx
    words, api = candidate_words(ctx)
    prep = st.sqlite_prep
    for i, w in enumerate(words):
        if not ctx.mine(i):
            continue
        if not ctx.budget_ok():
            break
        bad = probe(st, w)
        ctx.count("keywords_probed")
        quoted = prep.quote(w) != w
        if bad:
            ctx.count("keywords_rejected_bare_by_parser")
            ctx.seen("needs_quote", w)
            if not quoted:
                ctx.violation(
                    f"sqlite-reserved-word-missing:{w}",
                    f"SQLite {sqlite3.sqlite_version} rejects bare {w!r} in positions {bad} but SQLiteIdentifierPreparer.quote({w!r}) leaves it unquoted",
                    {"word": w, "positions": bad, "in_c_api_keyword_table": w in api},
                )
        # deciding oracle: executed round trips, the word in every role
        base = dict(schema=None, t1="vf_ta", t2="vf_tb", c1="vf_ca", c2="vf_cb", c3="vf_cc", ix="vf_ix",
                    uq="vf_uq", fk="vf_fk", ck="vf_ck", lbl="vf_lbl", alias="vf_al")
        s1 = dict(base, t1=w, c2=w, ck=w)                          # table + column + check name
        s2 = dict(base, ix=w, uq=w, fk=w, alias=w, c1=w, lbl=w)    # index + constraints + alias + label + pk column
        s3 = dict(base, t2=w, c3=w)                                # referencing table, indexed column (+ schema)
        if w not in ("main", "temp"):
            s3["schema"] = w
        scenarios = (s1, s2, s3)
        if not bad and not quoted and w not in api:
            # an ordinary word for SQLite (it comes from another dialect's list): one role set is enough
            scenarios = (s1,) if i % 4 == 0 else ()
        for k, s in enumerate(scenarios):
            roundtrip(st, s, f"keyword-s{k + 1}")
            ctx.count("keyword_roundtrips")
            ctx.case({"kw": w, "scenario": k}, nontrivial=bool(bad) or quoted)
        if w in ("returning", "select"):
            ctx.sample({"keyword": w, "parser_rejects_bare_in": bad, "preparer_quotes": quoted})


# --------------------------------------------------------------------------
# part R: random names on SQLite
# --------------------------------------------------------------------------
def calibrate_label(st, name):
    """SQLite instance of the lexer calibrated against the real SQLite, and the
    preparer's quoting of ``name`` in label position judged by execution."""
    from vf.mon import sqltok_ge

    ctx = st.ctx
    text = st.sqlite_prep.quote(name)
    con = sqlite3.connect(":memory:")
    try:
        try:
            cur = con.execute(f"SELECT 1 AS {text}")
            stored = cur.description[0][0]
        except sqlite3.Error as e:
            stored = f"<error {e}>"
    finally:
        con.close()
    try:
        dec = sqltok_ge.split_dotted(text, "sqlite")
        dec = dec[0][0] if len(dec) == 1 else dec
    except sqltok_ge.LexError as e:
        dec = f"<lexerror {e}>"
    ctx.count("lexer_calibrations_on_sqlite")
    if stored != name:
        lx = name.lower()
        if name.endswith("\n") and text == name:
            mech = "legal-characters-regex-accepts-trailing-newline"
        elif lx == name and text == name and WORD.fullmatch(lx) and probe(st, lx):
            mech = f"sqlite-reserved-word-missing:{lx}"
        else:
            mech = "sqlite-label-quoting-wrong-name"
        ctx.violation(mech, f"SELECT 1 AS {text} names the column {stored!r}, wanted {name!r}", {"name": name, "text": text})
    elif dec != name:
        # the harness' lexer disagrees with the real SQLite: harness bug, not a verdict
        raise RuntimeError(f"sqlite lexer mis-calibrated: {text!r} -> {dec!r}, sqlite says {stored!r}")


def part_random(st):
    from vf.gen import names_ge

    ctx = st.ctx
    rng = ctx.rng
    ncases = ctx.pick({"quick": 80, "thorough": 3500})
    for k in range(ncases):
        if not ctx.budget_ok():
            break
        mode = k % 4
        kw = {}
        if mode == 1:
            kw = dict(hostile=0.2, maxlen=12)
        elif mode == 2:
            kw = dict(hostile=0.7, maxlen=5)
        names = names_ge.distinct_names(rng, len(ROLES), forbid=("main", "temp"), **kw)
        if mode in (0, 3):
            # half of the cases keep the three characters the constraint-reflection
            # regular expressions cannot cross out of the names (see module docstring)
            for i, x in enumerate(names):
                for h, sub in zip(REGEX_HOSTILE, ("'", "(", "\t", "#")):
                    x = x.replace(h, sub)
                names[i] = x or "_"
            if len({x.lower() for x in names}) != len(names) or any(x.lower() in ("main", "temp") or x.lower().startswith("sqlite_") for x in names):
                continue
        n = dict(zip(ROLES, names))
        if k % 3 == 0:
            n["schema"] = None
        nprob = roundtrip(st, n, "random")
        ctx.count("random_roundtrips")
        for x in names[:4]:
            calibrate_label(st, x)
        prep = st.sqlite_prep
        ctx.case(sorted(x for x in n.values() if x), nontrivial=any(prep.quote(x) != x for x in n.values() if x))
        if k < 2 and nprob == 0:
            ctx.sample({"random_names": n})


# --------------------------------------------------------------------------
# part D: every dialect, formatted text
# --------------------------------------------------------------------------
DIALECT_URLS = [
    ("sqlite", "sqlite://"),
    ("postgresql", "postgresql+psycopg2://u:p@h/db"),
    ("postgresql", "postgresql+asyncpg://u:p@h/db"),
    ("postgresql", "postgresql+pg8000://u:p@h/db"),
    ("mysql", "mysql+pymysql://u:p@h/db"),
    ("mariadb", "mariadb+mariadbconnector://u:p@h/db"),
    ("mssql", "mssql+pyodbc://u:p@dsn"),
    ("mssql", "mssql+pymssql://u:p@h/db"),
    ("oracle", "oracle+oracledb://u:p@h/?service_name=x"),
]


def part_dialects(st):
    from sqlalchemy import quoted_name
    from sqlalchemy.engine import make_url
    from vf.gen import names_ge
    from vf.mon import sqltok_ge

    ctx, sa = st.ctx, st.sa
    rng = ctx.rng
    dialects = []
    for fam, url in DIALECT_URLS:
        try:
            u = make_url(url)
            d = u.get_dialect()()
        except Exception:
            ctx.count("dialect_unavailable")
            continue
        dialects.append((fam, url.split(":")[0], d))
    nsets = ctx.pick({"quick": 250, "thorough": 8000})
    for k in range(nsets):
        if not ctx.budget_ok():
            break
        kw = dict(hostile=0.6, maxlen=6) if k % 2 else {}
        sch, tab, col = names_ge.distinct_names(rng, 3, **kw)
        for fam, drv, d in dialects:
            s_, t_, c_ = sch, tab, col
            if fam == "oracle":
                s_, t_, c_ = (x.replace('"', "'") for x in (s_, t_, c_))
            prep = d.identifier_preparer
            schema_arg = s_
            if fam == "mssql" and any(ch in s_ for ch in ".[]"):
                schema_arg = quoted_name(s_, quote=True)
            md = sa.MetaData()
            T = sa.Table(t_, md, sa.Column(c_, sa.Integer), schema=schema_arg)
            for what, text, want in (
                ("table", prep.format_table(T), [s_, t_]),
                ("column", prep.format_column(T.c[c_], use_table=True, use_schema=True), [s_, t_, c_]),
                ("bare-table", prep.format_table(T, use_schema=False), [t_]),
            ):
                wire = text
                if prep._double_percents:
                    try:
                        wire = sqltok_ge.percent_collapse(text)
                    except sqltok_ge.LexError as e:
                        ctx.violation(f"format-style-lone-percent:{fam}", f"{drv}: {what} {want!r} formatted as {text!r}: {e}", {"dialect": drv, "names": want, "text": text})
                        continue
                desc = {"dialect": drv, "what": what, "names": want, "text": text}
                # (i) the library's own inverse
                ctx.count("dialect_format_roundtrips")
                try:
                    back = list(prep.unformat_identifiers(wire))
                except Exception as e:  # noqa: BLE001 - any failure of the inverse is the finding
                    back = f"<{type(e).__name__}: {e}>"
                if back != want:
                    ctx.violation(f"unformat-does-not-invert-format:{fam}", f"{drv}: unformat_identifiers({wire!r}) = {back!r}, components were {want!r}", desc)
                # (ii) independent lexer over the vendor grammar
                ctx.count("lexer_decodes")
                try:
                    toks = sqltok_ge.split_dotted(wire, fam)
                    dec = [a for a, _ in toks]
                    # a bare token is only acceptable if it is the name itself and the
                    # backend's folding of a regular identifier is SQLAlchemy's
                    # "all lower case = case insensitive" convention
                    for (a, quoted), w in zip(toks, want):
                        if not quoted and a != a.lower():
                            raise sqltok_ge.LexError(f"bare token {a!r} is case-folded by the backend")
                except sqltok_ge.LexError as e:
                    dec = f"<{e}>"
                if dec != want and any(x.endswith("\n") and prep.quote(x) == x for x in want):
                    ctx.violation("legal-characters-regex-accepts-trailing-newline",
                                  f"{drv}: a name ending in newline is rendered unquoted: {wire!r} for {want!r}", desc)
                elif dec != want:
                    ctx.violation(f"formatted-identifier-not-one-token:{fam}", f"{drv}: {wire!r} lexes to {dec!r}, components were {want!r}", desc)
                ctx.case([drv, what] + want, nontrivial=any(ch in x for x in want for ch in "\"'`[].%"))
            if k < 1 and fam in ("mssql", "mysql"):
                ctx.sample({"dialect": drv, "names": [s_, t_, c_], "format_table": prep.format_table(T)})
    percent_stream(st)


def percent_stream(st):
    """'%' in names under format / pyformat drivers, judged at the DBAPI boundary."""
    from vf.gen import names_ge
    from vf.mon import fake_dbapi

    ctx, sa = st.ctx, st.sa
    rng = ctx.rng
    targets = [
        ("postgresql+psycopg2://u:p@h/db", '"', '"'),
        ("mysql+pymysql://u:p@h/db", "`", "`"),
        ("mysql+mysqldb://u:p@h/db", "`", "`"),
    ]
    n = ctx.pick({"quick": 25, "thorough": 800})
    for url, q, esc in targets:
        try:
            eng, fake = fake_dbapi.recording_engine(url)
        except Exception:
            ctx.count("dialect_unavailable")
            continue
        try:
            with eng.connect() as conn:
                for k in range(n):
                    if not ctx.budget_ok():
                        break
                    tab, c1, c2 = names_ge.distinct_names(rng, 3, hostile=0.5, maxlen=6, allow_ctrl=False)
                    if "%" not in tab + c1 + c2:
                        c1 = c1 + "%" + rng.choice(["", "s", "(a)s", "%", "d"])
                    md = sa.MetaData()
                    T = sa.Table(tab, md, sa.Column(c1, sa.Integer), sa.Column(c2, sa.Integer))
                    mark = fake.mark()
                    try:
                        conn.execute(sa.select(T.c[c1]).where(T.c[c2] == 5))
                        conn.execute(T.update().where(T.c[c1] == 1).values({c2: 7}))
                    except sa.exc.StatementError as e:
                        if isinstance(e.orig, KeyError) and any("%(" in x for x in (tab, c1, c2)):
                            mech = "positional-rewrite-reads-percent-paren-in-identifier-as-bind"
                        elif isinstance(e.orig, KeyError) and any("[POSTCOMPILE_" in x for x in (tab, c1, c2)):
                            mech = "postcompile-marker-in-identifier-read-as-bind"
                        else:
                            mech = "format-style-statement-with-percent-name-fails"
                        ctx.violation(mech, f"{url}: names {[tab, c1, c2]!r}: {type(e).__name__}: {str(e)[:300]}",
                                      {"url": url, "names": [tab, c1, c2]})
                        continue
                    for ev in fake.since(mark, ("execute",)):
                        sql, params = ev.sql, ev.params
                        if not params:
                            continue
                        ctx.count("percent_stream_checks")
                        desc = {"url": url, "names": [tab, c1, c2], "sql": sql, "params": params}
                        try:
                            if isinstance(params, dict):
                                sent = sql % {kk: "1" for kk in params}
                            else:
                                sent = sql % tuple("1" for _ in params)
                        except (TypeError, ValueError, KeyError) as e:
                            ctx.violation("format-style-percent-in-identifier-breaks-driver-formatting",
                                          f"{url}: {sql!r} % params raises {type(e).__name__}: {e}", desc)
                            continue
                        for x in (tab, c1, c2):
                            want = q + x.replace(esc, esc * 2) + q
                            if "%" in x and want not in sent:
                                ctx.violation("format-style-percent-in-identifier-not-preserved",
                                              f"{url}: after driver formatting {sent!r} lacks {want!r}", desc)
                    ctx.case([url, tab, c1, c2], nontrivial=True)
        finally:
            eng.dispose()


# --------------------------------------------------------------------------
# part N: name-normalizing backends (requires_name_normalize): normalize / denormalize
# --------------------------------------------------------------------------
def normalizing_dialects(ctx):
    """(label, dialect, lexer family) of every bundled dialect that normalizes names, plus
    the DefaultDialect configured as such (what a third-party upper-folding backend gets)."""
    from sqlalchemy.engine import default, make_url

    out = []
    for fam, url in DIALECT_URLS + [("oracle", "oracle+cx_oracle://u:p@h/?service_name=x")]:
        try:
            d = make_url(url).get_dialect()()
        except Exception:
            continue
        if getattr(d, "requires_name_normalize", False):
            out.append((url.split(":")[0], d, fam))
    g = default.DefaultDialect()
    g.requires_name_normalize = True
    out.append(("default+normalize", g, "postgresql"))   # "..." with doubled quote
    return out


def part_normalize(st):
    """Model of the backend: a quoted token addresses the name verbatim, a bare token
    addresses its upper-cased form (Oracle / SQL standard folding).

    stored  S --normalize_name--> n --quote--> text : text must address S again, and
            denormalize_name(n) must be S (catalog lookups go through it);
    defined u --quote--> text (addresses S') : denormalize_name(u) must be S'.
    """
    from sqlalchemy import quoted_name
    from vf.gen import names_ge
    from vf.mon import sqltok_ge

    ctx = st.ctx
    rng = ctx.rng

    def addressed(text, fam):
        toks = sqltok_ge.split_dotted(text, fam)
        if len(toks) != 1:
            raise sqltok_ge.LexError(f"{len(toks)} tokens")
        tok, quoted = toks[0]
        return tok if quoted else tok.upper()

    for label, d, fam in normalizing_dialects(ctx):
        prep = d.identifier_preparer
        words = sorted(w for w in prep.reserved_words if WORD.fullmatch(w.lower()))
        initials = sorted(prep.illegal_initial_characters)

        def variants(w):
            yield w.lower()
            yield w.upper()
            yield w.capitalize()
            yield w[:1].lower() + w[1:].upper()

        names = []
        for i, w in enumerate(words):                 # every reserved word, every case
            if ctx.mine(i):
                names.extend(variants(w))
        for i, ch in enumerate(initials):             # illegal initial characters
            if ctx.mine(i):
                for body in ("abc", "ABC", "Abc", "a b", "A_1", ""):
                    names.append(ch + body)
        nrand = ctx.pick({"quick": 250, "thorough": 6000})
        for k in range(nrand):                        # the hostile alphabet, plus case-shifted copies
            x = names_ge.rand_name(rng, hostile=rng.choice([0.1, 0.45]), maxlen=8)
            names.append(x)
            names.append(rng.choice([x.upper(), x.lower(), rng.choice(initials) + x.upper(), rng.choice(words).upper() + ("" if k % 3 else x)]))
        for S in names:
            if not ctx.budget_ok():
                break
            if not S or "\x00" in S or (fam == "oracle" and '"' in S):
                continue  # not representable on the backend
            desc = {"dialect": label, "stored": S}
            # ---- reflection direction
            n = d.normalize_name(S)
            text = prep.quote(n)
            den = d.denormalize_name(n)
            try:
                back = addressed(text, fam)
            except sqltok_ge.LexError as e:
                back = f"<{e}>"
            ctx.count("normalize_roundtrips")
            if isinstance(n, str) and n != S:
                ctx.count("normalize_changed_name")
            if back != S:
                if S.endswith("\n") and text == n:
                    mech = "legal-characters-regex-accepts-trailing-newline"
                else:
                    mech = "normalized-name-addresses-different-object"
                ctx.violation(mech, f"{label}: stored {S!r} is reflected as {n!r}, rendered {text!r}, which addresses {back!r}",
                              dict(desc, normalized=repr(n), rendered=text, addresses=back))
            elif den != S:
                ctx.violation("denormalize-does-not-invert-normalize", f"{label}: denormalize_name(normalize_name({S!r})) = {den!r} (normalized {n!r})",
                              dict(desc, normalized=repr(n), denormalized=den))
            # ---- definition direction: plain str, quote=True, quote=None; quote=False only for
            # an all-lower-case word that needs no quotes ("never quote" on a mixed-case or
            # reserved name is a contradiction in terms: the bare text is not that object / not SQL)
            for u in (S, quoted_name(S, True), quoted_name(S, None)) + ((quoted_name(S, False),) if S == S.lower() and WORD.fullmatch(S) and not prep._requires_quotes(S) else ()):
                try:
                    text = prep.quote(u)
                    toks = sqltok_ge.split_dotted(text, fam)
                except sqltok_ge.LexError:
                    continue      # formatting faults are judged by part D
                if len(toks) != 1 or (not toks[0][1] and not toks[0][0].isascii()):
                    continue      # bare non-ASCII: folding is locale dependent on the server
                target = toks[0][0] if toks[0][1] else toks[0][0].upper()
                ctx.count("denormalize_vs_rendered_checks")
                den = d.denormalize_name(u)
                if den != target:
                    if S.endswith("\n") and text == S:
                        continue  # trailing-newline defect, reported above / by part D
                    ctx.violation("denormalize-differs-from-what-rendered-name-addresses",
                                  f"{label}: {u!r} (quote={getattr(u, 'quote', None)!r}) renders {text!r} -> object {target!r}, but denormalize_name gives {den!r}",
                                  dict(desc, quote=getattr(u, "quote", None), rendered=text, denormalized=den))
            ctx.case(["normalize", label, S], nontrivial=S.lower() in prep.reserved_words or S[0] in prep.illegal_initial_characters or S != S.lower())
        if ctx.shard == 0:
            ctx.sample({"dialect": label, "stored": "SELECT", "normalized": repr(d.normalize_name("SELECT")),
                        "rendered": prep.quote(d.normalize_name("SELECT"))})


def run(ctx):
    import sqlalchemy as sa

    st = Ctxt(ctx, sa)
    part_dialects(st)   # pure string work first: never starved by the executed parts
    part_normalize(st)
    part_keywords(st)
    part_random(st)
